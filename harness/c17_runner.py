"""C17 runner.  /venv/bin/python c17_runner.py <tasks.json> <results.json>   (PYTHONPATH = the nbdime tree under test)

Each task is a *scenario*: a script of file/git operations that builds a repository with the real `git` in a
fresh temporary directory, plus one query (which refs, from which directory, which path filters, API or CLI).
For each scenario this file
  1. builds the repository,
  2. collects the GIT FACTS with the git command line only (no nbdime, no GitPython): name-status and raw diff,
     blob contents, a snapshot of the files on disk, attribute/filter configuration, which CLI words are refs,
  3. runs the real nbdime (gitfiles.changed_notebooks, or nbdiffapp.main for CLI scenarios) and records every
     yielded pair (kind of stream, name, content), os.getcwd() before / at each yield / after, and any exception.
Nothing is judged here.  This file imports nothing from the rest of the harness."""
import sys, os, json, subprocess, tempfile, shutil, re, io, traceback

NULL_SHA = '0' * 40
GIT_ENV = dict(os.environ, GIT_AUTHOR_NAME='nbv', GIT_AUTHOR_EMAIL='nbv@example.invalid',
               GIT_COMMITTER_NAME='nbv', GIT_COMMITTER_EMAIL='nbv@example.invalid',
               GIT_AUTHOR_DATE='2020-01-01T00:00:00Z', GIT_COMMITTER_DATE='2020-01-01T00:00:00Z',
               GIT_CONFIG_GLOBAL='/dev/null', GIT_CONFIG_SYSTEM='/dev/null', GIT_CONFIG_NOSYSTEM='1',
               GIT_TERMINAL_PROMPT='0', LC_ALL='C')
os.environ.update({k: GIT_ENV[k] for k in GIT_ENV if k.startswith('GIT_') or k == 'LC_ALL'})

PAD = ['alpha beta gamma delta %d' % i * 3 for i in range(8)]


def nb_text(cid):
    """every file version is a (valid) notebook whose first cell carries the unique marker MARK<cid>"""
    cells = [{'cell_type': 'markdown', 'metadata': {}, 'source': ['MARK%d' % cid]}]
    cells += [{'cell_type': 'markdown', 'metadata': {}, 'source': [p]} for p in PAD]
    return json.dumps({'cells': cells, 'metadata': {}, 'nbformat': 4, 'nbformat_minor': 2}, indent=1, sort_keys=True) + '\n'


def cid_of(text):
    if text is None: return None
    m = re.search(r'(MARK|KR[A-D]M)(\d+)', text)
    if not m: return -1
    # KRAM<n>, KRBM<n>, ...: the content MARK<n> after the clean-filter driver 0, 1, ... (DRIVERS below)
    return int(m.group(2)) + (100000 * (1 + 'ABCD'.index(m.group(1)[2])) if m.group(1) != 'MARK' else 0)


def git(cwd, *args, check=True, binary=False):
    p = subprocess.run(['git'] + list(args), cwd=cwd, env=GIT_ENV, capture_output=True)
    if check and p.returncode != 0:
        raise RuntimeError('git %s failed in %s: %s' % (' '.join(args), cwd, p.stderr.decode('utf-8', 'replace')[-400:]))
    return p.stdout if binary else p.stdout.decode('utf-8', 'replace')


def git_rc(cwd, *args):
    return subprocess.run(['git'] + list(args), cwd=cwd, env=GIT_ENV, capture_output=True).returncode


FILTER_CMD = 'sed s/MARK/KRAM/'

# several distinguishable clean-filter drivers, for repositories whose configuration defines filter.nbv.clean more than once
DRIVERS = [FILTER_CMD, 'sed s/MARK/KRBM/', 'sed s/MARK/KRCM/', 'sed s/MARK/KRDM/']

ROOT_MARK = '{ROOT}'


def expand(word, root):
    """scenarios cannot know the name of the temporary directory: a word starting with {ROOT} stands for the
    ABSOLUTE path of the repository root followed by the rest of the word (absolute path filters)"""
    if isinstance(word, str) and word.startswith(ROOT_MARK): return root + word[len(ROOT_MARK):]
    return word


def expand_all(words, root):
    if words is None or isinstance(words, str): return expand(words, root)
    return [expand(w, root) for w in words]


def set_git_env(env):
    """git configuration sources of the scenario being run: for the git commands of this file (GIT_ENV) and for the ones
    nbdime and GitPython start (os.environ)"""
    for k, v in env.items():
        GIT_ENV[k] = v; os.environ[k] = v


def restore_git_env(saved):
    for d, old in ((GIT_ENV, saved[0]), (os.environ, saved[1])):
        for k in [k for k in d if k.startswith('GIT_CONFIG')]: del d[k]
        for k, v in old.items(): d[k] = v


def save_git_env():
    return ({k: v for k, v in GIT_ENV.items() if k.startswith('GIT_CONFIG')}, {k: v for k, v in os.environ.items() if k.startswith('GIT_CONFIG')})


def configure_filter(root, steps, cfgdir):
    """filter.nbv.clean defined by a SEQUENCE of configuration steps [level, how, driver], applied in order:
      level   local (.git/config) | global ($GIT_CONFIG_GLOBAL, a file of the scenario) | system ($GIT_CONFIG_SYSTEM, likewise)
              | include-local / include-global (a file of its own, pulled in by an [include] appended at this point of the
              repository / global file) | env (GIT_CONFIG_COUNT/KEY/VALUE, what `git -c` hands to child processes)
      how     add (`git config --add`) | set (`git config --replace-all`) | raw (a further [filter "nbv"] section appended)
              | rawcase (the same spelled [FILTER "nbv"] CLEAN = ...); ignored for include-* and env
      driver  index into DRIVERS, or None for an empty value
    Which value is in force is for git to say (the judge asks git hash-object); nothing here computes it."""
    local = os.path.join(root, '.git', 'config')
    files = {'local': local, 'global': os.path.join(cfgdir, 'global.gitconfig'), 'system': os.path.join(cfgdir, 'system.gitconfig')}
    levels = {s[0] for s in steps}
    env = {}
    if levels & {'global', 'include-global'}:
        env['GIT_CONFIG_GLOBAL'] = files['global']; open(files['global'], 'a').close()
    if 'system' in levels:
        env['GIT_CONFIG_SYSTEM'] = files['system']; env['GIT_CONFIG_NOSYSTEM'] = '0'; open(files['system'], 'a').close()
    envvals = []
    for k, (level, how, d) in enumerate(steps):
        val = '' if d is None else DRIVERS[d]
        if level == 'env':
            envvals.append(val)
        elif level in ('include-local', 'include-global'):
            host = files[level[len('include-'):]]
            inc = os.path.join(os.path.dirname(host), 'nbv_inc%d.cfg' % k)
            with open(inc, 'w') as f: f.write('[filter "nbv"]\n\tclean = "%s"\n' % val)
            # relative to the including file (repository) or absolute (global)
            with open(host, 'a') as f: f.write('[include]\n\tpath = %s\n' % (os.path.basename(inc) if level == 'include-local' else inc))
        elif how in ('add', 'set'):
            git(root, 'config', '--file', files[level], '--add' if how == 'add' else '--replace-all', 'filter.nbv.clean', val)
        elif how in ('raw', 'rawcase'):
            with open(files[level], 'a') as f:
                f.write(('[FILTER "nbv"]\n\tCLEAN = "%s"\n' if how == 'rawcase' else '[filter "nbv"]\n\tclean = "%s"\n') % val)
        else:
            raise RuntimeError('unknown filter configuration step %r' % ([level, how, d],))
    if envvals:
        env['GIT_CONFIG_COUNT'] = str(len(envvals))
        for i, v in enumerate(envvals):
            env['GIT_CONFIG_KEY_%d' % i] = 'filter.nbv.clean'; env['GIT_CONFIG_VALUE_%d' % i] = v
    return env


def build(base, sc, cfgdir=None):
    root = os.path.join(base, *sc['root_rel'].split('/'))
    os.makedirs(root)
    git(root, 'init', '-q', '-b', 'main', '.')
    if sc.get('filter'):
        if sc.get('filter_config'):
            set_git_env(configure_filter(root, sc['filter_config'], cfgdir))
        else:
            git(root, 'config', 'filter.nbv.clean', FILTER_CMD)
        with open(os.path.join(root, '.gitattributes'), 'w') as f:
            f.write('%s filter=nbv\n' % sc['filter'])
    n = 0
    for op in sc['ops']:
        k = op[0]
        if k == 'write':
            p = os.path.join(root, *op[1].split('/'))
            os.makedirs(os.path.dirname(p), exist_ok=True)
            with open(p, 'w', encoding='utf-8') as f: f.write(nb_text(op[2]))
        elif k == 'rm':
            os.remove(os.path.join(root, *op[1].split('/')))
        elif k == 'mv':
            d = os.path.join(root, *op[2].split('/'))
            os.makedirs(os.path.dirname(d), exist_ok=True)
            os.rename(os.path.join(root, *op[1].split('/')), d)
        elif k == 'commit':
            git(root, 'add', '-A'); n += 1
            git(root, 'commit', '-q', '--allow-empty', '-m', 'c%d' % n)
        elif k == 'add_all':
            git(root, 'add', '-A')
        elif k == 'add':
            git(root, 'add', '-A', '--', op[1])
        elif k == 'rm_cached':
            # the path leaves the index, the file stays on disk (now untracked)
            git(root, 'rm', '-q', '--cached', '--', op[1])
        elif k == 'tag':
            git(root, 'tag', op[1])
        elif k == 'branch':
            git(root, 'branch', op[1])
        else:
            raise RuntimeError('unknown op %r' % (op,))
    for rel, cid in sc.get('decoys', []):
        p = os.path.join(base, *rel.split('/'))
        os.makedirs(os.path.dirname(p), exist_ok=True)
        with open(p, 'w', encoding='utf-8') as f: f.write(nb_text(cid))
    return root


def snapshot(base):
    out = []
    for d, dirs, files in os.walk(base):
        if '.git' in dirs: dirs.remove('.git')
        for fn in files:
            p = os.path.join(d, fn)
            try:
                out.append([p, cid_of(open(p, encoding='utf-8').read())])
            except (OSError, UnicodeDecodeError):
                out.append([p, -1])
    return sorted(out)


def diff_args(ra, rb):
    """git diff arguments for a ref pair; refs are commit-ish strings, 'INDEX' or 'WORKTREE'"""
    if ra == 'INDEX' and rb == 'WORKTREE': return []
    if rb == 'WORKTREE': return [ra]
    if rb == 'INDEX': return ['--cached', ra]
    return [ra, rb]


def side_text(root, ref, path):
    if ref == 'WORKTREE':
        try:
            return open(os.path.join(root, *path.split('/')), encoding='utf-8').read()
        except OSError:
            return None
    spec = (':' if ref == 'INDEX' else ref + ':') + path
    p = subprocess.run(['git', 'show', spec], cwd=root, env=GIT_ENV, capture_output=True)
    return p.stdout.decode('utf-8') if p.returncode == 0 else None


def filter_of(root, path):
    """clean-filter command git has configured for path (asked from the repository root), else None"""
    out = git(root, 'check-attr', '-z', 'filter', '--', path, check=False, binary=True).split(b'\x00')
    if len(out) < 3: return None
    v = out[2].decode()
    if v in ('unspecified', 'set', 'unset', ''): return None
    p = subprocess.run(['git', 'config', '--get', 'filter.%s.clean' % v], cwd=root, env=GIT_ENV, capture_output=True)
    return p.stdout.decode().strip() or None if p.returncode == 0 else None


def run_filter(cmd, text):
    return subprocess.run(cmd, shell=True, input=text.encode(), capture_output=True).stdout.decode()


def git_cleaned(root, path):
    """the content git itself compares for the working-tree file at `path` (relative to the root): the blob
    `git hash-object --path` makes of the file, i.e. after the clean filter GIT runs for that path; None if there is no file"""
    p = subprocess.run(['git', 'hash-object', '-w', '--path=' + path, os.path.join(root, *path.split('/'))], cwd=root, env=GIT_ENV, capture_output=True)
    if p.returncode != 0: return None
    q = subprocess.run(['git', 'cat-file', 'blob', p.stdout.decode().strip()], cwd=root, env=GIT_ENV, capture_output=True)
    return q.stdout.decode('utf-8', 'replace') if q.returncode == 0 else None


def parse_z(out, raw):
    toks = out.split('\x00')
    if toks and toks[-1] == '': toks.pop()
    res = []; i = 0
    while i < len(toks):
        head = toks[i]; i += 1
        if raw:
            f = head.lstrip(':').split(' ')
            st = f[4]; rec = {'amode': f[0], 'bmode': f[1], 'asha': f[2], 'bsha': f[3], 'status': st}
        else:
            st = head; rec = {'status': st}
        rec['a'] = toks[i]; i += 1
        if st[0] in 'RC':
            rec['b'] = toks[i]; i += 1
        else:
            rec['b'] = rec['a']
        res.append(rec)
    return res


def git_facts(base, root, cwd, sc, ra, rb, paths, popped):
    """everything the judge and the model need, from the git command line alone"""
    facts = {}
    # filter.nbv.clean configured by a sequence of steps (possibly several values): the cleaned content is asked of git
    multi = bool(sc.get('filter') and sc.get('filter_config'))
    da = diff_args(ra, rb)
    pa = (['--'] + list(paths)) if paths else []
    # T2: what git reports, asked from the caller's directory with the caller's paths
    p = subprocess.run(['git', 'diff', '--name-status', '-z', '-M'] + da + pa, cwd=cwd, env=GIT_ENV, capture_output=True)
    facts['name_status_rc'] = p.returncode
    facts['name_status'] = parse_z(p.stdout.decode('utf-8', 'replace'), False) if p.returncode == 0 else []
    # T1: the abstract entries, asked from the root with the paths prefixed by the popped directories
    def at_root(q):
        if not os.path.isabs(q): return '/'.join(popped + [q])
        n = os.path.normpath(q)                      # an absolute filter does not depend on the caller's directory
        if n == root: return '.'
        return n[len(root) + 1:] if n.startswith(root + os.sep) else q
    pre = [at_root(q) for q in paths] if paths else []
    facts['prefixed_paths'] = pre
    p = subprocess.run(['git', 'diff', '--raw', '-z', '-M', '--abbrev=40'] + da + ((['--'] + pre) if pre else []),
                       cwd=root, env=GIT_ENV, capture_output=True)
    facts['raw_rc'] = p.returncode
    raw = parse_z(p.stdout.decode('utf-8', 'replace'), True) if p.returncode == 0 else []
    blobs = {}
    for r in raw:
        for s in ('asha', 'bsha'):
            h = r[s]
            if h != NULL_SHA and h not in blobs:
                q = subprocess.run(['git', 'cat-file', 'blob', h], cwd=root, env=GIT_ENV, capture_output=True)
                blobs[h] = cid_of(q.stdout.decode('utf-8', 'replace')) if q.returncode == 0 else -1
    facts['raw'] = raw; facts['blobs'] = blobs
    # contents of each side of each reported entry
    cont = {}
    for r in facts['name_status']:
        for ref, path in ((ra, r['a']), (rb, r['b'])):
            key = ref + '\x00' + path
            if key in cont: continue
            t = side_text(root, ref, path)
            if t is not None and ref == 'WORKTREE':
                cmd = filter_of(root, path)
                if cmd: t = git_cleaned(root, path) if multi else run_filter(cmd, t)
            cont[key] = cid_of(t)
    facts['contents'] = [[k.split('\x00')[0], k.split('\x00')[1], v] for k, v in sorted(cont.items())]
    # filter table at the root, for every path in the raw entries
    ft = {}
    for r in raw:
        for path in (r['a'], r['b']):
            if path in ft: continue
            cmd = filter_of(root, path)
            if not cmd: ft[path] = None
            else:
                t = side_text(root, 'WORKTREE', path)
                ft[path] = 'raise' if t is None else cid_of(git_cleaned(root, path) if multi else run_filter(cmd, t))
    facts['filter_at_root'] = ft
    if multi:
        # for the evidence: every value git lists, in git's order, with the file it comes from; and a cross-check of the
        # two independent readings of "what git cleans" (hash-object vs. the last listed value run by hand) on every file
        p = subprocess.run(['git', 'config', '--show-scope', '--get-all', '-z', 'filter.nbv.clean'], cwd=root, env=GIT_ENV, capture_output=True)
        toks = p.stdout.decode('utf-8', 'replace').split('\x00')
        facts['clean_values'] = [[toks[i], toks[i + 1]] for i in range(0, len(toks) - 1, 2)]
        dis = []
        for path in sorted({x for r in raw for x in (r['a'], r['b'])}):
            t = side_text(root, 'WORKTREE', path)
            if t is None: continue
            cmd = filter_of(root, path)
            byhand = cid_of(run_filter(cmd, t) if cmd else t); bygit = cid_of(git_cleaned(root, path))
            if byhand != bygit: dis.append([path, byhand, bygit])
        facts['clean_oracles_disagree'] = dis
    facts['snapshot'] = snapshot(base)
    return facts


def desc(f, missing):
    if isinstance(f, str):
        return {'kind': 'missing'} if f == missing else {'kind': 'str', 'name': f}
    cls = type(f).__name__
    name = getattr(f, 'name', None)
    try:
        text = f.read()
        try: f.seek(0)
        except Exception: pass
    except Exception as e:
        return {'kind': 'unreadable', 'cls': cls, 'name': str(name), 'err': type(e).__name__}
    kind = {'BlobWrapper': 'blob', 'TextIOWrapper': 'file', 'NamedStringIO': 'filtered'}.get(cls, 'other:' + cls)
    return {'kind': kind, 'name': str(name), 'cid': cid_of(text)}


def ref_to_api(r, G):
    return {'WORKTREE': G.GitRefWorkingTree, 'INDEX': G.GitRefIndex}.get(r, r)


def run_query(sc, root, cwd):
    import nbdime.gitfiles as G
    from nbdime.utils import EXPLICIT_MISSING_FILE as MISSING
    q = sc['query']
    obs = {'cwd0': None, 'yields': [], 'cwd1': None, 'exc': None}
    os.chdir(cwd)
    obs['cwd0'] = os.getcwd()
    try:
        if q['mode'] == 'api':
            gen = G.changed_notebooks(ref_to_api(q['ref_a'], G), ref_to_api(q['ref_b'], G), expand_all(q['paths'], root))
            for fa, fb in gen:
                obs['yields'].append([desc(fa, MISSING), desc(fb, MISSING), os.getcwd()])
        else:
            import nbdime.nbdiffapp as A
            calls = []; handled = []
            marked = {expand(w, root): w for w in q['argv'] if w != expand(w, root)}
            unexpand = lambda w: marked.get(w, w)     # recorded calls name the scenario's words, not the temporary directory
            orig_cn = A.changed_notebooks
            orig_hd = A._handle_diff

            def cn(base, remote, paths=None, *a, **kw):
                calls.append([base if base is None or isinstance(base, str) else repr(base),
                              remote if remote is None or isinstance(remote, str) else repr(remote),
                              unexpand(paths) if paths is None or isinstance(paths, str) else [unexpand(w) for w in paths]])
                for fa, fb in orig_cn(base, remote, paths, *a, **kw):
                    obs['yields'].append([desc(fa, MISSING), desc(fb, MISSING), os.getcwd()])
                    yield fa, fb

            def hd(base, remote, output, args):
                rec = {'base': desc(base, MISSING), 'remote': desc(remote, MISSING), 'cwd': os.getcwd()}
                handled.append(rec)
                try:
                    rec['status'] = orig_hd(base, remote, output, args)
                except BaseException as e:
                    rec['exc'] = type(e).__name__
                    raise
                return rec['status']
            A.changed_notebooks = cn; A._handle_diff = hd
            so = sys.stdout; sys.stdout = io.StringIO()
            try:
                obs['status'] = A.main(expand_all(list(q['argv']), root))
            finally:
                sys.stdout = so
                A.changed_notebooks = orig_cn; A._handle_diff = orig_hd
                obs['cn_calls'] = calls; obs['handled'] = handled
    except SystemExit as e:
        obs['exc'] = {'type': 'SystemExit', 'msg': str(e.code)}
    except BaseException as e:
        obs['exc'] = {'type': type(e).__name__, 'msg': str(e)[:300],
                      'where': [l.strip() for l in traceback.format_tb(e.__traceback__)[-2:]]}
    try:
        obs['cwd1'] = os.getcwd()
    except OSError:
        obs['cwd1'] = None
    return obs


def is_ref_table(cwd, words, root=None):
    """independent reading of gitfiles.is_gitref: not an existing path (relative to cwd) and names a commit"""
    t = {}
    for w0 in words:
        w = expand(w0, root) if root else w0
        exists = os.path.exists(os.path.join(cwd, w))
        valid = git_rc(cwd, 'rev-parse', '--verify', '--quiet', w + '^{commit}') == 0
        t[w0] = {'exists': exists, 'valid': valid, 'isref': (not exists) and valid and w != '/dev/null'}
    return t


def one(sc, home):
    base = os.path.realpath(tempfile.mkdtemp(prefix='nbv_c17_'))
    here = os.getcwd()
    saved = save_git_env()
    cfgdir = tempfile.mkdtemp(prefix='cfg_', dir=home) if sc.get('filter_config') else None
    try:
        root = build(base, sc, cfgdir)
        q = sc['query']
        popped = [c for c in q['cwd'].split('/') if c]
        cwd = os.path.join(root, *popped)
        os.makedirs(cwd, exist_ok=True)
        res = {'base': base, 'root': root, 'cwd': cwd}
        if q['mode'] == 'cli':
            res['reftable'] = is_ref_table(cwd, sorted(set(q['argv_pos'] + ['HEAD'])), root)
        ra, rb, paths = q['ref_a'], q['ref_b'], q['paths']
        if isinstance(paths, str): paths = [paths]
        paths = expand_all(paths, root)
        res['facts'] = git_facts(base, root, cwd, sc, ra, rb, paths or [], popped)
        res['obs'] = run_query(sc, root, cwd)
        res['snapshot_after'] = snapshot(base)
        return res
    except BaseException as e:
        return {'err': 'RunnerError', 'msg': '%s: %s' % (type(e).__name__, str(e)[:500]), 'tb': traceback.format_exc()[-800:]}
    finally:
        os.chdir(here)
        restore_git_env(saved)
        shutil.rmtree(base, ignore_errors=True)
        if cfgdir: shutil.rmtree(cfgdir, ignore_errors=True)


def main():
    tasks = json.load(open(sys.argv[1]))
    home = tempfile.mkdtemp(prefix='nbv_c17_home_')
    for k in ('HOME', 'XDG_CONFIG_HOME', 'JUPYTER_CONFIG_DIR', 'JUPYTER_DATA_DIR', 'IPYTHONDIR'):
        os.environ[k] = home; GIT_ENV[k] = home
    try:
        out = [one(sc, home) for sc in tasks]
    finally:
        shutil.rmtree(home, ignore_errors=True)
    json.dump(out, open(sys.argv[2], 'w'))


if __name__ == '__main__':
    main()
