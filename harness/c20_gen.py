"""C20 scenario generator: notebooks, start-up modes of the web server, request sequences.
Everything is drawn from the random.Random passed in (derived from VERIF_SEED).  No nbdime, no nbformat here.
The tag of a request ('kind') says what the generator INTENDED (valid / which malformation); the oracle in
props/c20.py never trusts it for the verdict, it only feeds the input-distribution histogram."""
import json, copy

WORDS = ['x = 1', 'y = x + 2', 'print(x)', 'import os', 'def f(a):', '    return a', '# note', 'z = [1, 2]', 'plot(z)', 'data = {}', 'caf' + chr(0xe9) + ' = 3']


def gen_source(r, n=None):
    n = r.randint(0, 4) if n is None else n
    return '\n'.join(r.choice(WORDS) for _ in range(n))


def gen_output(r):
    k = r.randint(0, 2)
    if k == 0:
        return {'output_type': 'stream', 'name': r.choice(['stdout', 'stderr']), 'text': gen_source(r, r.randint(1, 2)) + '\n'}
    if k == 1:
        return {'output_type': 'execute_result', 'execution_count': r.randint(1, 9), 'metadata': {},
                'data': {'text/plain': r.choice(['3', "'a'", '[1, 2]'])}}
    return {'output_type': 'error', 'ename': 'ValueError', 'evalue': r.choice(['bad', 'worse']), 'traceback': ['line 1', 'line 2']}


def gen_cell(r, minor, idx):
    t = r.choice(['code', 'code', 'markdown', 'raw'])
    c = {'cell_type': t, 'metadata': {}, 'source': gen_source(r)}
    if r.random() < 0.2: c['metadata'] = {'tags': [r.choice(['a', 'b'])]}
    if t == 'code':
        c['execution_count'] = r.choice([None, 1, 2, 3])
        c['outputs'] = [gen_output(r) for _ in range(r.choice([0, 0, 1, 2]))]
    if minor >= 5:
        c['id'] = 'cell%d%s' % (idx, r.choice('abcdef'))
    return c


def gen_nb(r, ncells=None):
    minor = r.choice([2, 4, 4, 5])
    n = r.randint(0, 4) if ncells is None else ncells
    nb = {'cells': [gen_cell(r, minor, i) for i in range(n)], 'metadata': {}, 'nbformat': 4, 'nbformat_minor': minor}
    if r.random() < 0.4:
        nb['metadata'] = {'kernelspec': {'display_name': 'Python 3', 'language': 'python', 'name': 'python3'}}
    return nb


def mutate_nb(r, nb):
    nb = copy.deepcopy(nb)
    minor = nb['nbformat_minor']
    for _ in range(r.randint(1, 3)):
        k = r.randint(0, 5)
        cells = nb['cells']
        if k == 0 or not cells:
            pos = r.randint(0, len(cells)); new = gen_cell(r, minor, 10 + len(cells))
            used = {c.get('id') for c in cells}; n = 0
            while 'id' in new and new['id'] in used:        # cell ids are unique in a valid 4.5 notebook (nbformat re-ids duplicates at random on every read)
                n += 1; new['id'] = '%s%d' % (new['id'].rstrip('0123456789') if n > 1 else new['id'], n)
            cells.insert(pos, new)
        elif k == 1:
            del cells[r.randrange(len(cells))]
        elif k == 2:
            c = r.choice(cells); lines = c['source'].split('\n')
            lines[r.randrange(len(lines))] = r.choice(WORDS); c['source'] = '\n'.join(lines)
        elif k == 3:
            c = r.choice(cells); c['source'] = c['source'] + ('\n' if c['source'] else '') + r.choice(WORDS)
        elif k == 4:
            nb['metadata']['title'] = r.choice(['t1', 't2', 1, True])
        else:
            c = r.choice(cells)
            if c['cell_type'] == 'code':
                c['outputs'] = c['outputs'] + [gen_output(r)] if r.random() < 0.6 else []
                c['execution_count'] = r.choice([None, 4, 5])
            else:
                c['metadata']['collapsed'] = r.choice([True, False])
    return nb


def nb_text(nb):
    return json.dumps(nb, indent=1, sort_keys=True, ensure_ascii=False) + '\n'


BASE_URLS = ['/', '/', '/', '/nb/', '/a/b', '/x']
VALID_NAMES = ['a.ipynb', 'b.ipynb', 'c.ipynb']


def gen_files(r):
    a = gen_nb(r, r.randint(1, 4)); b = mutate_nb(r, a); c = mutate_nb(r, a)
    if r.random() < 0.2: b = copy.deepcopy(a)
    files = {
        'work/a.ipynb': {'t': nb_text(a)}, 'work/b.ipynb': {'t': nb_text(b)}, 'work/c.ipynb': {'t': nb_text(c)},
        'work/out.ipynb': {'t': nb_text(gen_nb(r, 1))},
        'work/empty.ipynb': {'t': ''},
        'work/junk.ipynb': {'t': r.choice(['not json', '{"cells": [', 'nbformat'])},
        'work/list.ipynb': {'t': r.choice(['[1, 2]', '5', '"s"', '{"nbformat": 4}', '{"nbformat": 99, "cells": []}'])},
        'work/latin.ipynb': {'b64': 'gGFiYw=='},            # bytes 80 61 62 63: not UTF-8
        'work/sub': {'dir': 1},
        'work/sub/d.ipynb': {'t': nb_text(mutate_nb(r, b))},
        'work/sub/out.ipynb': {'t': nb_text(gen_nb(r, 1))},
        'bait/z.ipynb': {'t': nb_text(gen_nb(r, 2))},
        'bait/out.ipynb': {'t': nb_text(gen_nb(r, 1))},
        'third': {'dir': 1},
        'third/out.ipynb': {'t': nb_text(gen_nb(r, 1))},
    }
    return files, {'a': a, 'b': b, 'c': c}


def gen_start(r):
    """start-up: which entry point is imitated, with which keyword arguments main_server gets"""
    mode = r.choice(['plain', 'plain', 'diffweb', 'difftool', 'mergeweb', 'mergeweb', 'mergetool', 'mergetool'])
    p = {'port': 0, 'ip': '127.0.0.1', 'base_url': r.choice(BASE_URLS)}
    chdir = 'work'
    cwdk = r.random()
    if cwdk < 0.7: p['cwd'] = '{ROOT}/work'
    elif cwdk < 0.8: p['cwd'] = '{ROOT}/work/'
    elif cwdk < 0.9: pass                                   # handlers fall back to os.curdir
    else: p['cwd'] = '{ROOT}/work/sub'
    if r.random() < 0.3: p['hide_unchanged'] = r.choice([True, False])
    if r.random() < 0.2: p['identical_lines_margin'] = r.choice([0, 2, 5])
    closable = None
    if mode == 'plain':
        closable = r.choice([None, False, False, True])
    elif mode == 'diffweb':
        closable = r.choice([True, True, False])
    elif mode == 'difftool':
        closable = r.choice([True, True, False])
        names = VALID_NAMES + ['junk.ipynb', 'missing.ipynb', '/dev/null', '{ROOT}/bait/z.ipynb', 'empty.ipynb']
        p['difftool_args'] = {'base': r.choice(VALID_NAMES + ['/dev/null']) if r.random() < 0.8 else r.choice(names),
                              'remote': r.choice(VALID_NAMES) if r.random() < 0.8 else r.choice(names)}
        if r.random() < 0.4:
            # what `nbdiff-web <gitref> <gitref>` passes: open streams instead of names
            for k in ('base', 'remote'):
                if r.random() < 0.8:
                    nm = r.choice(VALID_NAMES)
                    p['difftool_args'][k] = r.choice([{'stream_file': 'work/' + nm}, {'stream_of': 'work/' + nm, 'name': nm + ' (HEAD)'}])
    elif mode == 'mergeweb':
        closable = r.choice([True, True, False])
        p['show_base'] = r.choice([True, False])
    elif mode == 'mergetool':
        closable = r.choice([True, True, False])
        names = VALID_NAMES + ['junk.ipynb', 'missing.ipynb', 'empty.ipynb', 'empty.ipynb', '/dev/null']
        p['mergetool_args'] = {k: (r.choice(VALID_NAMES) if r.random() < 0.8 else r.choice(names)) for k in ('base', 'local', 'remote')}
    if mode in ('mergeweb', 'mergetool'):
        p['outputfilename'] = r.choice(['out.ipynb', 'out.ipynb', 'out.ipynb', 'sub/out.ipynb', '{ROOT}/third/out.ipynb', 'new.ipynb',
                                        None, None, '', 'nodir/out.ipynb', 'sub', '../bait/out.ipynb', './out.ipynb', 'empty.ipynb'])
    elif r.random() < 0.15:
        p['outputfilename'] = r.choice(['out.ipynb', None])
    if closable is not None: p['closable'] = closable
    return {'mode': mode, 'params': p, 'chdir': chdir}


def jbody(v):
    return json.dumps(v, ensure_ascii=False)


NB_ARGS_VALID = ['a.ipynb', 'b.ipynb', 'c.ipynb', 'a.ipynb', 'b.ipynb', './a.ipynb', 'sub/d.ipynb', '../bait/z.ipynb',
                 '{ROOT}/work/b.ipynb', '/dev/null', 'out.ipynb', 'sub/../c.ipynb']
NB_ARGS_BAD = ['missing.ipynb', 'junk.ipynb', 'empty.ipynb', 'list.ipynb', 'latin.ipynb', 'sub', '', 'nodir/x.ipynb',
               'http://example.invalid/x.ipynb', 'file:///etc/passwd', '{ROOT}/work/nope.ipynb', 'a.ipynb/']
NON_STR = [5, None, True, ['a.ipynb'], {'path': 'a.ipynb'}, 1.5]
RAW_BAD = ['{bad', '', '{"base": "a.ipynb"', 'base=a.ipynb&remote=b.ipynb', chr(0xfeff) + '{}', '{"merged": }']
NON_DICT = ['[1, 2]', '"a.ipynb"', '5', 'null', 'true']
EXTRA = {'path': '{ROOT}/bait/z.ipynb', 'outputfilename': '../bait/z.ipynb', 'filename': '{ROOT}/bait/out.ipynb', 'cwd': '{ROOT}/bait',
         'fn': '../bait/out.ipynb', 'output': '{ROOT}/bait/new.ipynb', 'closable': True, 'base_url': '/evil'}


def with_extra(r, d):
    if r.random() < 0.35:
        for k in r.sample(sorted(EXTRA), r.randint(1, 3)):
            if k not in d: d[k] = EXTRA[k]
    return d


def gen_nb_request(r, ep, names, prefix):
    """diff (names = base, remote) or merge (base, local, remote)"""
    k = r.random()
    rq = {'method': 'POST', 'path': prefix + '/api/' + ep}
    if k < 0.5:
        d = {n: r.choice(NB_ARGS_VALID) for n in names}
        rq['body'] = jbody(with_extra(r, d)); rq['kind'] = ep + ':valid-names'
    elif k < 0.62:
        d = {n: r.choice(NB_ARGS_VALID) for n in names}
        d[r.choice(names)] = r.choice(NB_ARGS_BAD)
        rq['body'] = jbody(with_extra(r, d)); rq['kind'] = ep + ':unreadable-file'
    elif k < 0.72:
        d = {n: r.choice(NB_ARGS_VALID) for n in names}
        d[r.choice(names)] = r.choice(NON_STR)
        rq['body'] = jbody(d); rq['kind'] = ep + ':non-string-arg'
    elif k < 0.82:
        d = {n: r.choice(NB_ARGS_VALID) for n in names}
        del d[r.choice(names)]
        rq['body'] = jbody(with_extra(r, d)); rq['kind'] = ep + ':missing-key'
    elif k < 0.9:
        rq['body'] = r.choice(RAW_BAD); rq['kind'] = ep + ':malformed-json'
    elif k < 0.96:
        rq['body'] = r.choice(NON_DICT); rq['kind'] = ep + ':non-object-body'
    else:
        rq['body_b64'] = 'gHsifQ=='; rq['kind'] = ep + ':non-utf8-body'
    return rq


def gen_store_request(r, nbs, prefix):
    k = r.random()
    rq = {'method': 'POST', 'path': prefix + '/api/store'}
    if k < 0.5:
        nb = mutate_nb(r, r.choice([nbs['a'], nbs['b'], nbs['c']])) if r.random() < 0.7 else gen_nb(r)
        rq['body'] = jbody(with_extra(r, {'merged': nb})); rq['kind'] = 'store:valid'
    elif k < 0.7:
        rq['body'] = jbody(with_extra(r, {'merged': r.choice([5, 'text', [], None, True, [1, 2], {'cells': 5}, {'nbformat': 4}, 2.5])}))
        rq['kind'] = 'store:non-notebook-merged'
    elif k < 0.8:
        rq['body'] = jbody(with_extra(r, {'notebook': gen_nb(r, 1)})); rq['kind'] = 'store:missing-key'
    elif k < 0.9:
        rq['body'] = r.choice(RAW_BAD); rq['kind'] = 'store:malformed-json'
    elif k < 0.96:
        rq['body'] = r.choice(NON_DICT); rq['kind'] = 'store:non-object-body'
    else:
        rq['body_b64'] = 'gHsifQ=='; rq['kind'] = 'store:non-utf8-body'
    return rq


def gen_close_request(r, prefix):
    k = r.random()
    rq = {'method': 'POST', 'path': prefix + '/api/closetool'}
    if k < 0.4:
        rq['body'] = jbody({'exitCode': r.choice([0, 0, 1, 2, 3, 77, -1])}); rq['kind'] = 'close:exitcode-json'
    elif k < 0.5:
        rq['body'] = r.choice(['', '{}', 'garbage']); rq['kind'] = 'close:no-exitcode'
    elif k < 0.6:
        rq['body'] = ''; rq['query'] = 'exitCode=' + r.choice(['0', '1', '42', '-3']); rq['kind'] = 'close:exitcode-query'
    elif k < 0.68:
        rq['body'] = r.choice(['', '{}']); rq['headers'] = {'exit_code': r.choice(['0', '2', '17'])}; rq['kind'] = 'close:exitcode-header'
    elif k < 0.78:
        rq['body'] = jbody({'exitCode': r.choice(['abc', '', '1x', 'one'])}); rq['kind'] = 'close:garbage-exitcode'
    elif k < 0.84:
        rq['body'] = ''; rq['query'] = 'exitCode=' + r.choice(['abc', '', 'x1']); rq['kind'] = 'close:garbage-query'
    elif k < 0.88:
        rq['body'] = '{}'; rq['headers'] = {'exit_code': r.choice(['x', 'two'])}; rq['kind'] = 'close:garbage-header'
    elif k < 0.93:
        rq['body'] = r.choice(['[1]', '"s"', '5', 'null']); rq['kind'] = 'close:non-object-body'
    elif k < 0.96:
        rq['body_b64'] = 'gHsifQ=='; rq['kind'] = 'close:non-utf8-body'
    else:
        rq['body'] = jbody({'exitCode': r.choice(['5', '12', None, True, [1]])}); rq['kind'] = 'close:odd-exitcode'
    return rq


def gen_other_request(r, prefix, base_url):
    k = r.random()
    if k < 0.3:
        page = r.choice(['/', '/diff', '/difftool', '/merge', '/mergetool'])
        rq = {'method': 'GET', 'path': prefix + page, 'kind': 'page'}
        if r.random() < 0.5: rq['query'] = 'base=a.ipynb&remote=b.ipynb'
        return rq
    if k < 0.5:
        return {'method': 'GET', 'path': prefix + r.choice(['/api/diff', '/api/merge', '/api/store', '/api/closetool']), 'kind': 'wrong-method'}
    if k < 0.6:
        return {'method': r.choice(['POST', 'DELETE', 'PUT']), 'path': prefix + r.choice(['/', '/diff', '/api/store', '/api/closetool', '/api/diff']),
                'body': jbody({'merged': gen_nb(r, 1), 'exitCode': 0}), 'kind': 'wrong-method'}
    paths = ['/api/nope', '/api/store/', '/api/stor', '/api', '/api/diff/x', '/API/STORE', '/api//store', '/nbdime/api/store', '/store',
             '/api/closetool/', '/x/api/closetool']
    if prefix:
        paths += ['/api/store', '/api/closetool', '/api/diff', prefix, prefix + prefix + '/api/store']
    return {'method': r.choice(['POST', 'POST', 'GET']), 'path': r.choice(paths), 'body': jbody({'merged': gen_nb(r, 1), 'exitCode': 0}),
            'kind': 'unknown-url'}


def gen_scenario(r, nreq=None):
    files, nbs = gen_files(r)
    start = gen_start(r)
    for a in (start['params'].get('difftool_args') or {}).values():
        if isinstance(a, dict) and 'stream_of' in a:
            a['stream_text'] = files[a.pop('stream_of')]['t']
    bu = start['params'].get('base_url', '/')
    prefix = '' if bu == '/' else bu.rstrip('/')
    n = r.randint(4, 10) if nreq is None else nreq
    reqs = []
    for i in range(n):
        k = r.random()
        if reqs and r.random() < 0.12:
            # the same request again, verbatim, later in the session
            rq = copy.deepcopy(r.choice(reqs))
            if rq['path'].endswith('/api/closetool'): rq = gen_nb_request(r, 'diff', ['base', 'remote'], prefix)
            reqs.append(rq); continue
        if k < 0.3: rq = gen_nb_request(r, 'diff', ['base', 'remote'], prefix)
        elif k < 0.5: rq = gen_nb_request(r, 'merge', ['base', 'local', 'remote'], prefix)
        elif k < 0.75: rq = gen_store_request(r, nbs, prefix)
        elif k < 0.85: rq = gen_other_request(r, prefix, bu)
        else:
            # shutdown requests mostly near the end so that sessions are not cut short
            rq = gen_close_request(r, prefix) if (i >= n - 2 or r.random() < 0.3) else gen_nb_request(r, 'diff', ['base', 'remote'], prefix)
        if rq['method'] == 'GET': rq.pop('body', None)
        reqs.append(rq)
    return {'op': 'serve', 'start': start, 'files': files, 'requests': reqs}


def gen_history_scenario(r):
    """sessions in which the output file is also an input: identical diff / merge requests before and after a store
    must see the new content (no caching by name), and an identical store twice must be idempotent"""
    files, nbs = gen_files(r)
    bu = r.choice(['/', '/', '/nb/'])
    prefix = '' if bu == '/' else bu.rstrip('/')
    start = {'mode': 'mergeweb', 'chdir': 'work',
             'params': {'port': 0, 'ip': '127.0.0.1', 'base_url': bu, 'cwd': '{ROOT}/work', 'outputfilename': r.choice(['out.ipynb', './out.ipynb', 'sub/out.ipynb']),
                        'closable': r.choice([True, False])}}
    outarg = start['params']['outputfilename']
    def diff(): return {'method': 'POST', 'path': prefix + '/api/diff', 'kind': 'diff:valid-names',
                        'body': jbody(r.choice([{'base': outarg, 'remote': 'a.ipynb'}, {'base': 'b.ipynb', 'remote': outarg}]))}
    def merge(): return {'method': 'POST', 'path': prefix + '/api/merge', 'kind': 'merge:valid-names',
                         'body': jbody({'base': 'a.ipynb', 'local': outarg, 'remote': r.choice(['b.ipynb', 'c.ipynb'])})}
    def store(): return {'method': 'POST', 'path': prefix + '/api/store', 'kind': 'store:valid',
                         'body': jbody({'merged': mutate_nb(r, r.choice([nbs['a'], nbs['b'], nbs['c']]))})}
    d, m, s1, s2 = diff(), merge(), store(), store()
    seq = r.choice([[d, s1, d, m, s2, m, d], [m, s1, m, s1, d, s2, d], [d, d, s1, d, s2, d], [s1, d, s1, d, m, s2, m]])
    reqs = [copy.deepcopy(x) for x in seq]
    if r.random() < 0.5: reqs.insert(r.randint(1, len(reqs) - 1), gen_store_request(r, nbs, prefix))
    if r.random() < 0.3: reqs.append(gen_close_request(r, prefix))
    return {'op': 'serve', 'start': start, 'files': files, 'requests': reqs}


# ----------------------------------------------------------------------------- sessions started through the command lines
# The five console entry points (nbdime.webapp.{nbdimeserver,nbdiffweb,nbmergeweb,nbdifftool,nbmergetool}.main) decide which
# KIND of session a server is: a plain / diff-web / merge-web server answers for the notebooks named in each request, a
# diff-tool / merge-tool server answers for the files fixed on its command line.  `start['params']` below is the generator's
# OWN reading of the documented command line (what kind of session the user asked for); the runner does not pass it to
# main_server, it calls `main(argv)` of the real entry module, so that a mistake in the entry point's translation of its
# arguments into server parameters is judged like any other misbehaviour of the session.
ENTRY_MODULES = ['nbmergeweb', 'nbdiffweb', 'nbmergeweb', 'nbmergetool', 'nbdifftool', 'nbmergeweb', 'nbdimeserver', 'nbdiffweb']


def gen_entry_start(r, module):
    p = {'port': 0, 'ip': '127.0.0.1'}
    argv = []
    # options common to every web command
    bu = r.choice(BASE_URLS)
    if bu != '/' or r.random() < 0.3: argv += ['--base-url', bu]
    p['base_url'] = bu
    wk = r.random()
    if wk < 0.45: p['cwd'] = '{ROOT}/work'                               # default: the directory the command is run from
    elif wk < 0.7: argv += ['-w', '{ROOT}/work']; p['cwd'] = '{ROOT}/work'
    elif wk < 0.8: argv += ['--workdirectory', '{ROOT}/work/']; p['cwd'] = '{ROOT}/work/'
    elif wk < 0.9: argv += ['-w', '{ROOT}/work/sub']; p['cwd'] = '{ROOT}/work/sub'
    else: argv += ['-w', '.']; p['cwd'] = '.'
    if module == 'nbdimeserver' or r.random() < 0.4: argv += [r.choice(['-p', '--port']), '0']
    if r.random() < 0.2: argv += ['--ip', '127.0.0.1']
    if r.random() < 0.2: argv += ['--show-unchanged']
    if r.random() < 0.2: argv += ['--identical-lines-margin', r.choice(['0', '5'])]
    persist = module != 'nbdimeserver' and r.random() < 0.3
    if persist: argv += ['--persist']
    in_sub = p['cwd'] == '{ROOT}/work/sub'
    names = ['d.ipynb', '../a.ipynb', '../b.ipynb', '../c.ipynb'] if in_sub else VALID_NAMES
    if module == 'nbdimeserver':
        mode = 'plain'                                                   # never closable, nothing can be stored
        posted = None
    else:
        p['closable'] = not persist
    if module == 'nbdiffweb':
        mode = 'diffweb'
        # two file names (existing files of the start-up directory, so that they are not taken for git revisions)
        a, b = r.choice(VALID_NAMES), r.choice(VALID_NAMES)
        argv += [a, b]
        posted = ('diff', {'base': a, 'remote': b})
    elif module == 'nbmergeweb':
        mode = 'mergeweb'
        tri = {k: r.choice(names) for k in ('base', 'local', 'remote')}
        if r.random() < 0.6: tri = dict(zip(('base', 'local', 'remote'), names[:3] if not in_sub else names[1:]))
        out = r.choice(['out.ipynb', 'out.ipynb', 'sub/out.ipynb', '{ROOT}/third/out.ipynb', 'new.ipynb', None, None, None, '../bait/out.ipynb', './out.ipynb'])
        if r.random() < 0.3: argv += ['--no-base']
        pos = [tri['base'], tri['local'], tri['remote']]
        if out is not None and r.random() < 0.5: argv += ['--out', out] + pos
        elif out is not None: argv += pos + ['--out=' + out]
        else: argv += pos
        p['outputfilename'] = out
        posted = ('merge', tri)
    elif module == 'nbdifftool':
        mode = 'difftool'
        pool = names + (['junk.ipynb', 'missing.ipynb', '/dev/null', 'empty.ipynb'] if r.random() < 0.25 else [])
        d = {'base': r.choice(pool), 'remote': r.choice(pool)}
        argv += [d['base'], d['remote']]
        p['difftool_args'] = d
        posted = ('diff', {})
    elif module == 'nbmergetool':
        mode = 'mergetool'
        pool = names + (['junk.ipynb', 'missing.ipynb', 'empty.ipynb', '/dev/null'] if r.random() < 0.25 else [])
        d = {k: r.choice(pool) for k in ('base', 'local', 'remote')}
        out = r.choice(['out.ipynb', 'out.ipynb', 'sub/out.ipynb', 'new.ipynb', d['local'] if d['local'] in names else 'out.ipynb', '{ROOT}/third/out.ipynb'])
        argv += [d['base'], d['local'], d['remote'], out]
        p['mergetool_args'] = d; p['outputfilename'] = out
        posted = ('merge', {})
    return {'mode': mode, 'params': p, 'chdir': 'work', 'entry': {'module': module, 'argv': argv}}, posted


def differs_from(r, names, given, pool):
    """a request body over `names` drawn from pool that is not `given`"""
    for _ in range(20):
        d = {n: r.choice(pool) for n in names}
        if any(d[n] != given.get(n) for n in names): return d
    return d


def gen_entry_scenario(r, k):
    """A session started by one of the console commands (module k of ENTRY_MODULES, cyclically), asked
       1. what the page it opens posts (the start-up names),
       2. about OTHER notebooks, about a MIX of start-up and other notebooks, and with malformed bodies of every kind,
          for both notebook endpoints (a web session answers for the request, a tool session for its command line),
       3. to store (with bait paths), and finally the first request again, and possibly to close."""
    module = ENTRY_MODULES[k % len(ENTRY_MODULES)]
    files, nbs = gen_files(r)
    start, posted = gen_entry_start(r, module)
    bu = start['params']['base_url']
    prefix = '' if bu == '/' else bu.rstrip('/')
    own = 'merge' if start['mode'] in ('mergeweb', 'mergetool') else 'diff' if start['mode'] in ('diffweb', 'difftool') else r.choice(['diff', 'merge'])
    NAMES = {'diff': ['base', 'remote'], 'merge': ['base', 'local', 'remote']}
    in_sub = start['params']['cwd'] == '{ROOT}/work/sub'
    pool = ['d.ipynb', '../a.ipynb', '../b.ipynb', '../c.ipynb', '../sub/d.ipynb', '{ROOT}/work/b.ipynb', '/dev/null', '../../bait/z.ipynb'] if in_sub else NB_ARGS_VALID
    def post(ep, d, kind): return {'method': 'POST', 'path': prefix + '/api/' + ep, 'body': jbody(d), 'kind': 'entry:' + ep + ':' + kind}
    reqs = []
    first = None
    if posted is not None:
        first = post(posted[0], posted[1], 'as-the-page-posts')
        reqs.append(first)
    given = posted[1] if posted is not None else {}
    names = NAMES[own]
    # other notebooks, and a mix of start-up and other notebooks
    reqs.append(post(own, with_extra(r, differs_from(r, names, given, pool)), 'other-names'))
    mixed = differs_from(r, names, given, pool)
    if given:
        keep = r.choice(names); mixed[keep] = given.get(keep, mixed[keep])
    reqs.append(post(own, mixed, 'mixed-names'))
    # malformed requests for the session's own endpoint: one of each kind in turn over the family, plus random ones
    d = differs_from(r, names, given, pool)
    bad_kinds = ['missing-key', 'unreadable-file', 'non-string-arg', 'malformed-json', 'non-object-body', 'non-utf8-body', 'start-up-names-but-one-missing']
    for bk in (bad_kinds[(k // len(ENTRY_MODULES)) % len(bad_kinds)], r.choice(bad_kinds)):
        rq = {'method': 'POST', 'path': prefix + '/api/' + own, 'kind': 'entry:' + own + ':' + bk}
        dd = dict(d)
        if bk == 'missing-key': del dd[r.choice(names)]; rq['body'] = jbody(dd)
        elif bk == 'unreadable-file': dd[r.choice(names)] = r.choice(NB_ARGS_BAD); rq['body'] = jbody(dd)
        elif bk == 'non-string-arg': dd[r.choice(names)] = r.choice(NON_STR); rq['body'] = jbody(dd)
        elif bk == 'malformed-json': rq['body'] = r.choice(RAW_BAD)
        elif bk == 'non-object-body': rq['body'] = r.choice(NON_DICT)
        elif bk == 'non-utf8-body': rq['body_b64'] = 'gHsifQ=='
        else:
            dd = dict(given) if given else dd
            dd.pop(r.choice(sorted(dd)), None); rq['body'] = jbody(dd)
        reqs.append(rq)
    # the other notebook endpoint, a store, something else
    other = 'diff' if own == 'merge' else 'merge'
    reqs.append(gen_nb_request(r, other, NAMES[other], prefix))
    reqs.append(gen_store_request(r, nbs, prefix))
    if r.random() < 0.5: reqs.append(gen_other_request(r, prefix, bu))
    r.shuffle(reqs)
    if first is not None:
        reqs.remove(first); reqs.insert(0, first)
        reqs.append(copy.deepcopy(first))
    else:
        reqs.append(copy.deepcopy(reqs[0]))
    if r.random() < 0.4: reqs.append(gen_close_request(r, prefix))
    for rq in reqs:
        if rq['method'] == 'GET': rq.pop('body', None)
    return {'op': 'serve', 'start': start, 'files': files, 'requests': reqs}


def f12_scenario():
    """the refutation witness of Sys/ServerProofs.v (Witness.bad_store) as a real session"""
    import random
    r = random.Random(12)
    nb = gen_nb(r, 1)
    files = {'work/out.ipynb': {'t': nb_text(nb)}, 'bait/z.ipynb': {'t': nb_text(nb)}}
    start = {'mode': 'mergeweb', 'params': {'port': 0, 'ip': '127.0.0.1', 'base_url': '/', 'cwd': '{ROOT}/work', 'outputfilename': 'out.ipynb',
                                            'closable': False}, 'chdir': 'work'}
    reqs = [{'method': 'POST', 'path': '/api/store', 'body': '{"merged": 5}', 'kind': 'store:non-notebook-merged'}]
    return {'op': 'serve', 'start': start, 'files': files, 'requests': reqs}
