"""C06 case families in which BOTH sides change the SAME mapping, under different keys.

The cell-partition families of gennb.gen_disjoint_triple never let the two sides meet in one dict, so the dict arm of
the merge core (_merge_dicts, and the per-dict conflict-strategy pass that closes it) only ever ran on one-sided diffs.
Here the two sides meet in
  * the notebook metadata           (/metadata,                   default strategy record-conflict),
  * one cell's metadata             (/cells/i/metadata,           default strategy record-conflict),
  * one output's metadata           (/cells/i/outputs/j/metadata, default strategy record-conflict),
  * a generic JSON object that has a conflict strategy configured on its own path (merge_json with a strategy table),
each side owning its own keys (existing keys: change / remove / retype / schema-aware edit; new keys: drawn from
side-specific pools), optionally meeting one level further down (both sides edit kernelspec / language_info / a nested
object under different sub-keys).  The expected result is built by transplanting, key by key, the owner's value.
No nbdime import; all randomness from the random.Random passed in."""
import copy
import gennb, genjson, pyspec

# side-specific pools for NEW keys (none of them is reserved by the schema, none is in the other pool)
NEW_KEYS = {'L': ['a', 'k', 'x/y', 'custom', 'nested', 'deletable', 'run_control', 'objs', 'added_by_L'],
            'R': ['b', 'key', 'A', 'extra', 'editable', 'slideshow', 'lists', 'num', 'added_by_R']}
SUB_NEW = {'L': ['pygments_lexer', 'subL', 'env'], 'R': ['nbconvert_exporter', 'subR', 'interpreter']}

def _c(v): return gennb._canon(v)

def transplant(base_d, l_d, x_d, kl, kr):
    """base_d with the keys kl as in l_d and the keys kr as in x_d (absent there = removed)"""
    e = copy.deepcopy(base_d)
    for ks, src in ((kl, l_d), (kr, x_d)):
        for k in ks:
            if k in src: e[k] = copy.deepcopy(src[k])
            else: e.pop(k, None)
    return e

def _only_changed(base_d, d, keys, what):
    for k in set(base_d) | set(d):
        if k in keys: continue
        if (k in base_d) != (k in d) or _c(base_d.get(k)) != _c(d.get(k)):
            raise AssertionError('generator bug: %s changed key %r outside its own keys %r' % (what, k, sorted(keys)))

def _fresh_value(r, old, key=None):
    """a value that differs from old under Python equality at the top and is not a numeric re-typing of it"""
    for _ in range(12):
        v = gennb.gen_free_value(r, key)
        if v != old: return v
    return ['changed', old]

def _split_keys(r, present, s_new):
    """partition: every present key goes to L, R or nobody; each side gets at least one key (a new one if needed)"""
    own = {'L': [], 'R': []}
    for k in present:
        c = r.random()
        if c < 0.35: own['L'].append(k)
        elif c < 0.7: own['R'].append(k)
    for s in 'LR':
        pool = [k for k in s_new[s] if k not in present]
        for _ in range(r.choice([0, 0, 1, 1, 2])):
            if pool: own[s].append(pool.pop(r.randrange(len(pool))))
        if not own[s]:
            own[s].append(pool[0] if pool else s_new[s][0] + '_' + s)
    return own

def _edit_free(r, md, k, reserved=()):
    """change md at the free-form key k only (in place); always a change visible to ==, except for the retype arm"""
    if k not in md:
        md[k] = gennb.gen_free_value(r, k); return
    how = r.choice(['remove', 'change', 'change', 'fresh', 'fresh', 'retype'])
    if how == 'fresh': md[k] = _fresh_value(r, md[k], k)
    else: gennb.edit_free_metadata(r, md, reserved, key=k, how=how)

# ------------------------------------------------------------------ notebook metadata
def _edit_sub(r, sub, k):
    """edit the sub-key k of kernelspec / language_info / a nested object, keeping the schema's required strings"""
    old = sub.get(k)
    if k not in sub: sub[k] = r.choice(['ipython3', 'python', '.py', 'v' + str(r.randint(0, 9))])
    elif isinstance(old, str): sub[k] = old + r.choice([' (new)', '-env', '.1', 'rc1', ' ' + str(r.randint(0, 99))])
    elif k in ('name', 'display_name', 'version'): sub[k] = str(old) + '.1'
    elif isinstance(old, dict) and old: kk = r.choice(sorted(old)); old[kk] = _fresh_value(r, old[kk])
    else: sub[k] = _fresh_value(r, old)

def _edit_nb_key(r, nb, k):
    md = nb['metadata']
    if k in ('kernelspec', 'language_info', 'title') and (k in md or k != 'title'):
        if k in md and isinstance(md[k], dict) and r.random() < 0.3:
            kk = r.choice(sorted(md[k])); _edit_sub(r, md[k], kk)
        else: gennb.edit_nb_metadata(r, nb, key=k)
    elif k == 'title': md[k] = r.choice(['Analysis', 'Untitled', 'Notes'])
    elif k == 'authors':
        if k in md and r.random() < 0.4: del md[k]
        else: md[k] = list(md.get(k, [])) + [{'name': r.choice(['Alan', 'Edsger', 'Barbara'])}]
    elif k == 'orig_nbformat':
        if k in md and r.random() < 0.5: del md[k]
        else: md[k] = (md.get(k) or 2) + 1
    else: _edit_free(r, md, k, gennb.NB_MD_RESERVED)

def _ensure_nb_metadata(r, base):
    """the notebook metadata the generator drew may be empty; give it something the two sides can share"""
    md = base['metadata']
    if r.random() < 0.7 and 'kernelspec' not in md:
        md['kernelspec'] = {'display_name': 'Python 3', 'language': 'python', 'name': 'python3'}
    if r.random() < 0.7 and 'language_info' not in md:
        md['language_info'] = {'name': 'python', 'version': r.choice(['3.8.10', '3.11.4']), 'file_extension': '.py'}
    for _ in range(r.choice([0, 1, 2])):
        k = r.choice(gennb.FREE_KEYS); md.setdefault(k, gennb.gen_free_value(r, k))

def add_nb_metadata_edits(r, base, local, remote, expected, nested=False):
    """in place: both sides change the notebook metadata under different keys (nested: under different sub-keys of the
    same reserved object as well)"""
    md = base['metadata']
    own = _split_keys(r, sorted(md), NEW_KEYS)
    shared = None
    if nested:
        cands = [k for k in sorted(md) if isinstance(md[k], dict) and len(md[k]) >= 1 and k in ('kernelspec', 'language_info', 'nested', 'slideshow', 'run_control', 'toc', 'widgets')]
        if cands:
            shared = r.choice(cands)
            for s in 'LR':
                if shared in own[s]: own[s].remove(shared)
    for s, nb in (('L', local), ('R', remote)):
        for k in own[s]: _edit_nb_key(r, nb, k)
        _only_changed(md, nb['metadata'], set(own[s]) | {shared}, 'side ' + s)
    expected['metadata'] = transplant(md, local['metadata'], remote['metadata'], own['L'], own['R'])
    if shared is not None:
        sub = md[shared]
        sown = _split_keys(r, sorted(sub), SUB_NEW)
        for s, nb in (('L', local), ('R', remote)):
            for k in sown[s]: _edit_sub(r, nb['metadata'][shared], k)
            _only_changed(sub, nb['metadata'][shared], set(sown[s]), 'side %s under %s' % (s, shared))
        expected['metadata'][shared] = transplant(sub, local['metadata'][shared], remote['metadata'][shared], sown['L'], sown['R'])

def gen_nb_metadata_triple(r, k=0):
    """disjoint cell changes (or none at all) PLUS different-key changes of the notebook metadata on both sides"""
    mode = k % 4
    if mode == 3:       # the cells stay as they are: the metadata dict is the only place the sides meet
        base = gennb.gen_notebook(r, ncells=r.choice([0, 1, 2, 3]), rich=False)
        _ensure_nb_metadata(r, base)
        local, remote, expected = copy.deepcopy(base), copy.deepcopy(base), copy.deepcopy(base)
    else:
        for _ in range(50):
            base, local, remote, expected = gennb.gen_disjoint_triple(r, rich=(mode == 0), ncells=None if mode == 0 else r.choice([2, 3, 4, 5]))
            if all(_c(n['metadata']) == _c(base['metadata']) for n in (local, remote, expected)): break
        if r.random() < 0.8:
            _ensure_nb_metadata(r, base)
            for n in (local, remote, expected): n['metadata'] = copy.deepcopy(base['metadata'])
    add_nb_metadata_edits(r, base, local, remote, expected, nested=(k % 3 == 1))
    return base, local, remote, expected

# ------------------------------------------------------------------ one cell's / one output's metadata
CELL_KEYS = ['tags', 'collapsed', 'jupyter', 'name']

def _edit_cell_key(r, cell, k):
    if k in CELL_KEYS or (k == 'scrolled' and cell['cell_type'] == 'code'): gennb.edit_cell_metadata(r, cell, key=k)
    else: _edit_free(r, cell['metadata'], k, gennb.CELL_MD_RESERVED)

def _aligned_triple(r, rich):
    """disjoint triple without insertions and deletions: the cells of all four notebooks correspond by index"""
    return gennb.gen_disjoint_triple(r, rich=rich, ncells=r.choice([2, 3, 4, 5]), p_insert=0.0, p_delete=0.0)

def gen_cell_metadata_triple(r, k=0):
    """both sides change the metadata of ONE cell neither of them touched otherwise, under different keys; the other
    cells carry one-sided changes as in the cell-partition families"""
    for _ in range(200):
        base, local, remote, expected = _aligned_triple(r, rich=(k % 2 == 0))
        idx = [i for i, c in enumerate(base['cells']) if _c(local['cells'][i]) == _c(c) and _c(remote['cells'][i]) == _c(c)]
        if idx: break
    else:
        raise AssertionError('generator bug: no untouched cell in 200 draws')
    i = r.choice(idx); md = base['cells'][i]['metadata']
    present = [x for x in sorted(md) if x not in ('execution', 'format') and (x != 'scrolled' or base['cells'][i]['cell_type'] == 'code')]
    pools = {s: NEW_KEYS[s] + ([CELL_KEYS[j] for j in ((0, 2) if s == 'L' else (1, 3))]) for s in 'LR'}
    own = _split_keys(r, present, pools)
    for s, nb in (('L', local), ('R', remote)):
        for key in own[s]: _edit_cell_key(r, nb['cells'][i], key)
        _only_changed(md, nb['cells'][i]['metadata'], set(own[s]), 'side ' + s)
    expected['cells'][i]['metadata'] = transplant(md, local['cells'][i]['metadata'], remote['cells'][i]['metadata'], own['L'], own['R'])
    return base, local, remote, expected

def gen_output_metadata_triple(r, k=0):
    """both sides change the metadata of ONE display_data / execute_result output of an otherwise untouched cell,
    under different keys"""
    for _ in range(400):
        base, local, remote, expected = _aligned_triple(r, rich=True)
        idx = [(i, j) for i, c in enumerate(base['cells']) if c['cell_type'] == 'code'
               and _c(local['cells'][i]) == _c(c) and _c(remote['cells'][i]) == _c(c)
               for j, o in enumerate(c['outputs']) if o['output_type'] in ('display_data', 'execute_result')]
        if idx: break
    else:
        raise AssertionError('generator bug: no untouched rich output in 400 draws')
    i, j = r.choice(idx); md = base['cells'][i]['outputs'][j]['metadata']
    pools = {'L': NEW_KEYS['L'] + ['needs_background'], 'R': NEW_KEYS['R'] + ['isolated']}
    own = _split_keys(r, sorted(md), pools)
    def out(nb): return nb['cells'][i]['outputs'][j]
    for s, nb in (('L', local), ('R', remote)):
        for key in own[s]:
            o = out(nb)
            if key == 'needs_background': o['metadata'][key] = 'dark' if o['metadata'].get(key) != 'dark' else 'light'
            elif key == 'isolated': o['metadata'][key] = not o['metadata'].get(key, False)
            else: _edit_free(r, o['metadata'], key)
        _only_changed(md, out(nb)['metadata'], set(own[s]), 'side ' + s)
    out(expected)['metadata'] = transplant(md, out(local)['metadata'], out(remote)['metadata'], own['L'], own['R'])
    return base, local, remote, expected

# ------------------------------------------------------------------ generic JSON: an object with a strategy on its own path
DICT_STRATEGIES = ['record-conflict', 'record-conflict', 'use-local', 'use-remote', 'use-base', 'union', 'inline-attachments', 'mergetool']

def gen_json_strategy_dict(r, gen_disjoint_dict):
    """(base, local, remote, expected, strategies): a disjoint-keys object triple (the check's own generator) sitting at
    the root or under a key, with a conflict strategy configured on exactly the path of that object.  No key is changed
    by both sides, so no strategy has anything to resolve and the result is the same by-construction expectation."""
    b, l, x, e = gen_disjoint_dict(r)
    s = r.choice(DICT_STRATEGIES)
    where = r.choice(['root', 'key', 'key', 'deep'])
    if where == 'root':
        return b, l, x, e, {'table': {'/': s}, 'transients': []}
    if where == 'key':
        w = lambda v: {'metadata': v, 'other': 1}
        return w(b), w(l), w(x), w(e), {'table': {'/metadata': s}, 'transients': []}
    w = lambda v: {'outer': {'metadata': v, 'source': 'unchanged\n'}, 'other': [1]}
    return w(b), w(l), w(x), w(e), {'table': {'/outer/metadata': s}, 'transients': []}

# ------------------------------------------------------------------ own walk: separated, also below items both sides patched
def deep_separated(ld, rd, adjacent_ok=False):
    """Like c05_merge.walk_separated (own walk over two diffs of one container, no nbdime code), except that a sequence
    item PATCHED by both sides is not by itself a meeting point: the two patches are walked recursively.  An item one
    side removed and the other removed or patched, a gap used by both, or an insertion of one side next to an item the
    other removed or patched, still is.
    adjacent_ok (the adj-* families): an insertion of one side directly in front of or behind an item that BOTH sides
    patched is not a meeting point either (nbdime's chunk types AP/P and P/AP: the insertion is one-sided, the two
    patches are merged recursively); next to an item only the OTHER side removed or patched it still is."""
    if not ld or not rd: return True
    if all(isinstance(e.get('key'), int) and not isinstance(e.get('key'), bool) for e in ld + rd):
        def info(d):
            rem, gaps, pat = set(), set(), {}
            for e in d:
                if e['op'] == 'addrange': gaps.add(e['key'])
                elif e['op'] == 'removerange': rem.update(range(e['key'], e['key'] + e['length']))
                elif e['op'] == 'patch': pat[e['key']] = e['diff']
                else: return None
            return rem, gaps, pat
        li, ri = info(ld), info(rd)
        if li is None or ri is None: return False
        (lr, lg, lp), (rr, rg, rp) = li, ri
        if lr & (rr | set(rp)) or rr & set(lp) or lg & rg: return False
        lt = lr | set(lp); rt = rr | set(rp)
        both = (set(lp) & set(rp)) if adjacent_ok else set()
        if any(p in rt and p not in both for g in lg for p in (g, g - 1)): return False
        if any(p in lt and p not in both for g in rg for p in (g, g - 1)): return False
        return all(deep_separated(lp[k], rp[k], adjacent_ok) for k in set(lp) & set(rp))
    lk = {e['key']: e for e in ld}; rk = {e['key']: e for e in rd}
    for k in set(lk) & set(rk):
        a, b = lk[k], rk[k]
        if not (a['op'] == 'patch' and b['op'] == 'patch' and deep_separated(a['diff'], b['diff'], adjacent_ok)): return False
    return True

# ------------------------------------------------------------------ adj-*: one item patched by BOTH sides + one-sided insertions / deletions next to it
FLANK_OPS = ['ins_front', 'ins_front', 'ins_behind', 'del_prev', 'del_next']

def _flank_plan(r, n, i, k):
    """who does what directly in front of / behind item i of a list of n items.  Returns {op: side}.  The mover (remote
    in two draws of three) takes a non-empty set of flank operations; in 'split' draws the other side inserts on the
    opposite flank (never next to an item the mover deleted)."""
    mover = 'L' if k % 3 == 2 else 'R'
    other = 'R' if mover == 'L' else 'L'
    avail = [o for o in FLANK_OPS if not (o == 'del_prev' and i == 0) and not (o == 'del_next' and i >= n - 1)]
    split = r.random() < 0.2
    if split:
        front = r.random() < 0.5
        mine = [o for o in avail if (o in ('ins_front', 'del_prev')) == front]
        ops = set(r.sample(mine, r.randint(1, len(set(mine))))) if mine else set()
        plan = {o: mover for o in ops}
        plan['ins_behind' if front else 'ins_front'] = other
        return plan
    ops = set(r.sample(avail, r.choice([1, 1, 1, 2, 2, 3])))
    return {o: mover for o in ops}

def _flank_build(base_items, i, versions, plan, new_items, sides):
    """the list as the sides in `sides` ('L', 'R' or 'LR') leave it: item i in its version for `sides`, the planned
    insertions / deletions of those sides"""
    out = []
    for p, it in enumerate(base_items):
        if p == i and plan.get('ins_front', '-') in sides: out.extend(copy.deepcopy(new_items['ins_front']))
        if p == i + 1 and plan.get('ins_behind', '-') in sides: out.extend(copy.deepcopy(new_items['ins_behind']))
        if p == i - 1 and plan.get('del_prev', '-') in sides: continue
        if p == i + 1 and plan.get('del_next', '-') in sides: continue
        out.append(copy.deepcopy(versions[sides] if p == i else it))
    if i + 1 == len(base_items) and plan.get('ins_behind', '-') in sides: out.extend(copy.deepcopy(new_items['ins_behind']))
    return out

def _differs(a, b): return _c(a) != _c(b)

def _canon_shape(patched, removed, gaps):
    """JSON-able shape of one side's diff of a list: patched positions, removed positions, [gap, number of new items];
    a gap directly behind positions the same side removed is moved in front of them (the two spellings are one edit)"""
    g2 = {}
    for g, cnt in gaps.items():
        while (g - 1) in removed: g -= 1
        g2[g] = g2.get(g, 0) + cnt
    return [sorted(patched), sorted(removed), sorted([g, c] for g, c in g2.items())]

def planned_shape(i, plan, new_items, side):
    removed = set(); gaps = {}
    if plan.get('del_prev') == side: removed.add(i - 1)
    if plan.get('del_next') == side: removed.add(i + 1)
    if plan.get('ins_front') == side: gaps[i] = len(new_items['ins_front'])
    if plan.get('ins_behind') == side: gaps[i + 1] = len(new_items['ins_behind'])
    return _canon_shape({i}, removed, gaps)

def observed_shape(d, path):
    """the shape of the list diff found under `path` in the diff d (None when d does not patch its way down there)"""
    for key in path:
        nxt = [e for e in d if e.get('key') == key]
        if len(nxt) != 1 or nxt[0].get('op') != 'patch': return None
        d = nxt[0]['diff']
    patched, removed, gaps = set(), set(), {}
    for e in d:
        if e['op'] == 'patch': patched.add(e['key'])
        elif e['op'] == 'removerange': removed.update(range(e['key'], e['key'] + e['length']))
        elif e['op'] == 'addrange': gaps[e['key']] = gaps.get(e['key'], 0) + len(e['valuelist'])
        else: return None
    return _canon_shape(patched, removed, gaps)

def aligned_as_constructed(shape, ld, rd):
    """adj-* notebook families: did the differ align the cells / outputs the way the construction did (same patched
    item, same deleted neighbours, same gaps with the same number of new items on each side)?  With near-identical
    neighbours (e.g. an empty code cell inserted in front of an empty code cell) another alignment is equally valid,
    under which the sides' changes belong to other items than the expectation assumes."""
    return observed_shape(ld, shape['path']) == shape['L'] and observed_shape(rd, shape['path']) == shape['R']

def gen_adjacent_cell_triple(r, k=0):
    """both sides patch ONE cell under different sub-keys (source / metadata / outputs / execution_count, or two
    different metadata keys), and one side -- each in turn -- inserts new cells directly in front of / behind that cell
    or deletes the neighbouring cell; all other cells stay as they are"""
    for _ in range(100):
        base = gennb.gen_notebook(r, ncells=r.choice([1, 2, 3, 3, 4, 5]), rich=(k % 2 == 0))
        n = len(base['cells']); minor = base['nbformat_minor']; used = gennb.used_ids(base)
        i = r.randrange(n); cell = base['cells'][i]; kind = cell['cell_type']
        aspects = ['source', 'metadata'] + (['outputs', 'execution_count'] if kind == 'code' else [])
        mdsplit = (k % 4 == 1)
        tl, tr = copy.deepcopy(cell), copy.deepcopy(cell)
        own = {'L': [], 'R': []}; mdown = None
        if mdsplit:
            md = cell['metadata']
            present = [x for x in sorted(md) if x not in ('execution', 'format') and (x != 'scrolled' or kind == 'code')]
            pools = {s: NEW_KEYS[s] + ([CELL_KEYS[j] for j in ((0, 2) if s == 'L' else (1, 3))]) for s in 'LR'}
            mdown = _split_keys(r, present, pools)
            for s, t in (('L', tl), ('R', tr)):
                for key in mdown[s]: _edit_cell_key(r, t, key)
                _only_changed(md, t['metadata'], set(mdown[s]), 'side ' + s)
            rest = [a for a in aspects if a != 'metadata']
            r.shuffle(rest)
            if r.random() < 0.4: own[r.choice('LR')].append(rest[0])
        else:
            r.shuffle(aspects)
            own['L'].append(aspects[0]); own['R'].append(aspects[1])
            for a in aspects[2:]:
                if r.random() < 0.25: own[r.choice('LR')].append(a)
        for s, t in (('L', tl), ('R', tr)):
            for a in own[s]:
                if a == 'source': t['source'] = gennb.edit_source_text(r, t['source'], kind, r.choice(['tiny', 'tiny', 'line', 'newline']))
                elif a == 'metadata': gennb.edit_cell_metadata(r, t)
                elif a == 'outputs': gennb.edit_outputs(r, t)
                else: t['execution_count'] = (t['execution_count'] or 0) + r.choice([1, 2, 10])
            _only_changed(cell, t, set(own[s]) | ({'metadata'} if mdsplit else set()), 'side ' + s)
        if not (_differs(tl, cell) and _differs(tr, cell)): continue
        both = transplant(cell, tl, tr, own['L'], own['R'])
        if mdsplit: both['metadata'] = transplant(cell['metadata'], tl['metadata'], tr['metadata'], mdown['L'], mdown['R'])
        plan = _flank_plan(r, n, i, k)
        new = {o: [gennb.gen_cell(r, minor, used, k % 2 == 0) for _ in range(r.choice([1, 1, 2]))] for o in ('ins_front', 'ins_behind')}
        versions = {'L': tl, 'R': tr, 'LR': both}
        def nb(sides):
            x = copy.deepcopy(base); x['cells'] = _flank_build(base['cells'], i, versions, plan, new, sides); return x
        shape = {'path': ['cells'], 'L': planned_shape(i, plan, new, 'L'), 'R': planned_shape(i, plan, new, 'R')}
        return base, nb('L'), nb('R'), nb('LR'), shape
    raise AssertionError('generator bug: no two-sided edit of one cell in 100 draws')

def gen_adjacent_output_triple(r, k=0):
    """both sides patch the metadata of ONE display_data / execute_result output under different keys, and one side --
    each in turn -- inserts outputs directly in front of / behind it or deletes the neighbouring output"""
    for _ in range(400):
        base = gennb.gen_notebook(r, ncells=r.choice([1, 2, 3]), rich=True)
        idx = [(i, j) for i, c in enumerate(base['cells']) if c['cell_type'] == 'code'
               for j, o in enumerate(c['outputs']) if o['output_type'] in ('display_data', 'execute_result')]
        if idx: break
    else:
        raise AssertionError('generator bug: no rich output in 400 draws')
    i, j = r.choice(idx); cell = base['cells'][i]; outs = cell['outputs']; o = outs[j]; md = o['metadata']
    pools = {'L': NEW_KEYS['L'] + ['needs_background'], 'R': NEW_KEYS['R'] + ['isolated']}
    own = _split_keys(r, sorted(md), pools)
    tl, tr = copy.deepcopy(o), copy.deepcopy(o)
    for s, t in (('L', tl), ('R', tr)):
        for key in own[s]:
            if key == 'needs_background': t['metadata'][key] = 'dark' if t['metadata'].get(key) != 'dark' else 'light'
            elif key == 'isolated': t['metadata'][key] = not t['metadata'].get(key, False)
            else: _edit_free(r, t['metadata'], key)
        _only_changed(md, t['metadata'], set(own[s]), 'side ' + s)
    both = copy.deepcopy(o); both['metadata'] = transplant(md, tl['metadata'], tr['metadata'], own['L'], own['R'])
    plan = _flank_plan(r, len(outs), j, k)
    ec = cell.get('execution_count')
    new = {op: [gennb.gen_output(r, ec, True, r.choice(['stream', 'display_data', 'error', 'display_data'])) for _ in range(r.choice([1, 1, 2]))]
           for op in ('ins_front', 'ins_behind')}
    versions = {'L': tl, 'R': tr, 'LR': both}
    def nb(sides):
        x = copy.deepcopy(base); x['cells'][i]['outputs'] = _flank_build(outs, j, versions, plan, new, sides); return x
    shape = {'path': ['cells', i, 'outputs'], 'L': planned_shape(j, plan, new, 'L'), 'R': planned_shape(j, plan, new, 'R')}
    return base, nb('L'), nb('R'), nb('LR'), shape

def _flank_diff(i, sub, plan, new_items, side, n):
    """the diff of the list for `side`, in nbdime's documented diff format, by construction"""
    d = []
    if plan.get('del_prev') == side: d.append({'op': 'removerange', 'key': i - 1, 'length': 1})
    if plan.get('ins_front') == side: d.append({'op': 'addrange', 'key': i, 'valuelist': copy.deepcopy(new_items['ins_front'])})
    d.append({'op': 'patch', 'key': i, 'diff': sub})
    if plan.get('ins_behind') == side: d.append({'op': 'addrange', 'key': i + 1, 'valuelist': copy.deepcopy(new_items['ins_behind'])})
    if plan.get('del_next') == side: d.append({'op': 'removerange', 'key': i + 1, 'length': 1})
    return d

def gen_adjacent_json(r, k, atom, fresh_atom):
    """generic JSON: a list (at the root, under a key, two levels down) of objects or of lists; both sides patch item i
    under different keys (objects) / at separated positions (inner lists), one side -- each in turn -- inserts items
    directly in front of / behind item i or deletes its neighbour.  nbdime.diff never patches an item of a generic list
    (it removes and re-adds it), so the two diffs are built here, in the documented diff format, next to the documents;
    the caller checks them against pyspec.spec_patch.  Returns base, local, remote, expected, ld, rd."""
    n = r.choice([1, 2, 3, 3, 4, 5]); i = r.randrange(n)
    as_lists = (k % 4 == 3)
    def item(p):
        if as_lists: return [[p, q] for q in range(r.choice([3, 4, 5]))]
        d = {kk: atom(r) for kk in r.sample(['x', 'y', 'z', 'k', 'p/q', '10', 'aa'], r.choice([2, 3, 4]))}
        d['pos'] = p
        return d
    items = [item(p) for p in range(n)]
    it = items[i]
    tl, tr = copy.deepcopy(it), copy.deepcopy(it); sub = {'L': [], 'R': []}
    if as_lists:
        m = len(it)
        # L works at the front of the inner list, R at its end; position 1 stays untouched in between
        for s, t in (('L', tl), ('R', tr)):
            what = r.choice(['ins', 'del', 'rep'])
            p = 0 if s == 'L' else m - 1
            if what in ('del', 'rep'): sub[s].append({'op': 'removerange', 'key': p, 'length': 1})
            if what in ('ins', 'rep'):
                g = p if (s == 'L' or what == 'rep') else m
                sub[s].insert(0, {'op': 'addrange', 'key': g, 'valuelist': [['new', s, k]]})
            if s == 'L':
                if what != 'ins': del t[0]
                if what != 'del': t.insert(0, ['new', s, k])
            else:
                if what == 'ins': t.append(['new', s, k])
                elif what == 'del': del t[m - 1]
                else: t[m - 1] = ['new', s, k]
        # by construction: L's version of the front (everything before base position 1), base positions 1 .. m-2,
        # R's version of the end (everything from base position m-1 on)
        both = copy.deepcopy(tl[:len(tl) - (m - 1)]) + copy.deepcopy(it[1:m - 1]) + copy.deepcopy(tr[m - 1:])
    else:
        keys = [kk for kk in sorted(it) if kk != 'pos']
        r.shuffle(keys)
        own = {'L': keys[:1], 'R': keys[1:2]}
        for kk in keys[2:]:
            c = r.random()
            if c < 0.3: own['L'].append(kk)
            elif c < 0.6: own['R'].append(kk)
        for s, t in (('L', tl), ('R', tr)):
            for kk in sorted(own[s]):
                if r.random() < 0.3:
                    del t[kk]; sub[s].append({'op': 'remove', 'key': kk})
                else:
                    t[kk] = fresh_atom(r, it[kk]); sub[s].append({'op': 'replace', 'key': kk, 'value': copy.deepcopy(t[kk])})
            if r.random() < 0.4:
                kk = 'added_by_' + s; t[kk] = atom(r); sub[s].append({'op': 'add', 'key': kk, 'value': copy.deepcopy(t[kk])})
            sub[s].sort(key=lambda e: e['key'])
        both = transplant(it, tl, tr, own['L'] + ['added_by_L'], own['R'] + ['added_by_R'])
    plan = _flank_plan(r, n, i, k)
    new = {o: [({'pos': 'new', 'by': o, 'x': atom(r)} if not as_lists else [['fresh', o, q]]) for q in range(r.choice([1, 1, 2]))]
           for o in ('ins_front', 'ins_behind')}
    versions = {'L': tl, 'R': tr, 'LR': both}
    docs = [items] + [_flank_build(items, i, versions, plan, new, s) for s in ('L', 'R', 'LR')]
    ld = _flank_diff(i, sub['L'], plan, new, 'L', n); rd = _flank_diff(i, sub['R'], plan, new, 'R', n)
    where = r.choice(['root', 'key', 'key', 'deep'])
    if where == 'key':
        docs = [{'items': d, 'other': 1} for d in docs]
        ld = [{'op': 'patch', 'key': 'items', 'diff': ld}]; rd = [{'op': 'patch', 'key': 'items', 'diff': rd}]
    elif where == 'deep':
        docs = [{'outer': {'items': d, 'source': 'unchanged\n'}, 'other': [1]} for d in docs]
        ld = [{'op': 'patch', 'key': 'outer', 'diff': [{'op': 'patch', 'key': 'items', 'diff': ld}]}]
        rd = [{'op': 'patch', 'key': 'outer', 'diff': [{'op': 'patch', 'key': 'items', 'diff': rd}]}]
    return docs[0], docs[1], docs[2], docs[3], ld, rd
