"""Wire format between the Python harness and the extracted model runner (nbmodel).
JSON values <-> space-separated tokens; ints and float mantissa/exponent in hex."""
import math, subprocess, os

VERIF = os.path.dirname(os.path.dirname(os.path.abspath(__file__)))
NBMODEL = os.path.join(VERIF, 'coq', 'Extract', 'out', 'nbmodel')

def _hex(n):
    return ('-' if n < 0 else '') + format(abs(n), 'x')

def float_me(x):
    """finite float -> (m, e) with x = m * 2**e, m odd; zeros: (0,0) for +0.0, (0,1) for -0.0"""
    if x == 0.0:
        return (0, 1) if math.copysign(1.0, x) < 0 else (0, 0)
    m, e = math.frexp(x)          # x = m * 2**e, 0.5 <= |m| < 1
    m = int(m * (1 << 53)); e -= 53
    while m % 2 == 0:
        m //= 2; e += 1
    return (m, e)

def me_float(m, e):
    if m == 0:
        return -0.0 if e == 1 else 0.0
    return math.ldexp(m, e)

def _str_tok(s):
    return 's' + '.'.join(format(ord(c), 'x') for c in s)

def to_wire(v, out=None):
    top = out is None
    if top: out = []
    if v is None: out.append('n')
    elif v is True: out.append('t')
    elif v is False: out.append('f')
    elif isinstance(v, int): out.append('i' + _hex(v))
    elif isinstance(v, float):
        if math.isnan(v) or math.isinf(v): raise ValueError('non-finite float')
        m, e = float_me(v); out.append('d%s_%s' % (_hex(m), _hex(e)))
    elif isinstance(v, str): out.append(_str_tok(v))
    elif isinstance(v, (list, tuple)):
        out.append('[')
        for x in v: to_wire(x, out)
        out.append(']')
    elif isinstance(v, dict):
        out.append('{')
        for k in sorted(v):            # code-point order = Python str order
            if not isinstance(k, str): raise ValueError('non-string key')
            out.append(_str_tok(k)); to_wire(v[k], out)
        out.append('}')
    else:
        raise ValueError('not JSON: %r' % type(v))
    if top: return ' '.join(out)

def _tok_str(t):
    if len(t) == 1: return ''
    return ''.join(chr(int(h, 16)) for h in t[1:].split('.'))

def from_wire(text):
    toks = text.split(' ')
    pos = [0]
    def value():
        t = toks[pos[0]]; pos[0] += 1
        c = t[0]
        if c == 'n': return None
        if c == 't': return True
        if c == 'f': return False
        if c == 'i': return int(t[1:], 16)
        if c == 'd':
            m, e = t[1:].split('_'); return me_float(int(m, 16), int(e, 16))
        if c == 's': return _tok_str(t)
        if c == '[':
            r = []
            while toks[pos[0]] != ']': r.append(value())
            pos[0] += 1; return r
        if c == '{':
            r = {}
            while toks[pos[0]] != '}':
                k = _tok_str(toks[pos[0]]); pos[0] += 1
                r[k] = value()
            pos[0] += 1; return r
        raise ValueError('bad token %r' % t)
    return value()

def run_model(lines, timeout=600):
    """lines: list of (cmd, [args as python values]); returns list of (value, misses)."""
    payload = '\n'.join('\t'.join([cmd] + [to_wire(a) for a in args]) for cmd, args in lines) + '\n'
    p = subprocess.run(['bash', '-c', 'ulimit -s unlimited 2>/dev/null; exec "%s"' % NBMODEL],
                       input=payload, capture_output=True, text=True, timeout=timeout)
    if p.returncode != 0:
        raise RuntimeError('nbmodel failed: rc=%s %s' % (p.returncode, p.stderr[-2000:]))
    out = []
    for ln in p.stdout.splitlines():
        body, misses = ln.rsplit('\t', 1)
        out.append((from_wire(body), int(misses)))
    if len(out) != len(lines):
        raise RuntimeError('nbmodel answered %d of %d lines' % (len(out), len(lines)))
    return out
