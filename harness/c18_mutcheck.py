"""private replica of `bin/check C18` for mutation testing: same code paths (harness/props/c18.py), but the Coq closure of
C18 is built in a scratch root and evidence/replays go to a scratch VERIF, so the shared build lock is not needed.
usage: NBDIME_REPO=<worktree> /venv/bin/python harness/c18_mutcheck.py [quick|thorough] [props-file]   (NO_KNOWN=1 ignores known findings)"""
import sys, os, shutil, subprocess, tempfile
sys.path.insert(0, '/verif/harness')
import core
from props import c18
tier = sys.argv[1] if len(sys.argv) > 1 else 'quick'
props = sys.argv[2] if len(sys.argv) > 2 else '/verif/coq/Props/C18.v'
V = tempfile.mkdtemp(prefix='c18mut_')
for d in ('tools', 'harness', 'corpus'):
    os.symlink('/verif/' + d, os.path.join(V, d))
shutil.copy('/verif/known_findings.json', V); shutil.copytree('/verif/known_findings.d', os.path.join(V, 'known_findings.d'))
if os.environ.get('NO_KNOWN'): open(os.path.join(V, 'known_findings.d', 'C18.json'), 'w').write('{"findings": []}')
R = os.path.join(V, 'coq')
for d in ('Base', 'Sys', 'Gen', 'Props'): os.makedirs(os.path.join(R, d))
for f in os.listdir('/verif/coq/Base'):
    if f.endswith('.vo') or f.endswith('.v'): shutil.copy('/verif/coq/Base/' + f, os.path.join(R, 'Base'))
shutil.copy('/verif/coq/Sys/GitCfg.v', os.path.join(R, 'Sys')); shutil.copy('/verif/coq/Sys/GitCfgProofs.v', os.path.join(R, 'Sys'))
shutil.copy(props, os.path.join(R, 'Props', 'C18.v'))
core.VERIF = V; core.COQ = R
def build():
    b = core.BuildResult(); b.model_ok = False
    p = subprocess.run(['/verif/tools/gen/gen_gitcfg.py', '--out', os.path.join(R, 'Gen', 'GitCfg.v')], capture_output=True, text=True, env=dict(os.environ, NBDIME_REPO=core.REPO))
    if p.returncode != 0:
        b.ok = False; b.gen_error = (p.stderr + p.stdout)[-3000:]; b.log = b.gen_error; return b
    return b
def build_targets(targets, locked=False):
    b = core.BuildResult()
    for f in c18.OWN_CHAIN[1:]:
        q = subprocess.run(['timeout', '900', 'coqc', '-Q', '.', 'NB', f], capture_output=True, text=True, cwd=R)
        if q.returncode != 0:
            b.ok = False; b.failed_file = f; b.log = (q.stdout + q.stderr)[-3000:]; return b
    return b
c18.build = build; core.build_targets = build_targets
c18.gen_in_tree_is_current = lambda: True
rc = c18.run(tier, int(os.environ.get('VERIF_SEED', '0')))
import json, glob
for f in glob.glob(os.path.join(V, 'replays', '*.json')):
    body = json.load(open(f))
    print('--- replay', body.get('kind'), body.get('signature'))
    if body.get('kind') == 'failing-input':
        print('   case:', json.dumps(body['case'])[:700]); print('   observed:', json.dumps(body['detail'].get('observed'))[:400])
    else:
        for o in body['obligations']: print('   obligation', o['name'], str(o['detail'])[:500].replace('\n', ' | '))
shutil.rmtree(V, ignore_errors=True)
sys.exit(rc)
