"""Generators for C13: small v4 notebooks rich in display_data / execute_result outputs (the pop/restore path of
diff_single_outputs), edited copies (pairs, triples), and the list of public calls to observe.
All randomness comes from the random.Random passed in."""
import copy
import genjson

MIMES = ['text/plain', 'text/html', 'image/png', 'application/json', 'text/markdown']

def gen_mime_value(r, m):
    if m == 'application/json':
        return r.choice([{'k': [1, 2, {'z': None}]}, {'a': 1}, [1, [2, 3]], {'deep': {'er': {'x': [1]}}}])
    if m == 'image/png':
        return r.choice(['iVBORw0KGgo=', 'aGVsbG8=', 'AAAA'])
    return genjson.gen_text(r, r.choice([1, 2, 3]), seps=['\n'])

def shuffled_dict(r, items):
    items = list(items); r.shuffle(items)
    return dict(items)

def gen_output(r, minor=5):
    t = r.choice(['stream', 'display_data', 'display_data', 'execute_result', 'execute_result', 'error'])
    if t == 'stream':
        return {'output_type': 'stream', 'name': r.choice(['stdout', 'stderr']), 'text': genjson.gen_text(r, r.choice([1, 2, 4]), seps=['\n'])}
    if t == 'error':
        return {'output_type': 'error', 'ename': 'ValueError', 'evalue': r.choice(['bad', 'worse']), 'traceback': ['line 1', 'line 2'][:r.choice([1, 2])]}
    data = {m: gen_mime_value(r, m) for m in r.sample(MIMES, r.choice([0, 1, 1, 1, 2, 3]))}   # sometimes an empty bundle
    md = r.choice([{}, {}, {'image/png': {'width': 10, 'height': [1, 2]}}, {'isolated': True, 'tags': ['x', 'y']}])
    items = [('output_type', t), ('data', data), ('metadata', md)]
    if t == 'execute_result': items.append(('execution_count', r.choice([1, 2, 3, None])))
    # key order varies: 'data' first / middle / last  (insertion order is what pop+re-insert disturbs)
    return shuffled_dict(r, items)

def gen_cell(r, idx, minor=5):
    t = r.choice(['code', 'code', 'code', 'markdown', 'raw'])
    c = {'cell_type': t, 'metadata': r.choice([{}, {}, {'tags': ['t1']}, {'collapsed': False, 'nested': {'l': [1, {'m': 2}]}}]),
         'source': genjson.gen_text(r, r.choice([0, 1, 2, 3, 5]), seps=['\n'])}
    if minor >= 5: c['id'] = 'cell-%d-%d' % (idx, r.randrange(1000))
    if t == 'code':
        c['execution_count'] = r.choice([None, 1, 2, 5])
        c['outputs'] = [gen_output(r, minor) for _ in range(r.choice([0, 1, 1, 2, 3]))]
    if t == 'markdown' and r.random() < 0.3:
        c['attachments'] = {'img.png': {'image/png': r.choice(['AAAA', 'BBBB'])}}
    return c

def gen_notebook(r, ncells=None):
    minor = r.choice([4, 5, 5])
    n = ncells if ncells is not None else r.choice([0, 1, 2, 2, 3, 4])
    return {'nbformat': 4, 'nbformat_minor': minor,
            'metadata': r.choice([{}, {'kernelspec': {'name': 'python3', 'display_name': 'Python 3', 'language': 'python'}},
                                  {'language_info': {'name': 'python', 'version': '3.8'}, 'custom': {'list': [1, [2], {'q': 3}]}}]),
            'cells': [gen_cell(r, i, minor) for i in range(n)]}

def edit_output(r, o):
    o = copy.deepcopy(o)
    c = r.random()
    if o['output_type'] in ('display_data', 'execute_result'):
        if c < 0.35 and o['data']:
            k = r.choice(sorted(o['data'])); o['data'][k] = gen_mime_value(r, k)
        elif c < 0.55:
            m = r.choice(MIMES); o['data'][m] = gen_mime_value(r, m)
        elif c < 0.7 and len(o['data']) > 0:
            del o['data'][r.choice(sorted(o['data']))]
        elif c < 0.9:
            o['metadata'] = r.choice([{}, {'isolated': False}, {'tags': ['z'], 'w': {'h': [3]}}])
        elif 'execution_count' in o:
            o['execution_count'] = r.choice([7, 8, None])
    elif o['output_type'] == 'stream':
        o['text'] = genjson.edit_text(r, o['text'])
    else:
        o['evalue'] = o['evalue'] + '!'
    return o

def edit_notebook(r, nbk):
    nbk = copy.deepcopy(nbk)
    minor = nbk['nbformat_minor']
    for _ in range(r.choice([1, 1, 2, 3])):
        c = r.random(); cells = nbk['cells']
        if c < 0.15:
            cells.insert(r.randint(0, len(cells)), gen_cell(r, 90 + r.randrange(9), minor))
        elif c < 0.25 and cells:
            del cells[r.randrange(len(cells))]
        elif c < 0.45 and cells:
            i = r.randrange(len(cells)); cells[i]['source'] = genjson.edit_text(r, cells[i]['source'])
        elif c < 0.8 and cells:
            code = [x for x in cells if x['cell_type'] == 'code']
            if code:
                x = r.choice(code); k = r.random()
                if x['outputs'] and k < 0.6:
                    j = r.randrange(len(x['outputs'])); x['outputs'][j] = edit_output(r, x['outputs'][j])
                elif k < 0.8:
                    x['outputs'].insert(r.randint(0, len(x['outputs'])), gen_output(r, minor))
                elif x['outputs']:
                    del x['outputs'][r.randrange(len(x['outputs']))]
                else:
                    x['execution_count'] = r.choice([3, 4, None])
        elif c < 0.9:
            nbk['metadata'] = genjson.mutate(r, nbk['metadata'], 2) if nbk['metadata'] else {'added': {'k': [1, {'v': 2}]}}
        elif cells:
            i = r.randrange(len(cells)); cells[i]['metadata'] = r.choice([{'tags': ['new', 'tags']}, {'x': {'y': [1, 2]}}, {}])
    return nbk

def gen_nb_pair(r):
    a = gen_notebook(r)
    b = copy.deepcopy(a) if r.random() < 0.05 else edit_notebook(r, a)
    return a, b

def gen_nb_triple(r):
    base = gen_notebook(r, r.choice([1, 2, 3, 4]))
    return base, edit_notebook(r, base), edit_notebook(r, base)

# ---------------------------------------------------------------------------------------------- re-bundled decisions
# Triples whose merge yields SEVERAL decisions with the same common_path that each carry a patch op on the SAME key.
# add_decision pushes a lone patch op down into the path, so this shape only appears after a strategy re-bundles the
# decisions of a container (bundle_decisions_by_index for /cells/*/outputs, push_patch_decision in record-conflict for
# */metadata): one child of the container is in genuine conflict (both sides edit the same place differently, so the
# strategy runs) while a sibling child is edited on both sides in DISJOINT sub-parts (two one-sided decisions that end
# up side by side at the container's path).  apply_decisions / the renderers then have to combine ops that belong to
# different entries of the decision list they were given.
LONG = ['the quick brown fox jumps over the lazy dog', 'a value that is long enough to stay similar',
        'lorem ipsum dolor sit amet consectetur', 'result of the computation follows here', '<div class="out">table body</div>',
        'mean = 0.5123, std = 0.0123, n = 1000', 'second output that is long enough too']

def _long_text(r, nlines):
    return ''.join('%s %d\n' % (r.choice(LONG), i) for i in range(nlines))

def _edit_line(text, i, tag):
    lines = text.splitlines(True)
    i = i % len(lines)
    lines[i] = lines[i].rstrip('\n') + ' ' + tag + '\n'
    return ''.join(lines)

def _rich_output(r):
    """an output with at least two independently editable parts"""
    t = r.choice(['display_data', 'display_data', 'execute_result', 'stream'])
    if t == 'stream':
        return {'output_type': 'stream', 'name': r.choice(['stdout', 'stderr']), 'text': _long_text(r, r.choice([5, 6, 8]))}
    mimes = ['text/plain'] + r.sample(['text/html', 'text/markdown'], r.choice([0, 1, 1, 2]))
    items = [('output_type', t), ('data', {m: _long_text(r, r.choice([1, 2, 3])) for m in mimes}),
             ('metadata', r.choice([{}, {}, {'isolated': True}, {'tags': ['x', 'y'], 'w': {'h': [3]}}]))]
    if t == 'execute_result': items.append(('execution_count', r.choice([1, 2, None])))
    return shuffled_dict(r, items)

def _slots(o):
    """independently editable parts of an output"""
    if o['output_type'] == 'stream':
        n = len(o['text'].splitlines())
        return [('line', 0), ('line', n - 1)] + ([('line', n // 2)] if n >= 7 else [])
    return [('md', None)] + [('mime', m) for m in sorted(o['data'])]

def _apply_slot(r, o, slot, tag):
    kind, which = slot
    if kind == 'line': o['text'] = _edit_line(o['text'], which, tag)
    elif kind == 'mime': o['data'][which] = _edit_line(o['data'][which], r.randrange(4), tag)
    else: o['metadata'][r.choice(['tag', 'note', 'scrolled_by'])] = r.choice([tag, [tag], {'by': tag}])

def _conflict(r, lo, ro):
    """both sides edit the same place of one output differently"""
    slot = r.choice([s for s in _slots(lo) if s[0] != 'md'] if r.random() < 0.8 else _slots(lo))
    if slot[0] == 'md':
        lo['metadata']['owner'] = 'LOCAL'; ro['metadata']['owner'] = 'REMOTE'
    elif slot[0] == 'line':
        lo['text'] = _edit_line(lo['text'], slot[1], 'LOCAL'); ro['text'] = _edit_line(ro['text'], slot[1], 'REMOTE')
    else:
        lo['data'][slot[1]] = _edit_line(lo['data'][slot[1]], 0, 'LOCAL'); ro['data'][slot[1]] = _edit_line(ro['data'][slot[1]], 0, 'REMOTE')

def _disjoint(r, lo, ro):
    """local and remote edit different parts of one output (no conflict, two one-sided decisions)"""
    sl = _slots(lo); r.shuffle(sl)
    k = r.choice([1, 1, 2]) if len(sl) >= 3 else 1
    for s in sl[:k]: _apply_slot(r, lo, s, 'L')
    for s in sl[k:k + r.choice([1, 1, 2])]: _apply_slot(r, ro, s, 'R')

def _bundled_meta(r):
    """(base, local, remote) metadata dicts: key 'owner' conflicts, the dict under 'grp' is edited on both sides in disjoint keys"""
    grp = {'x': 1, 'y': [1, 2], 'z': {'q': 'v'}, 'w': 'keep'}
    base = shuffled_dict(r, [('grp', grp), ('owner', 'nobody'), ('other', {'k': [1]})])
    l, rr = copy.deepcopy(base), copy.deepcopy(base)
    l['owner'] = 'LOCAL'; rr['owner'] = 'REMOTE'
    ks = ['x', 'y', 'z']; r.shuffle(ks)
    edits = {'x': lambda g, t: g.__setitem__('x', t), 'y': lambda g, t: g['y'].append(t), 'z': lambda g, t: g['z'].__setitem__('by', t)}
    edits[ks[0]](l['grp'], 'L'); edits[ks[1]](rr['grp'], 'R')
    if r.random() < 0.4: edits[ks[2]](r.choice([l, rr])['grp'], 'LR')
    if r.random() < 0.3: l['grp']['new_l'] = ['L']
    if r.random() < 0.3: rr['grp']['new_r'] = {'R': 1}
    return base, l, rr

def gen_nb_triple_bundled(r):
    """(base, local, remote, shape): see the comment above.  shape in 'outputs' | 'cellmeta' | 'nbmeta'"""
    shape = r.choice(['outputs', 'outputs', 'outputs', 'cellmeta', 'nbmeta'])
    minor = r.choice([4, 5, 5])
    ncells = r.choice([1, 1, 2, 3])
    cells = [gen_cell(r, i, minor) for i in range(ncells)]
    ti = r.randrange(ncells)
    tc = {'cell_type': 'code', 'metadata': {}, 'source': r.choice(['print(1)', 'display(x)\nx\n', '']), 'execution_count': r.choice([None, 1, 3]), 'outputs': []}
    if minor >= 5: tc['id'] = 'cell-t-%d' % r.randrange(1000)
    cells[ti] = tc
    base = {'nbformat': 4, 'nbformat_minor': minor, 'metadata': {}, 'cells': cells}
    if shape == 'outputs':
        n = r.choice([2, 2, 3, 4])
        tc['outputs'] = [_rich_output(r) for _ in range(n)]
        local, remote = copy.deepcopy(base), copy.deepcopy(base)
        lo, ro = local['cells'][ti]['outputs'], remote['cells'][ti]['outputs']
        idx = list(range(n)); r.shuffle(idx)
        _conflict(r, lo[idx[0]], ro[idx[0]])
        _disjoint(r, lo[idx[1]], ro[idx[1]])
        for j in idx[2:]:
            c = r.random()
            if c < 0.35: _disjoint(r, lo[j], ro[j])
            elif c < 0.5: _conflict(r, lo[j], ro[j])
            elif c < 0.7: _apply_slot(r, r.choice([lo, ro])[j], r.choice(_slots(lo[j])), 'ONE')
        if r.random() < 0.25:      # an unrelated change elsewhere in the notebook
            local['cells'][ti]['source'] += '# local\n'
    else:
        if r.random() < 0.5: tc['outputs'] = [_rich_output(r)]
        bm, lm, rm = _bundled_meta(r)
        local, remote = copy.deepcopy(base), copy.deepcopy(base)
        if shape == 'cellmeta':
            base['cells'][ti]['metadata'], local['cells'][ti]['metadata'], remote['cells'][ti]['metadata'] = bm, lm, rm
        else:
            base['metadata'], local['metadata'], remote['metadata'] = bm, lm, rm
    return base, local, remote, shape

def gen_nb_triple_cellclash(r):
    """(base, local, remote, shape): the two sides put DIFFERENT new cells at one position of the cell list and treat the
    base cells that follow differently -- one side replaces the next cell (or the next two) by its new cell, the other
    only inserts in front of it (shape 'replace-vs-insert'), or the two sides replace runs of different length
    ('uneven-replace'), or both only insert ('insert-vs-insert').  Under the inline strategy the conflict is written
    as marker cells around the two variants, and each variant is completed with the base cells its side kept."""
    minor = r.choice([4, 5, 5])
    n = r.choice([2, 3, 4])
    cells = [gen_cell(r, i, minor) for i in range(n)]
    base = {'nbformat': 4, 'nbformat_minor': minor, 'metadata': {}, 'cells': cells}
    def fresh(tag):
        c = {'cell_type': 'code', 'metadata': {}, 'execution_count': None, 'outputs': [],
             'source': '%s_%d = compute_%s(%d)\nprint(%s_%d)\n' % (tag, r.randrange(100), tag, r.randrange(100), tag, r.randrange(100))}
        if minor >= 5: c['id'] = '%s-new-%d' % (tag, r.randrange(1000))
        return c
    i = r.randrange(n)
    shape = r.choice(['replace-vs-insert', 'replace-vs-insert', 'uneven-replace', 'insert-vs-insert'])
    room = n - i
    if shape == 'replace-vs-insert': drop = (r.choice([1, 2]) if room > 1 else 1, 0)
    elif shape == 'uneven-replace': drop = (2, 1) if room > 1 else (1, 0)
    else: drop = (0, 0)
    if r.random() < 0.5: drop = (drop[1], drop[0])
    sides = []
    for tag, k in (('loc', drop[0]), ('rem', drop[1])):
        nb_ = copy.deepcopy(base)
        nb_['cells'][i:i + k] = [fresh(tag) for _ in range(r.choice([1, 1, 2]))]
        sides.append(nb_)
    return base, sides[0], sides[1], shape

# merge arguments under which a conflict in a container makes a strategy re-bundle the container's decisions
BUNDLING_ARGS = [None, {'merge_strategy': 'inline'}, {'merge_strategy': 'inline', 'output_strategy': 'remove'},
                 {'merge_strategy': 'inline', 'ignore_transients': False}, {'merge_strategy': 'use-base', 'output_strategy': 'inline'}]

def gen_json_triple(r, depth=3):
    base = genjson.gen_container(r, kind=r.choice(['list', 'dict']), depth=depth)
    return base, genjson.mutate(r, base, depth), genjson.mutate(r, base, depth)

def gen_output_pair(r):
    """two outputs of the same display type (input space of the pop/restore branch of diff_single_outputs)"""
    while True:
        a = gen_output(r)
        if a['output_type'] in ('display_data', 'execute_result'): break
    b = edit_output(r, a)
    if r.random() < 0.5:   # independent key order for b
        items = list(b.items()); r.shuffle(items); b = dict(items)
    return a, b

MERGE_ARGS = [None, {'merge_strategy': 'inline'}, {'merge_strategy': 'use-base'}, {'merge_strategy': 'use-local'},
              {'merge_strategy': 'use-remote'}, {'merge_strategy': 'union'},
              {'merge_strategy': 'inline', 'output_strategy': 'clear-all'}, {'merge_strategy': 'inline', 'output_strategy': 'remove'},
              {'merge_strategy': 'inline', 'ignore_transients': False}, {'merge_strategy': 'inline', 'log_level': 'DEBUG'}]

JSON_CALLS = ['diff', 'patch', 'patch_plain', 'pretty_print_diff']
JSON3_CALLS = ['decide_merge', 'decide_merge_with_diff', 'apply_decisions']
NB_CALLS = ['diff_notebooks', 'patch_notebook', 'patch_nb_generic', 'pretty_print_notebook', 'pretty_print_notebook_diff']
NB3_CALLS = ['decide_notebook_merge', 'merge_notebooks', 'apply_decisions_nb', 'pretty_print_merge_decisions', 'pretty_print_notebook_merge']

# ---------------------------------------------------------------------------------------------- diffs / decisions from elsewhere
# Valid diffs and decision lists that were NOT produced by nbdime's own differ / strategies: written by hand or by another
# tool, received as JSON, edited by a front end.  nbdime itself always lists the entries of a dict-level diff in key order
# (MappingDiffBuilder.validated, combine_patches), so every other family only ever hands key-sorted diffs to patch and to the
# renderers; patch() accepts the entries of a dict-level diff in any order.  Two sources:
#   * hand-built here, without nbdime (hand_dict_diff, hand_nb_diff, hand_decisions): entries in arbitrary order at every level;
#   * nbdime's own diff / decisions re-listed by the runner (case['foreign'], c13_runner.foreign_order).
FKEYS = ['zeta', 'alpha', 'mid', 'b', 'a', 'c', 'name', 'tags', 'Z', '_x', 'k10', 'k9', 'omega', 'beta']

def gen_wide_dict(r, depth=2, nmin=2):
    """a dict with several keys (inserted in random order), some of them dicts / lists"""
    d = {}
    for k in r.sample(FKEYS, r.randint(nmin, 6)):
        c = r.random()
        if depth > 0 and c < 0.4: d[k] = gen_wide_dict(r, depth - 1, nmin=1)
        elif c < 0.6: d[k] = [genjson.gen_atom(r) for _ in range(r.choice([0, 1, 2, 3]))]
        elif c < 0.7: d[k] = [gen_wide_dict(r, 0, nmin=1), r.randrange(9)]
        else: d[k] = genjson.gen_atom(r)
    return d

def hand_list_diff(r, v):
    """a valid list-level diff of v (ascending indices, an insertion before the op on the same index)"""
    d = []
    for i, x in enumerate(v):
        c = r.random()
        if c < 0.2: d.append({'op': 'addrange', 'key': i, 'valuelist': [r.choice([7, 'new', [1], {'n': 1}])]})
        c = r.random()
        if c < 0.25: d.append({'op': 'removerange', 'key': i, 'length': 1})
        elif c < 0.6 and isinstance(x, dict) and x:
            sub = hand_dict_diff(r, x, 0)
            if sub: d.append({'op': 'patch', 'key': i, 'diff': sub})
    if r.random() < 0.4: d.append({'op': 'addrange', 'key': len(v), 'valuelist': [r.choice([0, 'end', {'e': []}])] * r.choice([1, 2])})
    return d

def hand_dict_diff(r, a, depth=2, order=None):
    """a valid diff of the dict a, built without nbdime: each key of a is kept / removed / replaced / patched, new keys are
    added; the entries are listed in arbitrary order (order: shuffle | reverse | insertion | None = pick one)"""
    d = []
    for k in a:
        c = r.random(); x = a[k]
        if c < 0.15: continue
        if c < 0.35: d.append({'op': 'remove', 'key': k})
        elif c < 0.6 or not isinstance(x, (dict, list)) or (isinstance(x, dict) and not x):
            d.append({'op': 'replace', 'key': k, 'value': r.choice([genjson.gen_atom(r), {'r': [1, {'s': 2}]}, [k, 1], 'replaced'])})
        elif isinstance(x, dict):
            sub = hand_dict_diff(r, x, depth - 1, order)
            if sub: d.append({'op': 'patch', 'key': k, 'diff': sub})
        else:
            sub = hand_list_diff(r, x)
            if sub: d.append({'op': 'patch', 'key': k, 'diff': sub})
    for k in r.sample(FKEYS + ['new1', 'Added', '0'], r.choice([0, 1, 1, 2, 3])):
        if k not in a: d.append({'op': 'add', 'key': k, 'value': r.choice([genjson.gen_atom(r), {'n': {'m': []}}, [[k]], 'added'])})
    o = order or r.choice(['shuffle', 'shuffle', 'reverse', 'insertion'])
    if o == 'shuffle': r.shuffle(d)
    elif o == 'reverse': d.sort(key=lambda e: e['key'], reverse=True)
    return d

def hand_nb_diff(r, nbk):
    """a valid notebook diff built without nbdime: notebook metadata, and metadata / execution_count / source / output
    metadata of some cells, entries of every dict-level diff in arbitrary order"""
    top = []
    md = hand_dict_diff(r, nbk['metadata'], 2) if nbk['metadata'] else [{'op': 'add', 'key': k, 'value': {'v': [1]}} for k in r.sample(FKEYS, 3)]
    if md: top.append({'op': 'patch', 'key': 'metadata', 'diff': md})
    cd = []
    for i, c in enumerate(nbk['cells']):
        if r.random() < 0.25: continue
        ed = []
        m = hand_dict_diff(r, c['metadata'], 1) if c['metadata'] else [{'op': 'add', 'key': k, 'value': r.choice([True, ['t'], {'q': 1}])} for k in r.sample(FKEYS, r.choice([1, 2, 3]))]
        if m: ed.append({'op': 'patch', 'key': 'metadata', 'diff': m})
        if r.random() < 0.6: ed.append({'op': 'replace', 'key': 'source', 'value': r.choice(['x = 1\n', '', 'print(2)\nprint(3)\n'])})
        if c['cell_type'] == 'code':
            if r.random() < 0.6: ed.append({'op': 'replace', 'key': 'execution_count', 'value': r.choice([None, 9, 10])})
            od = []
            for j, o in enumerate(c['outputs']):
                if o['output_type'] in ('display_data', 'execute_result') and r.random() < 0.6:
                    s = [{'op': 'patch', 'key': 'metadata', 'diff': hand_dict_diff(r, o['metadata'], 1) or [{'op': 'add', 'key': 'zz', 'value': 1}]}]
                    if o['output_type'] == 'execute_result' and r.random() < 0.5: s.append({'op': 'replace', 'key': 'execution_count', 'value': 11})
                    free = [m_ for m_ in MIMES if m_ not in o['data'] and m_ != 'application/json']
                    dd = [{'op': 'add', 'key': m_, 'value': 'added %s\n' % m_} for m_ in r.sample(free, min(len(free), r.choice([0, 1, 2])))]
                    dd += [{'op': 'remove', 'key': m_} for m_ in o['data'] if r.random() < 0.3]
                    if dd: r.shuffle(dd); s.append({'op': 'patch', 'key': 'data', 'diff': dd})
                    r.shuffle(s); od.append({'op': 'patch', 'key': j, 'diff': s})
                elif r.random() < 0.15: od.append({'op': 'removerange', 'key': j, 'length': 1})
            if od: ed.append({'op': 'patch', 'key': 'outputs', 'diff': od})
        r.shuffle(ed)
        if ed: cd.append({'op': 'patch', 'key': i, 'diff': ed})
    if cd: top.append({'op': 'patch', 'key': 'cells', 'diff': cd})
    r.shuffle(top)
    return top

def _dec(path, action, conflict, ld=None, rd=None, cd=None):
    m = {'common_path': list(path), 'action': action, 'conflict': conflict, 'local_diff': ld, 'remote_diff': rd}
    if cd is not None: m['custom_diff'] = cd
    return m

def _one_hand_decision(r, path, obj):
    """one decision on the dict obj at path, as a front end / another tool would write it"""
    ld = hand_dict_diff(r, obj, 1)
    rd = hand_dict_diff(r, obj, 1)
    c = r.random()
    if c < 0.3: return _dec(path, 'local', False, ld=ld)
    if c < 0.5: return _dec(path, 'remote', False, rd=rd)
    if c < 0.6: return _dec(path, 'either', False, ld=ld, rd=copy.deepcopy(ld))
    if c < 0.75: return _dec(path, r.choice(['local', 'remote', 'base']), True, ld=ld, rd=rd)
    return _dec(path, 'custom', True, ld=ld, rd=rd, cd=hand_dict_diff(r, obj, 1))

def hand_decisions_json(r, base):
    """decision list on a plain dict: one decision at the root, or decisions on the dict-valued children (deeper paths first is
    not required: the children are disjoint)"""
    kids = [k for k in base if isinstance(base[k], dict) and base[k]]
    if kids and r.random() < 0.6:
        return [_one_hand_decision(r, (k,), base[k]) for k in r.sample(kids, r.randint(1, len(kids)))]
    return [_one_hand_decision(r, (), base)]

def hand_decisions_nb(r, nbk):
    """decision list on a notebook: cell metadata decisions (last cell first, as nbdime orders them), then notebook metadata"""
    decs = []
    for i in reversed(range(len(nbk['cells']))):
        c = nbk['cells'][i]
        if r.random() < 0.6:
            decs.append(_one_hand_decision(r, ('cells', i, 'metadata'), c['metadata']))
    if r.random() < 0.8 or not decs:
        decs.append(_one_hand_decision(r, ('metadata',), nbk['metadata']))
    return decs

FOREIGN_MODES = ['shuffle', 'shuffle', 'reverse', 'reverse', 'rotate', 'swap']

def gen_foreign_spec(r, custom=False):
    s = {'mode': r.choice(FOREIGN_MODES), 'seed': r.randrange(10 ** 6), 'fresh': r.random() < 0.6}
    if custom: s['custom'] = r.random() < 0.5
    return s

def edit_wide(r, a, depth=2):
    """an edited copy of a wide dict with SEVERAL changes per level (so that nbdime's diff has several entries per level)"""
    b = {}
    for k, x in a.items():
        c = r.random()
        if c < 0.2: continue
        if c < 0.45: b[k] = copy.deepcopy(x)
        elif isinstance(x, dict) and depth > 0 and c < 0.85: b[k] = edit_wide(r, x, depth - 1)
        elif isinstance(x, list) and c < 0.8: b[k] = copy.deepcopy(x) + [r.choice([1, 'n', {'w': 1}])]
        else: b[k] = r.choice([genjson.gen_atom(r), 'changed', {'c': [1]}])
    for k in r.sample(FKEYS, r.choice([0, 1, 2, 3])):
        if k not in b: b[k] = r.choice([genjson.gen_atom(r), {'n': 1}, [k]])
    return b

def widen_nb(r, nbk):
    """give the notebook and its cells metadata with several keys"""
    nbk = copy.deepcopy(nbk)
    nbk['metadata'] = dict(nbk['metadata'], **gen_wide_dict(r, 1))
    for c in nbk['cells']:
        if r.random() < 0.7: c['metadata'] = dict(c['metadata'], **gen_wide_dict(r, 1))
    return nbk

def edit_wide_nb(r, nbk):
    b = edit_notebook(r, nbk)
    b['metadata'] = edit_wide(r, b['metadata'], 1)
    for c in b['cells']:
        c0 = r.random()
        if c0 < 0.6: c['metadata'] = edit_wide(r, c['metadata'], 1)
        if c0 > 0.3 and c['cell_type'] == 'code': c['execution_count'] = r.choice([None, 6, 7])
        if r.random() < 0.4: c['source'] = genjson.edit_text(r, c['source'])
    return b

FOREIGN_JSON_CALLS = ['patch', 'pretty_print_diff']
FOREIGN_NB_CALLS = ['patch_notebook', 'patch_nb_generic', 'pretty_print_notebook_diff']
FOREIGN_DEC_CALLS = ['apply_decisions_nb', 'pretty_print_merge_decisions']
FOREIGN_NB3_CALLS = FOREIGN_DEC_CALLS + ['pretty_print_notebook_merge']

def gen_foreign_cases(r, n):
    """n: dict of counts (hand_js, hand_nb, hand_dec, re_js, re_nb, re_js3, re_nb3)"""
    cases = []
    for _ in range(n['hand_js']):
        a = gen_wide_dict(r, r.choice([1, 2, 2]))
        d = hand_dict_diff(r, a, 2)
        for c in FOREIGN_JSON_CALLS: cases.append({'call': c, 'a': a, 'd': d, 'src': 'foreign:hand-json'})
    for _ in range(n['hand_nb']):
        a = widen_nb(r, gen_notebook(r, r.choice([1, 2, 3])))
        d = hand_nb_diff(r, a)
        for c in FOREIGN_NB_CALLS: cases.append({'call': c, 'a': a, 'd': d, 'src': 'foreign:hand-nb'})
    for _ in range(n['hand_dec']):
        if r.random() < 0.5:
            base = gen_wide_dict(r, 2)
            cases.append({'call': 'apply_decisions', 'base': base, 'decisions': hand_decisions_json(r, base), 'src': 'foreign:hand-decisions'})
        else:
            base = widen_nb(r, gen_notebook(r, r.choice([1, 2, 3])))
            decs = hand_decisions_nb(r, base)
            for c in FOREIGN_DEC_CALLS: cases.append({'call': c, 'base': base, 'decisions': decs, 'src': 'foreign:hand-decisions'})
    for _ in range(n['re_js']):
        a = gen_wide_dict(r, 2); b = edit_wide(r, a)
        f = gen_foreign_spec(r)
        for c in FOREIGN_JSON_CALLS: cases.append({'call': c, 'a': a, 'b': b, 'foreign': f, 'src': 'foreign:relisted'})
    for _ in range(n['re_nb']):
        a = widen_nb(r, gen_notebook(r, r.choice([1, 2, 3, 4]))); b = edit_wide_nb(r, a)
        f = gen_foreign_spec(r)
        for c in FOREIGN_NB_CALLS: cases.append({'call': c, 'a': a, 'b': b, 'foreign': f, 'src': 'foreign:relisted'})
    for _ in range(n['re_js3']):
        base = gen_wide_dict(r, 2)
        cases.append({'call': 'apply_decisions', 'base': base, 'local': edit_wide(r, base), 'remote': edit_wide(r, base),
                      'foreign': gen_foreign_spec(r, custom=True), 'src': 'foreign:relisted'})
    for _ in range(n['re_nb3']):
        base = widen_nb(r, gen_notebook(r, r.choice([1, 2, 3])))
        l, rr = edit_wide_nb(r, base), edit_wide_nb(r, base)
        args = r.choice(MERGE_ARGS); f = gen_foreign_spec(r, custom=True)
        for c in FOREIGN_NB3_CALLS: cases.append({'call': c, 'base': base, 'local': l, 'remote': rr, 'args': args, 'foreign': f, 'src': 'foreign:relisted'})
    return cases
