"""Generators for C13: small v4 notebooks rich in display_data / execute_result outputs (the pop/restore path of
diff_single_outputs), edited copies (pairs, triples), and the list of public calls to observe.
All randomness comes from the random.Random passed in."""
import copy
import genjson

MIMES = ['text/plain', 'text/html', 'image/png', 'application/json', 'text/markdown']

def gen_mime_value(r, m):
    if m == 'application/json':
        return r.choice([{'k': [1, 2, {'z': None}]}, {'a': 1}, [1, [2, 3]], {'deep': {'er': {'x': [1]}}}])
    if m == 'image/png':
        return r.choice(['iVBORw0KGgo=', 'aGVsbG8=', 'AAAA'])
    return genjson.gen_text(r, r.choice([1, 2, 3]), seps=['\n'])

def shuffled_dict(r, items):
    items = list(items); r.shuffle(items)
    return dict(items)

def gen_output(r, minor=5):
    t = r.choice(['stream', 'display_data', 'display_data', 'execute_result', 'execute_result', 'error'])
    if t == 'stream':
        return {'output_type': 'stream', 'name': r.choice(['stdout', 'stderr']), 'text': genjson.gen_text(r, r.choice([1, 2, 4]), seps=['\n'])}
    if t == 'error':
        return {'output_type': 'error', 'ename': 'ValueError', 'evalue': r.choice(['bad', 'worse']), 'traceback': ['line 1', 'line 2'][:r.choice([1, 2])]}
    data = {m: gen_mime_value(r, m) for m in r.sample(MIMES, r.choice([0, 1, 1, 1, 2, 3]))}   # sometimes an empty bundle
    md = r.choice([{}, {}, {'image/png': {'width': 10, 'height': [1, 2]}}, {'isolated': True, 'tags': ['x', 'y']}])
    items = [('output_type', t), ('data', data), ('metadata', md)]
    if t == 'execute_result': items.append(('execution_count', r.choice([1, 2, 3, None])))
    # key order varies: 'data' first / middle / last  (insertion order is what pop+re-insert disturbs)
    return shuffled_dict(r, items)

def gen_cell(r, idx, minor=5):
    t = r.choice(['code', 'code', 'code', 'markdown', 'raw'])
    c = {'cell_type': t, 'metadata': r.choice([{}, {}, {'tags': ['t1']}, {'collapsed': False, 'nested': {'l': [1, {'m': 2}]}}]),
         'source': genjson.gen_text(r, r.choice([0, 1, 2, 3, 5]), seps=['\n'])}
    if minor >= 5: c['id'] = 'cell-%d-%d' % (idx, r.randrange(1000))
    if t == 'code':
        c['execution_count'] = r.choice([None, 1, 2, 5])
        c['outputs'] = [gen_output(r, minor) for _ in range(r.choice([0, 1, 1, 2, 3]))]
    if t == 'markdown' and r.random() < 0.3:
        c['attachments'] = {'img.png': {'image/png': r.choice(['AAAA', 'BBBB'])}}
    return c

def gen_notebook(r, ncells=None):
    minor = r.choice([4, 5, 5])
    n = ncells if ncells is not None else r.choice([0, 1, 2, 2, 3, 4])
    return {'nbformat': 4, 'nbformat_minor': minor,
            'metadata': r.choice([{}, {'kernelspec': {'name': 'python3', 'display_name': 'Python 3', 'language': 'python'}},
                                  {'language_info': {'name': 'python', 'version': '3.8'}, 'custom': {'list': [1, [2], {'q': 3}]}}]),
            'cells': [gen_cell(r, i, minor) for i in range(n)]}

def edit_output(r, o):
    o = copy.deepcopy(o)
    c = r.random()
    if o['output_type'] in ('display_data', 'execute_result'):
        if c < 0.35 and o['data']:
            k = r.choice(sorted(o['data'])); o['data'][k] = gen_mime_value(r, k)
        elif c < 0.55:
            m = r.choice(MIMES); o['data'][m] = gen_mime_value(r, m)
        elif c < 0.7 and len(o['data']) > 0:
            del o['data'][r.choice(sorted(o['data']))]
        elif c < 0.9:
            o['metadata'] = r.choice([{}, {'isolated': False}, {'tags': ['z'], 'w': {'h': [3]}}])
        elif 'execution_count' in o:
            o['execution_count'] = r.choice([7, 8, None])
    elif o['output_type'] == 'stream':
        o['text'] = genjson.edit_text(r, o['text'])
    else:
        o['evalue'] = o['evalue'] + '!'
    return o

def edit_notebook(r, nbk):
    nbk = copy.deepcopy(nbk)
    minor = nbk['nbformat_minor']
    for _ in range(r.choice([1, 1, 2, 3])):
        c = r.random(); cells = nbk['cells']
        if c < 0.15:
            cells.insert(r.randint(0, len(cells)), gen_cell(r, 90 + r.randrange(9), minor))
        elif c < 0.25 and cells:
            del cells[r.randrange(len(cells))]
        elif c < 0.45 and cells:
            i = r.randrange(len(cells)); cells[i]['source'] = genjson.edit_text(r, cells[i]['source'])
        elif c < 0.8 and cells:
            code = [x for x in cells if x['cell_type'] == 'code']
            if code:
                x = r.choice(code); k = r.random()
                if x['outputs'] and k < 0.6:
                    j = r.randrange(len(x['outputs'])); x['outputs'][j] = edit_output(r, x['outputs'][j])
                elif k < 0.8:
                    x['outputs'].insert(r.randint(0, len(x['outputs'])), gen_output(r, minor))
                elif x['outputs']:
                    del x['outputs'][r.randrange(len(x['outputs']))]
                else:
                    x['execution_count'] = r.choice([3, 4, None])
        elif c < 0.9:
            nbk['metadata'] = genjson.mutate(r, nbk['metadata'], 2) if nbk['metadata'] else {'added': {'k': [1, {'v': 2}]}}
        elif cells:
            i = r.randrange(len(cells)); cells[i]['metadata'] = r.choice([{'tags': ['new', 'tags']}, {'x': {'y': [1, 2]}}, {}])
    return nbk

def gen_nb_pair(r):
    a = gen_notebook(r)
    b = copy.deepcopy(a) if r.random() < 0.05 else edit_notebook(r, a)
    return a, b

def gen_nb_triple(r):
    base = gen_notebook(r, r.choice([1, 2, 3, 4]))
    return base, edit_notebook(r, base), edit_notebook(r, base)

# ---------------------------------------------------------------------------------------------- re-bundled decisions
# Triples whose merge yields SEVERAL decisions with the same common_path that each carry a patch op on the SAME key.
# add_decision pushes a lone patch op down into the path, so this shape only appears after a strategy re-bundles the
# decisions of a container (bundle_decisions_by_index for /cells/*/outputs, push_patch_decision in record-conflict for
# */metadata): one child of the container is in genuine conflict (both sides edit the same place differently, so the
# strategy runs) while a sibling child is edited on both sides in DISJOINT sub-parts (two one-sided decisions that end
# up side by side at the container's path).  apply_decisions / the renderers then have to combine ops that belong to
# different entries of the decision list they were given.
LONG = ['the quick brown fox jumps over the lazy dog', 'a value that is long enough to stay similar',
        'lorem ipsum dolor sit amet consectetur', 'result of the computation follows here', '<div class="out">table body</div>',
        'mean = 0.5123, std = 0.0123, n = 1000', 'second output that is long enough too']

def _long_text(r, nlines):
    return ''.join('%s %d\n' % (r.choice(LONG), i) for i in range(nlines))

def _edit_line(text, i, tag):
    lines = text.splitlines(True)
    i = i % len(lines)
    lines[i] = lines[i].rstrip('\n') + ' ' + tag + '\n'
    return ''.join(lines)

def _rich_output(r):
    """an output with at least two independently editable parts"""
    t = r.choice(['display_data', 'display_data', 'execute_result', 'stream'])
    if t == 'stream':
        return {'output_type': 'stream', 'name': r.choice(['stdout', 'stderr']), 'text': _long_text(r, r.choice([5, 6, 8]))}
    mimes = ['text/plain'] + r.sample(['text/html', 'text/markdown'], r.choice([0, 1, 1, 2]))
    items = [('output_type', t), ('data', {m: _long_text(r, r.choice([1, 2, 3])) for m in mimes}),
             ('metadata', r.choice([{}, {}, {'isolated': True}, {'tags': ['x', 'y'], 'w': {'h': [3]}}]))]
    if t == 'execute_result': items.append(('execution_count', r.choice([1, 2, None])))
    return shuffled_dict(r, items)

def _slots(o):
    """independently editable parts of an output"""
    if o['output_type'] == 'stream':
        n = len(o['text'].splitlines())
        return [('line', 0), ('line', n - 1)] + ([('line', n // 2)] if n >= 7 else [])
    return [('md', None)] + [('mime', m) for m in sorted(o['data'])]

def _apply_slot(r, o, slot, tag):
    kind, which = slot
    if kind == 'line': o['text'] = _edit_line(o['text'], which, tag)
    elif kind == 'mime': o['data'][which] = _edit_line(o['data'][which], r.randrange(4), tag)
    else: o['metadata'][r.choice(['tag', 'note', 'scrolled_by'])] = r.choice([tag, [tag], {'by': tag}])

def _conflict(r, lo, ro):
    """both sides edit the same place of one output differently"""
    slot = r.choice([s for s in _slots(lo) if s[0] != 'md'] if r.random() < 0.8 else _slots(lo))
    if slot[0] == 'md':
        lo['metadata']['owner'] = 'LOCAL'; ro['metadata']['owner'] = 'REMOTE'
    elif slot[0] == 'line':
        lo['text'] = _edit_line(lo['text'], slot[1], 'LOCAL'); ro['text'] = _edit_line(ro['text'], slot[1], 'REMOTE')
    else:
        lo['data'][slot[1]] = _edit_line(lo['data'][slot[1]], 0, 'LOCAL'); ro['data'][slot[1]] = _edit_line(ro['data'][slot[1]], 0, 'REMOTE')

def _disjoint(r, lo, ro):
    """local and remote edit different parts of one output (no conflict, two one-sided decisions)"""
    sl = _slots(lo); r.shuffle(sl)
    k = r.choice([1, 1, 2]) if len(sl) >= 3 else 1
    for s in sl[:k]: _apply_slot(r, lo, s, 'L')
    for s in sl[k:k + r.choice([1, 1, 2])]: _apply_slot(r, ro, s, 'R')

def _bundled_meta(r):
    """(base, local, remote) metadata dicts: key 'owner' conflicts, the dict under 'grp' is edited on both sides in disjoint keys"""
    grp = {'x': 1, 'y': [1, 2], 'z': {'q': 'v'}, 'w': 'keep'}
    base = shuffled_dict(r, [('grp', grp), ('owner', 'nobody'), ('other', {'k': [1]})])
    l, rr = copy.deepcopy(base), copy.deepcopy(base)
    l['owner'] = 'LOCAL'; rr['owner'] = 'REMOTE'
    ks = ['x', 'y', 'z']; r.shuffle(ks)
    edits = {'x': lambda g, t: g.__setitem__('x', t), 'y': lambda g, t: g['y'].append(t), 'z': lambda g, t: g['z'].__setitem__('by', t)}
    edits[ks[0]](l['grp'], 'L'); edits[ks[1]](rr['grp'], 'R')
    if r.random() < 0.4: edits[ks[2]](r.choice([l, rr])['grp'], 'LR')
    if r.random() < 0.3: l['grp']['new_l'] = ['L']
    if r.random() < 0.3: rr['grp']['new_r'] = {'R': 1}
    return base, l, rr

def gen_nb_triple_bundled(r):
    """(base, local, remote, shape): see the comment above.  shape in 'outputs' | 'cellmeta' | 'nbmeta'"""
    shape = r.choice(['outputs', 'outputs', 'outputs', 'cellmeta', 'nbmeta'])
    minor = r.choice([4, 5, 5])
    ncells = r.choice([1, 1, 2, 3])
    cells = [gen_cell(r, i, minor) for i in range(ncells)]
    ti = r.randrange(ncells)
    tc = {'cell_type': 'code', 'metadata': {}, 'source': r.choice(['print(1)', 'display(x)\nx\n', '']), 'execution_count': r.choice([None, 1, 3]), 'outputs': []}
    if minor >= 5: tc['id'] = 'cell-t-%d' % r.randrange(1000)
    cells[ti] = tc
    base = {'nbformat': 4, 'nbformat_minor': minor, 'metadata': {}, 'cells': cells}
    if shape == 'outputs':
        n = r.choice([2, 2, 3, 4])
        tc['outputs'] = [_rich_output(r) for _ in range(n)]
        local, remote = copy.deepcopy(base), copy.deepcopy(base)
        lo, ro = local['cells'][ti]['outputs'], remote['cells'][ti]['outputs']
        idx = list(range(n)); r.shuffle(idx)
        _conflict(r, lo[idx[0]], ro[idx[0]])
        _disjoint(r, lo[idx[1]], ro[idx[1]])
        for j in idx[2:]:
            c = r.random()
            if c < 0.35: _disjoint(r, lo[j], ro[j])
            elif c < 0.5: _conflict(r, lo[j], ro[j])
            elif c < 0.7: _apply_slot(r, r.choice([lo, ro])[j], r.choice(_slots(lo[j])), 'ONE')
        if r.random() < 0.25:      # an unrelated change elsewhere in the notebook
            local['cells'][ti]['source'] += '# local\n'
    else:
        if r.random() < 0.5: tc['outputs'] = [_rich_output(r)]
        bm, lm, rm = _bundled_meta(r)
        local, remote = copy.deepcopy(base), copy.deepcopy(base)
        if shape == 'cellmeta':
            base['cells'][ti]['metadata'], local['cells'][ti]['metadata'], remote['cells'][ti]['metadata'] = bm, lm, rm
        else:
            base['metadata'], local['metadata'], remote['metadata'] = bm, lm, rm
    return base, local, remote, shape

# merge arguments under which a conflict in a container makes a strategy re-bundle the container's decisions
BUNDLING_ARGS = [None, {'merge_strategy': 'inline'}, {'merge_strategy': 'inline', 'output_strategy': 'remove'},
                 {'merge_strategy': 'inline', 'ignore_transients': False}, {'merge_strategy': 'use-base', 'output_strategy': 'inline'}]

def gen_json_triple(r, depth=3):
    base = genjson.gen_container(r, kind=r.choice(['list', 'dict']), depth=depth)
    return base, genjson.mutate(r, base, depth), genjson.mutate(r, base, depth)

def gen_output_pair(r):
    """two outputs of the same display type (input space of the pop/restore branch of diff_single_outputs)"""
    while True:
        a = gen_output(r)
        if a['output_type'] in ('display_data', 'execute_result'): break
    b = edit_output(r, a)
    if r.random() < 0.5:   # independent key order for b
        items = list(b.items()); r.shuffle(items); b = dict(items)
    return a, b

MERGE_ARGS = [None, {'merge_strategy': 'inline'}, {'merge_strategy': 'use-base'}, {'merge_strategy': 'use-local'},
              {'merge_strategy': 'use-remote'}, {'merge_strategy': 'union'},
              {'merge_strategy': 'inline', 'output_strategy': 'clear-all'}, {'merge_strategy': 'inline', 'output_strategy': 'remove'},
              {'merge_strategy': 'inline', 'ignore_transients': False}, {'merge_strategy': 'inline', 'log_level': 'DEBUG'}]

JSON_CALLS = ['diff', 'patch', 'patch_plain', 'pretty_print_diff']
JSON3_CALLS = ['decide_merge', 'decide_merge_with_diff', 'apply_decisions']
NB_CALLS = ['diff_notebooks', 'patch_notebook', 'patch_nb_generic', 'pretty_print_notebook', 'pretty_print_notebook_diff']
NB3_CALLS = ['decide_notebook_merge', 'merge_notebooks', 'apply_decisions_nb', 'pretty_print_merge_decisions', 'pretty_print_notebook_merge']
