"""Generators for C13: small v4 notebooks rich in display_data / execute_result outputs (the pop/restore path of
diff_single_outputs), edited copies (pairs, triples), and the list of public calls to observe.
All randomness comes from the random.Random passed in."""
import copy
import genjson

MIMES = ['text/plain', 'text/html', 'image/png', 'application/json', 'text/markdown']

def gen_mime_value(r, m):
    if m == 'application/json':
        return r.choice([{'k': [1, 2, {'z': None}]}, {'a': 1}, [1, [2, 3]], {'deep': {'er': {'x': [1]}}}])
    if m == 'image/png':
        return r.choice(['iVBORw0KGgo=', 'aGVsbG8=', 'AAAA'])
    return genjson.gen_text(r, r.choice([1, 2, 3]), seps=['\n'])

def shuffled_dict(r, items):
    items = list(items); r.shuffle(items)
    return dict(items)

def gen_output(r, minor=5):
    t = r.choice(['stream', 'display_data', 'display_data', 'execute_result', 'execute_result', 'error'])
    if t == 'stream':
        return {'output_type': 'stream', 'name': r.choice(['stdout', 'stderr']), 'text': genjson.gen_text(r, r.choice([1, 2, 4]), seps=['\n'])}
    if t == 'error':
        return {'output_type': 'error', 'ename': 'ValueError', 'evalue': r.choice(['bad', 'worse']), 'traceback': ['line 1', 'line 2'][:r.choice([1, 2])]}
    data = {m: gen_mime_value(r, m) for m in r.sample(MIMES, r.choice([0, 1, 1, 1, 2, 3]))}   # sometimes an empty bundle
    md = r.choice([{}, {}, {'image/png': {'width': 10, 'height': [1, 2]}}, {'isolated': True, 'tags': ['x', 'y']}])
    items = [('output_type', t), ('data', data), ('metadata', md)]
    if t == 'execute_result': items.append(('execution_count', r.choice([1, 2, 3, None])))
    # key order varies: 'data' first / middle / last  (insertion order is what pop+re-insert disturbs)
    return shuffled_dict(r, items)

def gen_cell(r, idx, minor=5):
    t = r.choice(['code', 'code', 'code', 'markdown', 'raw'])
    c = {'cell_type': t, 'metadata': r.choice([{}, {}, {'tags': ['t1']}, {'collapsed': False, 'nested': {'l': [1, {'m': 2}]}}]),
         'source': genjson.gen_text(r, r.choice([0, 1, 2, 3, 5]), seps=['\n'])}
    if minor >= 5: c['id'] = 'cell-%d-%d' % (idx, r.randrange(1000))
    if t == 'code':
        c['execution_count'] = r.choice([None, 1, 2, 5])
        c['outputs'] = [gen_output(r, minor) for _ in range(r.choice([0, 1, 1, 2, 3]))]
    if t == 'markdown' and r.random() < 0.3:
        c['attachments'] = {'img.png': {'image/png': r.choice(['AAAA', 'BBBB'])}}
    return c

def gen_notebook(r, ncells=None):
    minor = r.choice([4, 5, 5])
    n = ncells if ncells is not None else r.choice([0, 1, 2, 2, 3, 4])
    return {'nbformat': 4, 'nbformat_minor': minor,
            'metadata': r.choice([{}, {'kernelspec': {'name': 'python3', 'display_name': 'Python 3', 'language': 'python'}},
                                  {'language_info': {'name': 'python', 'version': '3.8'}, 'custom': {'list': [1, [2], {'q': 3}]}}]),
            'cells': [gen_cell(r, i, minor) for i in range(n)]}

def edit_output(r, o):
    o = copy.deepcopy(o)
    c = r.random()
    if o['output_type'] in ('display_data', 'execute_result'):
        if c < 0.35 and o['data']:
            k = r.choice(sorted(o['data'])); o['data'][k] = gen_mime_value(r, k)
        elif c < 0.55:
            m = r.choice(MIMES); o['data'][m] = gen_mime_value(r, m)
        elif c < 0.7 and len(o['data']) > 0:
            del o['data'][r.choice(sorted(o['data']))]
        elif c < 0.9:
            o['metadata'] = r.choice([{}, {'isolated': False}, {'tags': ['z'], 'w': {'h': [3]}}])
        elif 'execution_count' in o:
            o['execution_count'] = r.choice([7, 8, None])
    elif o['output_type'] == 'stream':
        o['text'] = genjson.edit_text(r, o['text'])
    else:
        o['evalue'] = o['evalue'] + '!'
    return o

def edit_notebook(r, nbk):
    nbk = copy.deepcopy(nbk)
    minor = nbk['nbformat_minor']
    for _ in range(r.choice([1, 1, 2, 3])):
        c = r.random(); cells = nbk['cells']
        if c < 0.15:
            cells.insert(r.randint(0, len(cells)), gen_cell(r, 90 + r.randrange(9), minor))
        elif c < 0.25 and cells:
            del cells[r.randrange(len(cells))]
        elif c < 0.45 and cells:
            i = r.randrange(len(cells)); cells[i]['source'] = genjson.edit_text(r, cells[i]['source'])
        elif c < 0.8 and cells:
            code = [x for x in cells if x['cell_type'] == 'code']
            if code:
                x = r.choice(code); k = r.random()
                if x['outputs'] and k < 0.6:
                    j = r.randrange(len(x['outputs'])); x['outputs'][j] = edit_output(r, x['outputs'][j])
                elif k < 0.8:
                    x['outputs'].insert(r.randint(0, len(x['outputs'])), gen_output(r, minor))
                elif x['outputs']:
                    del x['outputs'][r.randrange(len(x['outputs']))]
                else:
                    x['execution_count'] = r.choice([3, 4, None])
        elif c < 0.9:
            nbk['metadata'] = genjson.mutate(r, nbk['metadata'], 2) if nbk['metadata'] else {'added': {'k': [1, {'v': 2}]}}
        elif cells:
            i = r.randrange(len(cells)); cells[i]['metadata'] = r.choice([{'tags': ['new', 'tags']}, {'x': {'y': [1, 2]}}, {}])
    return nbk

def gen_nb_pair(r):
    a = gen_notebook(r)
    b = copy.deepcopy(a) if r.random() < 0.05 else edit_notebook(r, a)
    return a, b

def gen_nb_triple(r):
    base = gen_notebook(r, r.choice([1, 2, 3, 4]))
    return base, edit_notebook(r, base), edit_notebook(r, base)

def gen_json_triple(r, depth=3):
    base = genjson.gen_container(r, kind=r.choice(['list', 'dict']), depth=depth)
    return base, genjson.mutate(r, base, depth), genjson.mutate(r, base, depth)

def gen_output_pair(r):
    """two outputs of the same display type (input space of the pop/restore branch of diff_single_outputs)"""
    while True:
        a = gen_output(r)
        if a['output_type'] in ('display_data', 'execute_result'): break
    b = edit_output(r, a)
    if r.random() < 0.5:   # independent key order for b
        items = list(b.items()); r.shuffle(items); b = dict(items)
    return a, b

MERGE_ARGS = [None, {'merge_strategy': 'inline'}, {'merge_strategy': 'use-base'}, {'merge_strategy': 'use-local'},
              {'merge_strategy': 'use-remote'}, {'merge_strategy': 'union'},
              {'merge_strategy': 'inline', 'output_strategy': 'clear-all'}, {'merge_strategy': 'inline', 'output_strategy': 'remove'},
              {'merge_strategy': 'inline', 'ignore_transients': False}, {'merge_strategy': 'inline', 'log_level': 'DEBUG'}]

JSON_CALLS = ['diff', 'patch', 'patch_plain', 'pretty_print_diff']
JSON3_CALLS = ['decide_merge', 'decide_merge_with_diff', 'apply_decisions']
NB_CALLS = ['diff_notebooks', 'patch_notebook', 'patch_nb_generic', 'pretty_print_notebook', 'pretty_print_notebook_diff']
NB3_CALLS = ['decide_notebook_merge', 'merge_notebooks', 'apply_decisions_nb', 'pretty_print_merge_decisions', 'pretty_print_notebook_merge']
