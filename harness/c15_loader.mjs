// ESM loader hooks that let Node >= 22.6 execute nbdime's TypeScript sources unmodified (no tsc, no node_modules).
//  resolve: extensionless relative imports -> .ts (or /index.ts); the two bare packages that are reached at run time
//           (@lumino/coreutils, json-stable-stringify) -> stub files next to this loader.
//  load:    every named import / re-export list is filtered down to the names the target module really exports at run
//           time (interfaces and type aliases imported without `import type` would otherwise fail to link), then the
//           TypeScript syntax is removed by node's own module.stripTypeScriptTypes (mode 'transform': parameter
//           properties in diff/range.ts).  Function bodies are executed exactly as written.
import { readFileSync, existsSync, statSync } from 'node:fs';
import { fileURLToPath, pathToFileURL } from 'node:url';
import { dirname, join } from 'node:path';
import { stripTypeScriptTypes } from 'node:module';

const HERE = dirname(fileURLToPath(import.meta.url));
const STUBS = {
  '@lumino/coreutils': join(HERE, 'c15_stub_coreutils.mjs'),
  'json-stable-stringify': join(HERE, 'c15_stub_stringify.mjs'),
};

function resolvePath(specifier, parentURL) {
  if (STUBS[specifier]) return STUBS[specifier];
  if (specifier.startsWith('.') && parentURL && parentURL.startsWith('file:')) {
    const base = join(dirname(fileURLToPath(parentURL)), specifier);
    for (const cand of [base + '.ts', join(base, 'index.ts'), base]) {
      if (existsSync(cand) && statSync(cand).isFile()) return cand;
    }
  }
  return null;
}

export async function resolve(specifier, context, nextResolve) {
  const p = resolvePath(specifier, context.parentURL);
  if (p) return { url: pathToFileURL(p).href, shortCircuit: true };
  return nextResolve(specifier, context);
}

const exportCache = new Map();
function runtimeExports(file, seen = new Set()) {
  if (exportCache.has(file)) return exportCache.get(file);
  if (seen.has(file)) return new Set();
  seen.add(file);
  const src = readFileSync(file, 'utf8');
  const names = new Set();
  for (const m of src.matchAll(/^export\s+(?:declare\s+)?(?:default\s+)?(?:async\s+)?(?:abstract\s+)?(function\*?|class|const|let|var|enum|namespace)\s+([A-Za-z_$][\w$]*)/gm)) {
    if (!/^export\s+declare/.test(m[0])) names.add(m[2]);
  }
  for (const m of src.matchAll(/^export\s*\{([^}]*)\}\s*(?:from\s*['"]([^'"]+)['"])?/gm)) {
    for (const part of m[1].split(',')) {
      const t = part.trim();
      if (!t || t.startsWith('type ')) continue;
      const nm = t.split(/\s+as\s+/).pop().trim();
      names.add(nm);
    }
  }
  for (const m of src.matchAll(/^export\s*\*\s*from\s*['"]([^'"]+)['"]/gm)) {
    const p = resolvePath(m[1], pathToFileURL(file).href);
    if (p) for (const n of runtimeExports(p, seen)) names.add(n);
  }
  exportCache.set(file, names);
  return names;
}

function filterLists(src, url) {
  // import { a, b as c } from 'x'   /   export { a, b } from 'x'
  return src.replace(/^(import|export)\s*\{([^}]*)\}\s*from\s*(['"])([^'"]+)\3\s*;?/gm, (whole, kw, list, q, spec) => {
    const p = resolvePath(spec, url);
    if (!p) {
      // a package that is not available here: keep nothing (must be type-only to work at all)
      return kw === 'import' ? '' : whole;
    }
    const have = runtimeExports(p);
    const kept = [];
    for (const part of list.split(',')) {
      const t = part.trim();
      if (!t || t.startsWith('type ')) continue;
      const orig = t.split(/\s+as\s+/)[0].trim();
      if (have.has(orig)) kept.push(t);
    }
    if (kept.length === 0) return kw === 'import' ? `import ${q}${spec}${q};` : '';
    return `${kw} { ${kept.join(', ')} } from ${q}${spec}${q};`;
  });
}

export async function load(url, context, nextLoad) {
  if (url.startsWith('file:') && url.endsWith('.ts')) {
    let src = readFileSync(fileURLToPath(url), 'utf8');
    src = filterLists(src, url);
    const js = stripTypeScriptTypes(src, { mode: 'transform' });
    return { format: 'module', source: js, shortCircuit: true };
  }
  return nextLoad(url, context);
}
