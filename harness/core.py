"""Shared machinery of bin/check: build, proof-obligation accounting, implementation runners,
verdict logic (violations / known findings / broken obligations), evidence and replay files."""
import os, sys, json, time, re, subprocess, hashlib, tempfile, shutil, fcntl, random
from concurrent.futures import ThreadPoolExecutor

VERIF = os.path.dirname(os.path.dirname(os.path.abspath(__file__)))
REPO = os.environ.get('NBDIME_REPO', '/repo')
COQ = os.path.join(VERIF, 'coq')
PY = '/venv/bin/python'
HARNESS = os.path.join(VERIF, 'harness')
FORBIDDEN = re.compile(r'\b(Admitted|admit|Axiom|Parameter|Conjecture|Hypothesis|Variable)\b|Unset\s+Guard|bypass_check|type-in-type|Admit Obligations')
ALLOWED_AXIOMS = {'functional_extensionality_dep', 'proof_irrelevance', 'classic', 'JMeq_eq', 'Eq_rect_eq.eq_rect_eq', 'eq_rect_eq'}

def impl_env(extra=None):
    env = dict(os.environ, PYTHONPATH=REPO, PYTHONHASHSEED='0', NBDIME_VERIF='1',
               GIT_CONFIG_GLOBAL='/dev/null', GIT_CONFIG_SYSTEM='/dev/null', GIT_CONFIG_NOSYSTEM='1',
               JUPYTER_CONFIG_DIR='/nonexistent-nbv/config', JUPYTER_CONFIG_PATH='/nonexistent-nbv/path',
               JUPYTER_NO_CONFIG='', JUPYTER_PLATFORM_DIRS='0')
    if extra: env.update(extra)
    return env

# ------------------------------------------------------------------ build
class BuildResult:
    def __init__(self): self.ok = True; self.log = ''; self.failed_file = None; self.gen_error = None

def _make(args, timeout=3600):
    return subprocess.run(['make', '-s'] + args, cwd=VERIF, capture_output=True, text=True, timeout=timeout,
                          env=dict(os.environ, NBDIME_REPO=REPO))

def build(targets=None):
    """Regenerate Gen/*.v from /repo and (re)build the extracted runner nbmodel; with targets (paths
    relative to coq/, e.g. ['Props/C02.vo']) also build those.  The property theorems themselves are
    built by Check.proof_obligations (only the closure of Props/Cxx.v, so an unrelated broken or slow
    file cannot disturb this property).  Serialised by a file lock; incremental."""
    res = BuildResult()
    res.model_ok = False
    lock = open(os.path.join(VERIF, '.coq-build.lock'), 'w')
    fcntl.flock(lock, fcntl.LOCK_EX)
    try:
        p = _make(['gen'])
        if p.returncode != 0:
            res.ok = False; res.gen_error = (p.stderr + p.stdout)[-3000:]; res.log = res.gen_error
            return res
        if targets:
            pt = build_targets(targets, locked=True)
            res.log += pt.log
            if not pt.ok: res.ok = False; res.failed_file = pt.failed_file
        p2 = _make(['model'])
        res.model_ok = (p2.returncode == 0)
        if p2.returncode != 0:
            res.log += (p2.stdout + p2.stderr)[-3000:]
        return res
    finally:
        fcntl.flock(lock, fcntl.LOCK_UN); lock.close()

def build_targets(targets, locked=False):
    """make the given .vo targets (full .vo build, every coqc under a timeout)."""
    res = BuildResult()
    lock = None
    if not locked:
        lock = open(os.path.join(VERIF, '.coq-build.lock'), 'w'); fcntl.flock(lock, fcntl.LOCK_EX)
    try:
        p = _make(['coq/Makefile.coq'])
        subprocess.run(['bash', '-c', "cd coq && find Base Diff Merge Schema Ts Sys Gen Props Extract -name '*.v' ! -name Extract.v | sort > .vfiles.new && "
                        "{ cmp -s .vfiles .vfiles.new || { mv .vfiles.new .vfiles && coq_makefile -f _CoqProject $(cat .vfiles) -o Makefile.coq; }; }; rm -f .vfiles.new"],
                       cwd=VERIF, capture_output=True, text=True)
        p = subprocess.run(['timeout', '3000', 'make', '-f', 'Makefile.coq', '-j16', '--no-print-directory',
                            "COQC=timeout 900 coqc"] + list(targets), cwd=COQ, capture_output=True, text=True)
        res.log = (p.stdout + p.stderr)[-6000:]
        if p.returncode != 0:
            res.ok = False
            m = re.search(r'File "\./([^"]+)", line (\d+)', p.stdout + p.stderr)
            if m: res.failed_file = m.group(1) + ':' + m.group(2)
        return res
    finally:
        if lock is not None:
            fcntl.flock(lock, fcntl.LOCK_UN); lock.close()

def coq_closure(vfile):
    """Transitive .v dependencies of a file inside the NB development."""
    seen, todo = set(), [vfile]
    while todo:
        f = todo.pop()
        if f in seen or not os.path.exists(os.path.join(COQ, f)): continue
        seen.add(f)
        txt = open(os.path.join(COQ, f)).read()
        txt = re.sub(r'\(\*.*?\*\)', '', txt, flags=re.S)
        for m in re.finditer(r'From\s+NB\s+Require\s+(?:Import\s+|Export\s+)?((?:[A-Za-z_][\w.]*\s+)*[A-Za-z_][\w.]*?)\.(?=\s|$)', txt):
            for mod in m.group(1).split():
                todo.append(mod.strip('.').replace('.', '/') + '.v')
    return sorted(seen)

def count_obligations(files):
    n = 0; names = []
    for f in files:
        txt = re.sub(r'\(\*.*?\*\)', '', open(os.path.join(COQ, f)).read(), flags=re.S)
        for m in re.finditer(r'^\s*(?:Local\s+|Global\s+)?(Theorem|Lemma|Corollary|Fact|Example|Proposition)\s+([A-Za-z_][\w\']*)', txt, re.M):
            n += 1; names.append(f + ':' + m.group(2))
    return n, names

def scan_forbidden(files):
    bad = []
    for f in files:
        if f.startswith('Gen/'): continue
        txt = open(os.path.join(COQ, f)).read()
        txt = re.sub(r'\(\*.*?\*\)', '', txt, flags=re.S)
        # Variables/Hypotheses are fine inside Sections only
        depth = 0
        for ln in txt.splitlines():
            if re.match(r'\s*Section\s', ln): depth += 1
            if re.match(r'\s*End\s', ln) and depth > 0: depth -= 1
            m = FORBIDDEN.search(ln)
            if m:
                if m.group(1) in ('Variable', 'Hypothesis') and depth > 0: continue
                if m.group(1) in ('Variable', 'Hypothesis') and re.match(r'\s*(Variables?|Hypothes[ie]s)\b', ln) is None: continue
                bad.append('%s: %s' % (f, ln.strip()[:100]))
    return bad

def print_assumptions(prop_module, theorems):
    """Ask Coq for the axioms each property theorem depends on."""
    src = 'From NB Require Import %s.\n' % prop_module + ''.join('Print Assumptions %s.\n' % t for t in theorems)
    d = tempfile.mkdtemp(prefix='nbv_pa_')
    try:
        f = os.path.join(d, 'PA.v'); open(f, 'w').write(src)
        p = subprocess.run(['timeout', '300', 'coqc', '-Q', COQ, 'NB', f], capture_output=True, text=True, cwd=d)
        out = p.stdout + p.stderr
    finally:
        shutil.rmtree(d, ignore_errors=True)
    if p.returncode != 0:
        return None, out[-2000:]
    blocks = re.split(r'(?=Closed under the global context|Axioms:)', out)
    res = []
    for b in blocks:
        b = b.strip()
        if not b: continue
        if b.startswith('Closed under'): res.append([])
        elif b.startswith('Axioms:'):
            res.append(re.findall(r'^([A-Za-z_][\w.\']*)\s*:', b[len('Axioms:'):], re.M))
    return res, out

# ------------------------------------------------------------------ implementation runner
def run_impl(tasks, shards=12, script='implrun.py', timeout=1800, env_extra=None, isolate=False):
    """isolate=True: one fresh interpreter per task (at most `shards` at a time)"""
    if not tasks: return []
    n = len(tasks) if isolate else max(1, min(shards, (len(tasks) + 3) // 4))
    chunks = [tasks[i::n] for i in range(n)]
    d = tempfile.mkdtemp(prefix='nbv_impl_')
    try:
        def one(i):
            tf = os.path.join(d, 't%d.json' % i); rf = os.path.join(d, 'r%d.json' % i)
            json.dump(chunks[i], open(tf, 'w'))
            p = subprocess.run([PY, os.path.join(HARNESS, script), tf, rf], env=impl_env(env_extra),
                               capture_output=True, text=True, timeout=timeout, cwd=d)
            if p.returncode != 0 or not os.path.exists(rf):
                return [{'err': 'HarnessCrash', 'msg': (p.stderr or '')[-800:]} for _ in chunks[i]]
            return json.load(open(rf))
        with ThreadPoolExecutor(max_workers=min(n, shards)) as ex:
            parts = list(ex.map(one, range(n)))
    finally:
        shutil.rmtree(d, ignore_errors=True)
    out = [None] * len(tasks)
    for i, part in enumerate(parts):
        for j, r in enumerate(part):
            out[i + j * n] = r
    return out

# ------------------------------------------------------------------ verdicts
def load_findings():
    """known_findings.json plus per-property fragments known_findings.d/Cxx.json (same entry shape)."""
    out = []
    p = os.path.join(VERIF, 'known_findings.json')
    if os.path.exists(p): out += json.load(open(p)).get('findings', [])
    d = os.path.join(VERIF, 'known_findings.d')
    if os.path.isdir(d):
        for f in sorted(os.listdir(d)):
            if f.endswith('.json'): out += json.load(open(os.path.join(d, f))).get('findings', [])
    return out

class Check:
    def __init__(self, prop, tier, seed):
        self.prop, self.tier, self.seed = prop, tier, seed
        self.t0 = time.time()
        self.violations = []          # (signature, case, detail)
        self.known_hits = {}          # signature -> count
        self.broken = []              # (name, detail)  proof obligations / correspondences that no longer check
        self.findings = [f for f in load_findings() if f.get('property') == prop]
        self.cov = {'evaluations': 0, 'distinct_nontrivial': 0, 'samples': [], 'rule': ''}
        self.assumptions = []
        self.notes = []
        self.rng = random.Random(seed * 1000003 + int(hashlib.sha1(prop.encode()).hexdigest()[:6], 16))

    # --- reporting
    def violation(self, signature, case, detail):
        for f in self.findings:
            if f.get('status') == 'known' and f.get('signature') == signature:
                self.known_hits[signature] = self.known_hits.get(signature, 0) + 1
                return False
        self.violations.append((signature, case, detail))
        return True

    def broken_obligation(self, name, detail):
        self.broken.append((name, detail))

    def sample(self, s, limit=5):
        if len(self.cov['samples']) < limit: self.cov['samples'].append(s)

    # --- proof side
    def proof_obligations(self, prop_file, build_res):
        """Accounts for the Coq side.  Returns True iff every obligation of the property is discharged."""
        closure = coq_closure(prop_file)
        n, names = count_obligations(closure)
        if not build_res.gen_error:
            # regenerate and build in ONE lock hold, so that a concurrent check working on another
            # NBDIME_REPO cannot swap Gen/*.v between translation and proof checking
            lock = open(os.path.join(VERIF, '.coq-build.lock'), 'w'); fcntl.flock(lock, fcntl.LOCK_EX)
            try:
                g = _make(['gen'])
                if g.returncode != 0:
                    build_res.gen_error = (g.stderr + g.stdout)[-3000:]
                    pb = None
                else:
                    pb = build_targets([prop_file[:-2] + '.vo'], locked=True)
                    if pb.ok and self.tier == 'thorough' and not os.environ.get('VERIF_NO_COQCHK'):
                        # independent re-check of the compiled closure (same lock hold: the .vo files cannot change under it)
                        t0 = time.time()
                        cc = subprocess.run(['timeout', '2400', 'coqchk', '-o', '-Q', COQ, 'NB', 'NB.' + prop_file[:-2].replace('/', '.')],
                                            capture_output=True, text=True)
                        tail = (cc.stdout + cc.stderr)[-1500:]
                        m = re.search(r'\* Axioms:(.*?)\n\s*\n\* ', tail, re.S)
                        self.coqchk = {'ok': cc.returncode == 0 and 'Modules were successfully checked' in tail,
                                       'axioms': ' '.join(m.group(1).split()) if m else None, 'seconds': int(time.time() - t0)}
                        if not self.coqchk['ok']: self.coqchk['tail'] = tail[-500:]
            finally:
                fcntl.flock(lock, fcntl.LOCK_UN); lock.close()
            if pb is not None and not pb.ok:
                build_res.ok = False; build_res.failed_file = pb.failed_file; build_res.log = pb.log
        self.cov['obligations'] = n
        self.cov['checker_cmd'] = 'make -C /verif coq  (coq_makefile, coqc 8.16.1, full .vo build of %s and its closure)' % prop_file
        ok = True
        if build_res.gen_error:
            self.broken_obligation('translator', build_res.gen_error[-600:]); ok = False
        vo = os.path.join(COQ, prop_file[:-2] + '.vo')
        stale = (not os.path.exists(vo)) or any(
            os.path.exists(os.path.join(COQ, f)) and os.path.getmtime(os.path.join(COQ, f)) > os.path.getmtime(vo) for f in closure)
        if not build_res.ok and stale:
            self.broken_obligation('coq-build:' + (build_res.failed_file or prop_file), build_res.log[-1500:]); ok = False
        bad = scan_forbidden(closure)
        if bad:
            self.broken_obligation('forbidden-construct', '; '.join(bad[:5])); ok = False
        theorems = re.findall(r'^\s*Theorem\s+([A-Za-z_][\w\']*)', re.sub(r'\(\*.*?\*\)', '', open(os.path.join(COQ, prop_file)).read(), flags=re.S), re.M)
        tb = ['Coq 8.16.1 kernel (coqc); vm_compute for finite decisions; no native_compute']
        if ok and theorems:
            mod = 'NB.' + prop_file[:-2].replace('/', '.')
            axs, out = print_assumptions(mod.replace('NB.', ''), theorems)
            if axs is None or len(axs) != len(theorems):
                self.broken_obligation('print-assumptions', (out or '')[-600:]); ok = False
            else:
                for t, a in zip(theorems, axs):
                    extra = [x for x in a if x.split('.')[-1] not in {y.split('.')[-1] for y in ALLOWED_AXIOMS}]
                    tb.append('%s: %s' % (t, 'closed under the global context' if not a else 'axioms ' + ', '.join(a)))
                    if extra:
                        self.broken_obligation('axiom:' + t, ', '.join(extra)); ok = False
        ck = getattr(self, 'coqchk', None)
        if ck is not None:
            self.cov['coqchk'] = ck
            tb.append('coqchk -o on the compiled closure: %s; axioms: %s' % ('modules successfully checked' if ck['ok'] else 'FAILED', ck.get('axioms')))
            if not ck['ok']:
                self.broken_obligation('coqchk', ck.get('tail', '')); ok = False
        self.cov['theorems'] = theorems
        self.cov['discharged'] = n if ok else max(0, n - len(self.broken))
        self.cov['trusted_base'] = tb
        return ok

    # --- finishing
    def finish(self, level='proof', assumptions=None, search_note=None):
        wall = time.time() - self.t0
        rc = 0
        os.makedirs(os.path.join(VERIF, 'replays'), exist_ok=True)
        lines = []
        for sig, cnt in sorted(self.known_hits.items()):
            f = [x for x in self.findings if x.get('signature') == sig][0]
            lines.append('KNOWN-FINDING: property=%s %s (%s; %d case(s) this run)' % (self.prop, sig, f.get('what', ''), cnt))
        seen = set()
        for sig, case, detail in self.violations:
            if sig in seen: continue
            seen.add(sig)
            body = {'property': self.prop, 'kind': 'failing-input', 'seed': self.seed, 'tier': self.tier,
                    'signature': sig, 'case': case, 'detail': detail,
                    'how_to_replay': 'bin/check %s --replay <this file>' % self.prop}
            h = hashlib.sha1(json.dumps(body, sort_keys=True, default=str).encode()).hexdigest()[:12]
            path = os.path.join(VERIF, 'replays', '%s-%s.json' % (self.prop, h))
            json.dump(body, open(path, 'w'), indent=1, default=str)
            lines.append('VIOLATION property=%s replay=%s' % (self.prop, path)); rc = 1
        if self.broken and not self.violations:
            body = {'property': self.prop, 'kind': 'broken-obligation', 'seed': self.seed, 'tier': self.tier,
                    'obligations': [{'name': n, 'detail': d} for n, d in self.broken],
                    'search': search_note or 'searched the implementation with the tier budget; no failing input found'}
            h = hashlib.sha1(json.dumps(body, sort_keys=True, default=str).encode()).hexdigest()[:12]
            path = os.path.join(VERIF, 'replays', '%s-%s.json' % (self.prop, h))
            json.dump(body, open(path, 'w'), indent=1, default=str)
            lines.append('VIOLATION property=%s replay=%s no-failing-input-found' % (self.prop, path)); rc = 1
        ev = {'property_id': self.prop, 'tier': self.tier, 'seed': self.seed, 'level': level,
              'coverage': self.cov, 'assumptions': (assumptions or []) + self.assumptions,
              'wall_s': round(wall, 2), 'violations': len(seen) + (1 if (self.broken and not self.violations) else 0),
              'known_findings_hit': self.known_hits, 'notes': self.notes}
        os.makedirs(os.path.join(VERIF, 'evidence'), exist_ok=True)
        json.dump(ev, open(os.path.join(VERIF, 'evidence', self.prop + '.json'), 'w'), indent=1, default=str)
        for l in lines: print(l)
        print('%s %s tier=%s seed=%d wall=%.1fs evaluations=%s obligations=%s/%s' % (
            'FAIL' if rc else 'PASS', self.prop, self.tier, self.seed, wall, self.cov.get('evaluations'),
            self.cov.get('discharged'), self.cov.get('obligations')))
        return rc

def shrink(case, still_fails, candidates, budget=200):
    """generic greedy shrinker: candidates(case) yields smaller cases"""
    steps = 0
    improved = True
    while improved and steps < budget:
        improved = False
        for c in candidates(case):
            steps += 1
            if steps > budget: break
            try:
                if still_fails(c):
                    case = c; improved = True; break
            except Exception:
                pass
    return case
