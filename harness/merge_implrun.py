"""Runs nbdime's merge (from PYTHONPATH) on a batch of tasks and records the heuristic oracles it consulted.
Invoked as:  /venv/bin/python merge_implrun.py <tasks.json> <results.json>
Ops:
  merge_json   base, local, remote, [strategies {table, transients}]
               -> ld, rd (nbdime.diff), decisions (decide_merge_with_diff), merged (apply_decisions), oracles
  merge_nb     base, local, remote, [args {merge_strategy, input_strategy, output_strategy, ignore_transients}]
               -> strategies (the table notebook_merge_strategies built), ld, rd (diff_notebooks), decisions, merged, oracles
  merge_diffs  base, ld, rd, [strategies]  -> ld, rd (as given), decisions, merged, oracles
  decide       base, ld, rd, [strategies]  -> decisions
  apply        base, decisions             -> merged
Each stage that raises is reported as {"err": class, "msg": ...} under that stage's key; later stages are skipped.
This file imports nothing from the rest of the harness, so that it sees only $NBDIME_REPO's nbdime."""
import sys, json, copy, types, traceback, logging

def clean(x):
    if isinstance(x, dict): return {k: clean(v) for k, v in x.items()}
    if isinstance(x, (list, tuple)): return [clean(v) for v in x]
    return x

class Recorder:
    def __init__(self):
        self.sim = {}; self.opcodes = {}; self.cell = {}; self.output = {}
    def reset(self):
        # the wrappers hold references to these dicts: clear them in place
        self.sim.clear(); self.opcodes.clear(); self.cell.clear(); self.output.clear()
    def dump(self):
        return {
            'sim': [[x, y, r] for (x, y), r in self.sim.items()],
            'opcodes': [[a, b, ops] for (a, b), ops in self.opcodes.items()],
            'cell': [[i, json.loads(x), json.loads(y), r] for (i, x, y), r in self.cell.items()],
            'output': [[i, json.loads(x), json.loads(y), r] for (i, x, y), r in self.output.items()],
        }

REC = Recorder()
TAGS = {'equal': 0, 'replace': 1, 'insert': 2, 'delete': 3}

def install_recorders():
    import nbdime.diffing.generic as G
    import nbdime.diffing.seq_difflib as SD
    import nbdime.diffing.notebooks as NB
    orig_sim = G.compare_strings_approximate
    def sim(x, y, *a, **kw):
        r = orig_sim(x, y, *a, **kw)
        if not a and not kw and isinstance(x, str) and isinstance(y, str):
            REC.sim[(x, y)] = bool(r)
        return r
    sim.__wrapped__ = orig_sim
    G.compare_strings_approximate = sim
    OrigSM = SD.SequenceMatcher
    class SM(OrigSM):
        def get_opcodes(self):
            ops = OrigSM.get_opcodes(self)
            if isinstance(self.a, str) and isinstance(self.b, str):
                REC.opcodes[(self.a, self.b)] = [[TAGS[t], a0, a1, b0, b1] for (t, a0, a1, b0, b1) in ops]
            return ops
    SD.SequenceMatcher = SM
    def wrap(table, fn, idx):
        def pred(x, y):
            r = fn(x, y)
            try:
                table[(idx, json.dumps(clean(x), sort_keys=True), json.dumps(clean(y), sort_keys=True))] = bool(r)
            except TypeError:
                pass
            return r
        pred.__wrapped__ = fn
        pred.__name__ = getattr(fn, '__name__', 'pred')
        return pred
    dv = NB.notebook_predicates.default_values
    for key, table in (('/cells', REC.cell), ('/cells/*/outputs', REC.output)):
        lst = dv.get(key)
        if lst is not None:
            for i, fn in enumerate(list(lst)):
                if not hasattr(fn, '__wrapped__'):
                    lst[i] = wrap(table, fn, i)

def exc_info(e):
    return {'err': type(e).__name__, 'msg': str(e)[:300], 'tb': traceback.format_exc(limit=-5)[-1800:]}

def mk_strategies(s):
    from nbdime.utils import Strategies
    if not s: return Strategies({})
    return Strategies(dict(s.get('table', {})), transients=list(s.get('transients', [])))

def mk_args(a):
    if a is None: return None
    return types.SimpleNamespace(merge_strategy=a.get('merge_strategy', 'inline'), input_strategy=a.get('input_strategy'),
                                 output_strategy=a.get('output_strategy'), ignore_transients=a.get('ignore_transients', True),
                                 log_level='INFO')

def dump_strategies(st):
    return {'table': {k: v for k, v in dict.items(st) if isinstance(v, str)}, 'transients': list(getattr(st, 'transients', []))}

def decisions_json(ds):
    out = []
    for d in ds:
        out.append(clean(dict(d)))
    return out

def to_decisions(js):
    from nbdime.merging.decisions import MergeDecision
    from nbdime.diff_utils import to_diffentry_dicts
    out = []
    for d in js:
        d = copy.deepcopy(d)
        md = MergeDecision(
            common_path=tuple(d.pop('common_path')), action=d.pop('action'), conflict=d.pop('conflict'),
            local_diff=to_diffentry_dicts(d.pop('local_diff', None)), remote_diff=to_diffentry_dicts(d.pop('remote_diff', None)))
        for k, v in d.items():
            md[k] = to_diffentry_dicts(v) if k.endswith('_diff') or k == 'similar_insert' else v
        out.append(md)
    return out

def stage_merge(res, base, ld, rd, strategies, nb):
    """decide + apply on fresh copies; fills res"""
    from nbdime.merging.generic import decide_merge_with_diff
    from nbdime.merging.decisions import apply_decisions
    try:
        ds = decide_merge_with_diff(base, None, None, ld, rd, strategies)
    except Exception as e:
        res['decisions'] = exc_info(e); return
    dj = decisions_json(ds)
    res['decisions'] = {'ok': dj}
    try:
        b2 = copy.deepcopy(base)
        m = apply_decisions(b2, ds)
        res['merged'] = {'ok': clean(m)}
    except Exception as e:
        res['merged'] = exc_info(e)
    # the decision list is a value: applying it must not change it, and applying it again must give the same document
    try:
        res['decisions_after'] = decisions_json(ds)
        res['merged_again'] = {'ok': clean(apply_decisions(copy.deepcopy(base), ds))}
    except Exception as e:
        res['merged_again'] = exc_info(e)

def as_nb(x):
    import nbformat
    return nbformat.from_dict(copy.deepcopy(x))

def run_task(t):
    import nbdime
    from nbdime.diff_utils import to_diffentry_dicts
    op = t['op']
    REC.reset()
    res = {}
    if op == 'merge_json':
        base, local, remote = copy.deepcopy(t['base']), copy.deepcopy(t['local']), copy.deepcopy(t['remote'])
        try:
            ld = nbdime.diff(base, local); rd = nbdime.diff(base, remote)
        except Exception as e:
            res['diff'] = exc_info(e); return res
        res['ld'] = clean(ld); res['rd'] = clean(rd)
        stage_merge(res, base, ld, rd, mk_strategies(t.get('strategies')), False)
        res['oracles'] = REC.dump()
        return res
    if op == 'merge_nb':
        from nbdime.merging.notebooks import notebook_merge_strategies
        from nbdime.diffing.notebooks import diff_notebooks
        base, local, remote = as_nb(t['base']), as_nb(t['local']), as_nb(t['remote'])
        st = notebook_merge_strategies(mk_args(t.get('args')))
        res['strategies'] = dump_strategies(st)
        try:
            ld = diff_notebooks(base, local); rd = diff_notebooks(base, remote)
        except Exception as e:
            res['diff'] = exc_info(e); return res
        res['ld'] = clean(ld); res['rd'] = clean(rd)
        stage_merge(res, base, ld, rd, st, True)
        res['oracles'] = REC.dump()
        return res
    if op == 'merge_diffs':
        # the two diffs are GIVEN (by-construction diffs of generic JSON whose list items are patched: nbdime.diff never
        # patches an item of a generic list, it removes and re-adds it); decide + apply as for merge_json
        base = copy.deepcopy(t['base'])
        ld = to_diffentry_dicts(copy.deepcopy(t['ld'])); rd = to_diffentry_dicts(copy.deepcopy(t['rd']))
        res['ld'] = clean(ld); res['rd'] = clean(rd)
        stage_merge(res, base, ld, rd, mk_strategies(t.get('strategies')), False)
        res['oracles'] = REC.dump()
        return res
    if op == 'decide':
        from nbdime.merging.generic import decide_merge_with_diff
        base = copy.deepcopy(t['base'])
        ld = to_diffentry_dicts(copy.deepcopy(t['ld'])); rd = to_diffentry_dicts(copy.deepcopy(t['rd']))
        try:
            ds = decide_merge_with_diff(base, None, None, ld, rd, mk_strategies(t.get('strategies')))
            res['decisions'] = {'ok': decisions_json(ds)}
        except Exception as e:
            res['decisions'] = exc_info(e)
        res['oracles'] = REC.dump()
        return res
    if op == 'apply':
        from nbdime.merging.decisions import apply_decisions
        base = copy.deepcopy(t['base'])
        try:
            res['merged'] = {'ok': clean(apply_decisions(base, to_decisions(t['decisions'])))}
        except Exception as e:
            res['merged'] = exc_info(e)
        return res
    if op == 'cli_strategies':
        import nbdime.merging.notebooks as MN
        return {'merge': list(MN.cli_conflict_strategies), 'input': list(MN.cli_conflict_strategies_input),
                'output': list(MN.cli_conflict_strategies_output), 'generic': list(MN.generic_conflict_strategies)}
    raise ValueError('unknown op ' + op)

def main():
    tasks = json.load(open(sys.argv[1]))
    logging.disable(logging.CRITICAL)
    install_recorders()
    results = []
    for t in tasks:
        try:
            results.append(run_task(t))
        except Exception as e:
            results.append({'crash': exc_info(e)})
    json.dump(results, open(sys.argv[2], 'w'))

if __name__ == '__main__':
    main()
