// Stand-in for @lumino/coreutils: only JSONExt.deepCopy / deepEqual / isPrimitive / isArray / isObject are reached at
// run time by the modules the C15 check loads.  deepCopy follows the lumino implementation (own enumerable keys,
// undefined values skipped).
function isPrimitive(v) { return v === null || typeof v === 'boolean' || typeof v === 'number' || typeof v === 'string'; }
function deepCopy(value) {
  if (isPrimitive(value)) return value;
  if (Array.isArray(value)) { const r = new Array(value.length); for (let i = 0; i < value.length; ++i) r[i] = deepCopy(value[i]); return r; }
  const result = {};
  for (const key in value) { const sub = value[key]; if (sub === undefined) continue; result[key] = deepCopy(sub); }
  return result;
}
function deepEqual(a, b) {
  if (a === b) return true;
  if (isPrimitive(a) || isPrimitive(b)) return false;
  const a1 = Array.isArray(a), b1 = Array.isArray(b);
  if (a1 !== b1) return false;
  if (a1) { if (a.length !== b.length) return false; for (let i = 0; i < a.length; ++i) if (!deepEqual(a[i], b[i])) return false; return true; }
  for (const k in a) if (a[k] !== undefined && !(k in b)) return false;
  for (const k in b) if (b[k] !== undefined && !(k in a)) return false;
  for (const k in a) { const x = a[k], y = b[k]; if (x === undefined && y === undefined) continue; if (x === undefined || y === undefined) return false; if (!deepEqual(x, y)) return false; }
  return true;
}
export const JSONExt = { deepCopy, deepEqual, isPrimitive, isArray: Array.isArray, isObject: (v) => !isPrimitive(v) && !Array.isArray(v), emptyObject: Object.freeze({}), emptyArray: Object.freeze([]) };
