"""C19 helpers executed INSIDE /venv/bin/python with PYTHONPATH=$NBDIME_REPO (never imported by the harness process).

* install_stubs(): minimal stand-ins for the uninstalled jupyter_server / jinja2 packages so that the web entry points'
  modules import (only their argument parsers are ever used here).
* capture(ep, argv): runs the REAL main() of an entry point with sys.argv[0] = <entry point name>, intercepts the
  top-level ArgumentParser.parse_args call (records the namespace, then aborts main) and records the mapping that
  ConfigBackedParser hands to set_notebook_diff_ignores.  Nothing else of nbdime is patched.
"""
import sys, os, types, json, argparse, io

EP_MAIN = {
    # entry point: (module, function, argv prefix (subcommand), positional arguments)
    'nbdiff':            ('nbdime.nbdiffapp', 'main', [], []),
    'nbdiff-web':        ('nbdime.webapp.nbdiffweb', 'main', [], []),
    'nbmerge':           ('nbdime.nbmergeapp', 'main', [], ['b.ipynb', 'l.ipynb', 'r.ipynb']),
    'nbmerge-web':       ('nbdime.webapp.nbmergeweb', 'main', [], ['b.ipynb', 'l.ipynb', 'r.ipynb']),
    'nbshow':            ('nbdime.nbshowapp', 'main', [], []),
    'server':            ('nbdime.webapp.nbdimeserver', 'main', [], []),
    'git-nbdiffdriver':  ('nbdime.vcs.git.diffdriver', 'main', ['diff'], ['p.ipynb']),
    'git-nbdifftool':    ('nbdime.vcs.git.difftool', 'main', ['diff'], ['l.ipynb', 'r.ipynb', 'p.ipynb']),
    'git-nbmergedriver': ('nbdime.vcs.git.mergedriver', 'main', ['merge'], ['b.ipynb', 'l.ipynb', 'r.ipynb', '7']),
    'git-nbmergetool':   ('nbdime.vcs.git.mergetool', 'main', ['merge'], ['b.ipynb', 'l.ipynb', 'r.ipynb', 'm.ipynb']),
}


def install_stubs():
    def mod(name, pkg=False):
        m = types.ModuleType(name)
        if pkg: m.__path__ = []
        sys.modules[name] = m
        return m
    try:
        import jupyter_server.base.handlers  # noqa
    except Exception:
        import tornado.web
        js = mod('jupyter_server', True); base = mod('jupyter_server.base', True)
        h = mod('jupyter_server.base.handlers'); u = mod('jupyter_server.utils'); lg = mod('jupyter_server.log')
        js.base = base; base.handlers = h; js.utils = u; js.log = lg
        class JupyterHandler(tornado.web.RequestHandler):
            pass
        class APIHandler(JupyterHandler):
            pass
        h.JupyterHandler = JupyterHandler; h.APIHandler = APIHandler
        u.url_path_join = lambda *p: '/'.join(s.strip('/') for s in p)
        lg.log_request = lambda handler: None
    try:
        import jinja2  # noqa
    except Exception:
        j2 = mod('jinja2')
        class Environment:
            def __init__(self, *a, **k): pass
        class FileSystemLoader:
            def __init__(self, *a, **k): pass
        j2.Environment = Environment; j2.FileSystemLoader = FileSystemLoader


class _Stop(BaseException):
    pass


def plain(v):
    """JSON-able rendering of a namespace value (functions etc. by name)."""
    if v is None or isinstance(v, (bool, int, str)): return v
    if isinstance(v, float): return {'__float__': repr(v)}
    if isinstance(v, (list, tuple)): return [plain(x) for x in v]
    if isinstance(v, dict): return {str(k): plain(x) for k, x in v.items()}
    return {'__obj__': getattr(v, '__name__', type(v).__name__)}


def capture(ep, argv, pre=()):
    """Returns {'ns': {...}, 'ignore': {...}|None} or {'err': kind, 'msg': ...}."""
    import importlib
    modname, fn, prefix, positional = EP_MAIN[ep]
    import nbdime.args as A
    module = importlib.import_module(modname)
    seen = {}
    installed = []
    orig_parse = argparse.ArgumentParser.parse_args
    orig_set = A.set_notebook_diff_ignores
    def parse_args(self, args=None, namespace=None):
        ns = orig_parse(self, args, namespace)
        seen['ns'] = ns
        raise _Stop()
    old = (sys.argv, sys.stdout, sys.stderr)
    sys.argv = [ep]
    sys.stderr = io.StringIO()
    argparse.ArgumentParser.parse_args = parse_args
    A.set_notebook_diff_ignores = lambda ignore: installed.append(plain(ignore))
    try:
        try:
            getattr(module, fn)(list(pre) + list(prefix) + list(argv) + list(positional))
        except _Stop:
            pass
        except SystemExit as e:
            return {'err': 'SystemExit', 'msg': str(e.code) + ' ' + sys.stderr.getvalue()[-300:]}
        except Exception as e:
            return {'err': type(e).__name__, 'msg': str(e)[:300]}
    finally:
        argparse.ArgumentParser.parse_args = orig_parse
        A.set_notebook_diff_ignores = orig_set
        sys.argv, sys.stdout, sys.stderr = old
    if 'ns' not in seen:
        return {'err': 'NoParse', 'msg': 'main() returned without calling parse_args'}
    return {'ns': {k: plain(v) for k, v in vars(seen['ns']).items()},
            'ignore': installed[-1] if installed else None, 'ignore_calls': len(installed)}
