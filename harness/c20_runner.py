"""C20 implementation runner: executed by /venv/bin/python with PYTHONPATH=$NBDIME_REPO.

    c20_runner.py TASKS.json RESULTS.json

Imports nbdime's real web handlers (nbdime.webapp.nbdimeserver) behind ~40 lines of stub modules for the
uninstalled jupyter_server / jinja2 packages, then handles every task in a FORKED child so that each task sees
the process state of a freshly imported nbdime (nothing nbdime-related is ever executed in the parent).

Tasks:
  {'op':'serve', 'start':{...}, 'files':{rel: spec}, 'requests':[...]}
      starts the real main_server(**params) (ephemeral port, 127.0.0.1) in <root>/work, plays the requests one
      after the other over HTTP and returns, per request, status / body / directory changes (snapshot of the
      whole <root>: names, kinds, sizes, sha1) and whether nbdime stopped the IO loop, plus main_server's return
      value.  The string {ROOT} in params, file names and request texts stands for the scratch root.
      With start['entry'] = {'module': 'nbmergeweb'|'nbdiffweb'|'nbmergetool'|'nbdifftool'|'nbdimeserver', 'argv': [...]}
      the server is instead started by main(argv) of that real console entry module (no browser; start['params'] unused).
  {'op':'lib_diff', 'base':text, 'remote':text}         nbdime.diff_notebooks on nbformat.reads(text)
  {'op':'lib_merge', 'base':..,'local':..,'remote':..}  decide_notebook_merge with the 'mergetool' strategy
  {'op':'nbread', 'text': text, 'kind':...}             nbformat only (no nbdime): how nbformat.reads classifies text
  {'op':'nbser', 'merged': json}                        nbformat only: from_dict + writes
"""
import sys, os, json, types, logging, tempfile, shutil, hashlib, base64, signal, traceback, io


def install_stubs():
    import tornado.web
    log = logging.getLogger('c20stub')
    log.addHandler(logging.NullHandler()); log.propagate = False

    def mod(name, pkg=False):
        m = types.ModuleType(name)
        if pkg: m.__path__ = []
        sys.modules[name] = m
        return m
    js = mod('jupyter_server', True)
    base = mod('jupyter_server.base', True)
    h = mod('jupyter_server.base.handlers')
    u = mod('jupyter_server.utils')
    lg = mod('jupyter_server.log')
    js.base = base; base.handlers = h; js.utils = u; js.log = lg

    class JupyterHandler(tornado.web.RequestHandler):
        @property
        def log(self): return log
        @property
        def base_url(self): return self.settings.get('base_url', '/')
        def render_template(self, name, **ns):
            return 'TEMPLATE %s %s' % (name, json.dumps(ns, sort_keys=True, default=str))
        def check_xsrf_cookie(self): return None

    class APIHandler(JupyterHandler):
        pass
    h.JupyterHandler = JupyterHandler; h.APIHandler = APIHandler

    def url_path_join(*pieces):
        initial = pieces[0].startswith('/'); final = pieces[-1].endswith('/')
        stripped = [s.strip('/') for s in pieces]
        result = '/'.join(s for s in stripped if s)
        if initial: result = '/' + result
        if final: result = result + '/'
        if result == '//': result = '/'
        return result
    u.url_path_join = url_path_join
    lg.log_request = lambda handler: None

    j2 = mod('jinja2')
    class Environment:
        def __init__(self, *a, **k): pass
    class FileSystemLoader:
        def __init__(self, *a, **k): pass
    j2.Environment = Environment; j2.FileSystemLoader = FileSystemLoader


def sub_root(x, root):
    if isinstance(x, str): return x.replace('{ROOT}', root)
    if isinstance(x, list): return [sub_root(y, root) for y in x]
    if isinstance(x, dict): return {sub_root(k, root): sub_root(v, root) for k, v in x.items()}
    return x


def unsub_root(x, root):
    if isinstance(x, str): return x.replace(root, '{ROOT}')
    if isinstance(x, list): return [unsub_root(y, root) for y in x]
    if isinstance(x, dict): return {unsub_root(k, root): unsub_root(v, root) for k, v in x.items()}
    return x


def snapshot(root):
    """{relpath: ['d'] | ['l', target] | ['f', size, sha1]} of everything below root except the sandbox home."""
    out = {}
    for dp, dns, fns in os.walk(root):
        rel = os.path.relpath(dp, root)
        if rel == 'home' or rel.startswith('home' + os.sep):
            dns[:] = []; continue
        for d in list(dns):
            p = os.path.join(dp, d)
            r = os.path.relpath(p, root)
            if os.path.islink(p):
                out[r] = ['l', os.readlink(p)]
            elif r != 'home':
                out[r] = ['d']
        for f in fns:
            p = os.path.join(dp, f); r = os.path.relpath(p, root)
            if os.path.islink(p):
                out[r] = ['l', os.readlink(p)]
            else:
                try:
                    b = open(p, 'rb').read()
                    out[r] = ['f', len(b), hashlib.sha1(b).hexdigest()]
                except OSError as e:
                    out[r] = ['?', type(e).__name__]
    return out


def write_files(root, files):
    for rel in sorted(files):
        spec = files[rel]
        p = os.path.join(root, rel)
        if 'dir' in spec:
            os.makedirs(p, exist_ok=True)
        elif 'link' in spec:
            os.makedirs(os.path.dirname(p), exist_ok=True)
            os.symlink(spec['link'], p)
        else:
            os.makedirs(os.path.dirname(p), exist_ok=True)
            data = base64.b64decode(spec['b64']) if 'b64' in spec else spec['t'].encode('utf-8')
            with open(p, 'wb') as f: f.write(data)


def file_payload(p):
    b = open(p, 'rb').read()
    try:
        return {'t': b.decode('utf-8')}
    except UnicodeDecodeError:
        return {'b64': base64.b64encode(b).decode('ascii')}


def do_serve(task):
    import tornado.ioloop, tornado.httpclient, tornado.httputil
    import requests as _requests
    root = tempfile.mkdtemp(prefix='nbv_c20_')
    root = os.path.realpath(root)
    res = {'trace': [], 'stopped_by_server': False, 'exit_code': None}
    try:
        for d in ('work', 'bait', 'home'):
            os.makedirs(os.path.join(root, d))
        home = os.path.join(root, 'home')
        os.environ.update({'HOME': home, 'XDG_CONFIG_HOME': home, 'JUPYTER_CONFIG_DIR': os.path.join(home, 'jcfg'),
                           'JUPYTER_CONFIG_PATH': os.path.join(home, 'jcfgp'), 'JUPYTER_DATA_DIR': os.path.join(home, 'jdata'),
                           'JUPYTER_RUNTIME_DIR': os.path.join(home, 'jrun'), 'JUPYTER_NO_CONFIG': '1',
                           'GIT_CONFIG_GLOBAL': os.path.join(home, 'gitconfig'), 'GIT_CONFIG_NOSYSTEM': '1'})
        for k in ('http_proxy', 'https_proxy', 'HTTP_PROXY', 'HTTPS_PROXY'): os.environ.pop(k, None)
        write_files(root, sub_root(task.get('files', {}), root))
        start = sub_root(task['start'], root)
        os.chdir(os.path.join(root, start.get('chdir', 'work')))

        # no network: every URL fetch fails the way an unreachable host does
        def no_get(url, *a, **k):
            raise _requests.exceptions.ConnectionError('network disabled by the C20 harness: %r' % (url,))
        _requests.get = no_get

        from nbdime.webapp import nbdimeserver
        logging.getLogger('nbdime').setLevel(logging.CRITICAL + 1)
        logging.getLogger('tornado').setLevel(logging.CRITICAL + 1)
        logging.getLogger('nbdime.webapp.nbdimeserver').setLevel(logging.CRITICAL + 1)

        reqs = sub_root(task['requests'], root)
        state = {'harness_stop': False, 'returned': False, 'done': None}
        io_loop = tornado.ioloop.IOLoop.current()

        async def client(port):
            cl = tornado.httpclient.AsyncHTTPClient(force_instance=True)
            try:
                for i, rq in enumerate(reqs):
                    if state['returned']:
                        break
                    pre = snapshot(root)
                    url = 'http://127.0.0.1:%d%s' % (port, rq['path'])
                    if rq.get('query'): url += '?' + rq['query']
                    body = None
                    if rq['method'] not in ('GET', 'HEAD'):
                        body = base64.b64decode(rq['body_b64']) if 'body_b64' in rq else rq.get('body', '').encode('utf-8')
                    hdrs = dict(rq.get('headers') or {})
                    if body is not None and 'Content-Type' not in hdrs:
                        hdrs['Content-Type'] = 'application/json'
                    hr = tornado.httpclient.HTTPRequest(url, method=rq['method'], headers=hdrs, body=body,
                                                        request_timeout=60, connect_timeout=20, follow_redirects=False,
                                                        allow_nonstandard_methods=True)
                    try:
                        resp = await cl.fetch(hr, raise_error=False)
                        code = resp.code; rbody = resp.body or b''
                        ctype = resp.headers.get('Content-Type', '') if resp.headers else ''
                    except Exception as e:          # connection level failure
                        code = 599; rbody = repr(e).encode(); ctype = ''
                    post = snapshot(root)
                    changed = sorted(k for k in set(pre) | set(post) if pre.get(k) != post.get(k))
                    ent = {'status': code, 'changed': changed, 'ctype': ctype.split(';')[0],
                           'changed_now': {k: (post.get(k) and (file_payload(os.path.join(root, k)) if post[k][0] == 'f' else {'kind': post[k][0]})) for k in changed}}
                    try:
                        ent['json'] = json.loads(rbody.decode('utf-8')) if 'json' in ctype else None
                    except Exception:
                        ent['json'] = None
                    if ent['json'] is None:
                        ent['text'] = rbody.decode('utf-8', 'replace')[:300]
                    res['trace'].append(ent)
            finally:
                cl.close()
            if not state['returned']:
                state['harness_stop'] = True
                io_loop.stop()

        def on_port(port):
            state['done'] = tornado.ioloop.IOLoop.current().asyncio_loop.create_task(client(port))

        start_kwargs = dict(start['params'])
        # diff-tool arguments may be open streams (what nbdiff-web <ref> <ref> passes: gitfiles.BlobWrapper, or an
        # open file of the working tree) instead of file names
        if isinstance(start_kwargs.get('difftool_args'), dict):
            class Blob(io.StringIO):
                name = None
            conv = {}
            for k, a in start_kwargs['difftool_args'].items():
                if isinstance(a, dict) and 'stream_text' in a:
                    f = Blob(a['stream_text']); f.name = a.get('name', k); conv[k] = f
                elif isinstance(a, dict) and 'stream_file' in a:
                    conv[k] = io.open(os.path.join(root, a['stream_file']), encoding='utf-8')
                else:
                    conv[k] = a
            start_kwargs['difftool_args'] = conv
        closable = start_kwargs.pop('closable', None)
        entry = start.get('entry')
        try:
            if entry is not None:
                # the session is started the way a user starts it: main(argv) of the real console entry module.  start['params']
                # is NOT used here (it is the harness's reading of the command line, for the oracle).  No browser is opened, and
                # init_app is wrapped only to learn the port (the entry point's own on_port callback still runs first).
                import importlib, webbrowser
                def no_browser(*a, **k):
                    raise webbrowser.Error('no browser in the C20 rig')
                webbrowser.get = no_browser
                real_init_app = nbdimeserver.init_app
                def init_app(on_port_=None, closable=False, **params):
                    def both(port):
                        if on_port_ is not None:
                            try: on_port_(port)
                            except Exception as e: res['on_port_error'] = repr(e)[:300]
                        on_port(port)
                    return real_init_app(both, closable, **params)
                nbdimeserver.init_app = init_app
                if entry['module'] not in ('nbdimeserver', 'nbdiffweb', 'nbmergeweb', 'nbdifftool', 'nbmergetool'):
                    raise ValueError('unknown entry module %r' % (entry['module'],))
                emod = importlib.import_module('nbdime.webapp.' + entry['module'])
                rc = emod.main([str(a) for a in entry['argv']])
            elif closable is None:
                rc = nbdimeserver.main_server(on_port=on_port, **start_kwargs)
            else:
                rc = nbdimeserver.main_server(on_port=on_port, closable=closable, **start_kwargs)
        except BaseException as e:
            res['startup_error'] = type(e).__name__ + ': ' + str(e)[:300]
            rc = None
        state['returned'] = True
        res['stopped_by_server'] = not state['harness_stop'] and 'startup_error' not in res
        res['exit_code'] = rc if isinstance(rc, (int, float, str, bool, list, dict)) or rc is None else repr(rc)
        res['exit_code_type'] = type(rc).__name__
        if res['stopped_by_server'] and state['done'] is not None and not state['done'].done():
            # let the in-flight response (the request that made the server stop) reach the client
            async def waiter():
                await state['done']
            try:
                io_loop.run_sync(waiter, timeout=20)
            except Exception as e:
                res['drain_error'] = repr(e)
        res['final'] = snapshot(root)
        return unsub_root(res, root)
    finally:
        os.chdir('/')
        shutil.rmtree(root, ignore_errors=True)


def _nb_from_text(text):
    import nbformat
    return nbformat.reads(text, as_version=4)


def do_lib_diff(task):
    from nbdime.diffing.notebooks import diff_notebooks
    b = _nb_from_text(task['base']); r = _nb_from_text(task['remote'])
    d = diff_notebooks(b, r)
    return {'ok': json.loads(json.dumps(d))}


def do_lib_merge(task):
    from nbdime.merging.notebooks import decide_notebook_merge
    from nbdime.nbmergeapp import _build_arg_parser
    home = tempfile.mkdtemp(prefix='nbv_c20h_')
    try:
        os.environ.update({'HOME': home, 'XDG_CONFIG_HOME': home, 'JUPYTER_CONFIG_DIR': os.path.join(home, 'jcfg'),
                           'JUPYTER_CONFIG_PATH': os.path.join(home, 'jcfgp'), 'JUPYTER_NO_CONFIG': '1'})
        os.chdir(home)
        args = _build_arg_parser().parse_args(['', '', ''])
        args.merge_strategy = 'mergetool'
        b = _nb_from_text(task['base']); l = _nb_from_text(task['local']); r = _nb_from_text(task['remote'])
        dec = decide_notebook_merge(b, l, r, args=args)
        return {'ok': json.loads(json.dumps(dec))}
    finally:
        os.chdir('/')
        shutil.rmtree(home, ignore_errors=True)


def do_nbread(task):
    """nbformat only.  Classifies a file text the way the handler's reader sees it."""
    import nbformat
    try:
        nb = nbformat.reads(task['text'], as_version=4)
        return {'ok': json.loads(json.dumps(nb))}
    except nbformat.reader.NotJSONError:
        return {'notjson': True}
    except Exception as e:
        return {'fail': type(e).__name__}


def do_nbser(task):
    """nbformat only.  from_dict + writes: the text nbformat.write would put into a file, or failure."""
    import nbformat
    try:
        nb = nbformat.from_dict(task['merged'])
        s = nbformat.writes(nb)
        if not s.endswith('\n'): s += '\n'       # nbformat.write appends the final newline
        return {'ok': s}
    except Exception as e:
        return {'fail': type(e).__name__}


def do_newnb(task):
    import nbformat
    return {'ok': json.loads(json.dumps(nbformat.v4.new_notebook()))}


OPS = {'newnb': do_newnb, 'serve': do_serve, 'lib_diff': do_lib_diff, 'lib_merge': do_lib_merge, 'nbread': do_nbread, 'nbser': do_nbser}


def run_forked(task, timeout=120):
    r, w = os.pipe()
    pid = os.fork()
    if pid == 0:
        os.close(r)
        try:
            try:
                devnull = os.open(os.devnull, os.O_WRONLY)
                os.dup2(devnull, 2)
                out = OPS[task['op']](task)
            except BaseException as e:
                out = {'err': type(e).__name__, 'msg': (str(e) + '\n' + traceback.format_exc())[-1500:]}
            data = json.dumps(out, default=repr).encode()
            with os.fdopen(w, 'wb') as f:
                f.write(data)
        finally:
            os._exit(0)
    os.close(w)

    def on_alarm(signum, frame):
        raise TimeoutError()
    old = signal.signal(signal.SIGALRM, on_alarm)
    signal.alarm(timeout)
    try:
        with os.fdopen(r, 'rb') as f:
            data = f.read()
        os.waitpid(pid, 0)
        signal.alarm(0)
        return json.loads(data.decode()) if data else {'err': 'HarnessCrash', 'msg': 'child produced no output'}
    except TimeoutError:
        try:
            os.kill(pid, signal.SIGKILL); os.waitpid(pid, 0)
        except OSError:
            pass
        return {'err': 'HarnessTimeout', 'msg': 'task exceeded %ds' % timeout}
    finally:
        signal.alarm(0)
        signal.signal(signal.SIGALRM, old)


def main():
    tasks = json.load(open(sys.argv[1]))
    install_stubs()
    import nbformat                                   # imported and warmed up before forking (validator and schema caches are
    try:                                              # nbformat's, not nbdime's): children then start from a warm nbformat
        _w = nbformat.v4.new_notebook(cells=[nbformat.v4.new_code_cell('x'), nbformat.v4.new_markdown_cell('y')])
        for _minor in (2, 4, 5):
            _w['nbformat_minor'] = _minor
            try: nbformat.reads(nbformat.writes(_w), as_version=4)
            except Exception: pass
    except Exception:
        pass
    import_error = None
    try:
        import nbdime.webapp.nbdimeserver             # noqa: F401  import only; never executed in the parent
        import nbdime.nbmergeapp                      # noqa: F401
    except BaseException as e:
        import_error = type(e).__name__ + ': ' + str(e)[:500]
    out = []
    for t in tasks:
        if import_error and t['op'] in ('serve', 'lib_diff', 'lib_merge'):
            out.append({'err': 'ImportError', 'msg': import_error}); continue
        out.append(run_forked(t))
    json.dump(out, open(sys.argv[2], 'w'))


if __name__ == '__main__':
    main()
