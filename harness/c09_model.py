"""placeholder"""
def run(chk, tier):
    return {'sortkey_cases': 0}
