"""Ties of the C09 Coq models with the implementation:
 * Merge/SortKey.v (sort_key / sk_cmp / sort_desc, on which Props/C09.v order_deeper_first is proved) against
   sorted(decisions, key=_sort_key, reverse=True) of nbdime/merging/decisions.py on generated path lists (ints, names,
   numeric strings, empty strings, duplicates -- stability is observable through the returned index order);
 * Gen/Actions.v py_emitted against the actions actually observed in the decisions of the run (observed must be a
   subset of what the translator found in the sources)."""
import os, re, subprocess, tempfile, shutil
import core, c04_coq

HEADER = ('From Coq Require Import List NArith ZArith String.\n'
          'From NB Require Import Base.Json Diff.DiffFormat Diff.Codec Merge.SortKey.\n'
          'Import ListNotations.\nLocal Open Scope string_scope.\n')
NAMES = ['cells', 'metadata', 'source', 'outputs', 'data', 'text/plain', 'a', 'b', '', '0', '3', '10', '-1', '+2', '7\n', 'x1', 'cell']


def gen_paths(r):
    n = r.choice([1, 2, 3, 5, 8])
    out = []
    for _ in range(n):
        p = []
        for _ in range(r.choice([0, 1, 2, 2, 3, 4])):
            p.append(r.randint(0, 12) if r.random() < 0.45 else r.choice(NAMES))
        out.append(p)
    if out and r.random() < 0.4: out.append(list(r.choice(out)))          # duplicate path: stability
    if out and r.random() < 0.5: out.append(list(r.choice(out)) + [r.randint(0, 3)])   # an extension of an existing path
    r.shuffle(out)
    return out


def coq_path(p):
    return '[' + '; '.join(('KI %d' % k) if isinstance(k, int) else ('KS %s' % c04_coq.coq_str(k)) for k in p) + ']'


def run(chk, tier):
    try:
        return _run(chk, tier)
    except Exception as e:
        import traceback
        chk.broken_obligation('correspondence:sortkey-harness-exception', traceback.format_exc()[-900:])
        return {'sortkey_cases': 0}


def _run(chk, tier):
    r = chk.rng
    n = 150 if tier == 'quick' else 1500
    cases = [gen_paths(r) for _ in range(n)]
    from props import c04 as c04mod
    res = c04mod.run_tasks([{'op': 'render', 'f': 'vocabulary', 'paths': c} for c in cases])
    exprs = ['map fst (sort_desc (fun d : nat * path => sort_key (snd d)) [%s])' % '; '.join('(%d, %s)' % (i, coq_path(p)) for i, p in enumerate(c)) for c in cases]
    d = tempfile.mkdtemp(prefix='nbv_sk_')
    try:
        f = os.path.join(d, 'sk_cases.v')
        open(f, 'w').write(HEADER + ''.join('Eval vm_compute in %s.\n' % e for e in exprs))
        p = subprocess.run(['timeout', '600', 'coqc', '-Q', c04_coq.COQ, 'NB', f], capture_output=True, text=True, cwd=d)
    finally:
        shutil.rmtree(d, ignore_errors=True)
    if p.returncode != 0:
        chk.broken_obligation('correspondence:sortkey-run', (p.stderr + p.stdout)[-900:])
        return {'sortkey_cases': 0}
    outs = [[int(x) for x in m.group(1).replace('\n', ' ').split(';') if x.strip()] for m in re.finditer(r'=\s*\[([^\]]*)\]\s*:\s*list nat', p.stdout)]
    mism = 0
    if len(outs) != len(cases):
        chk.broken_obligation('correspondence:sortkey-run', 'result count mismatch %d/%d' % (len(outs), len(cases)))
        return {'sortkey_cases': 0}
    for c, x, o in zip(cases, res, outs):
        if x.get('ok') != o:
            mism += 1
            if mism <= 3: chk.broken_obligation('correspondence:sort-order', {'paths': c, 'implementation_order': x.get('ok', x), 'model_order': o})
    return {'sortkey_cases': len(cases), 'sortkey_mismatches': mism}


def py_emitted():
    """the action vocabulary the translator tools/gen/gen_actions.py found in the Python sources"""
    txt = open(os.path.join(core.COQ, 'Gen', 'Actions.v')).read()
    m = re.search(r'Definition py_emitted : list pystr := \[(.*?)\]\.', txt, re.S)
    if not m: return None
    return re.findall(r'of_ascii "([^"]*)"', m.group(1))
