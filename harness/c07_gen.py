"""C07 generators (harness side, no nbdime): texts for the renderer tie and notebook triples whose edits are
about SOURCE LINES (rewrites of the same line on both sides, appends without trailing newline, delete-vs-edit with
transient changes, concurrent cell inserts/replacements ...).  All randomness from the Random passed in."""
import copy, itertools

ALPHA = ['a', 'b', 'c']

def small_texts(max_lines, alphabet=ALPHA):
    """every text of <= max_lines lines over the alphabet, with and without final newline"""
    out = ['']
    for n in range(1, max_lines + 1):
        for ls in itertools.product(alphabet, repeat=n):
            out.append('\n'.join(ls) + '\n')
            out.append('\n'.join(ls))
    return out

TERMS = ['\n', '\n', '\n', '\n', '\r\n', '\r', '\x0c', chr(0x2028), '\x85', '\x1c']
POOL = ['a', 'b', 'c', 'x = 1', 'y = 2', '', ' ', '    pass', '=======', '<<<<<<< local', '# t', '\t', 'a ', 'b\t']

def rand_text(r, exotic=True, maxlines=6):
    n = r.choice([0, 1, 1, 2, 2, 3, 3, 4, 5, maxlines])
    parts = []
    for i in range(n):
        parts.append(r.choice(POOL if exotic else ALPHA))
        if i < n - 1 or r.random() < 0.6:
            parts.append(r.choice(TERMS) if exotic else '\n')
    return ''.join(parts)

def rand_edit_text(r, s, exotic=True):
    """a text derived from s by a few line edits (so that the three texts share structure)"""
    ls = s.splitlines(True)
    for _ in range(r.choice([1, 1, 2, 3])):
        k = r.random()
        t = r.choice(TERMS) if exotic else '\n'
        if k < 0.35 and ls:
            i = r.randrange(len(ls)); ls[i] = r.choice(POOL if exotic else ALPHA) + t
        elif k < 0.65:
            i = r.randrange(len(ls) + 1); ls.insert(i, r.choice(POOL if exotic else ALPHA) + t)
        elif k < 0.85 and ls:
            del ls[r.randrange(len(ls))]
        elif ls:
            ls[-1] = ls[-1].rstrip('\r\n') if r.random() < 0.5 else ls[-1] + '\n'
    return ''.join(ls)

# ------------------------------------------------------------------ notebooks
class Fresh:
    def __init__(self, tag): self.tag = tag; self.n = 0
    def line(self, kind='code'):
        self.n += 1
        return ('%s_%d = f(%d)' if kind == 'code' else 'text %s %d is here %d') % (self.tag, self.n, self.n)

BASE_LINES = ['import os', 'import sys', 'x = 1', 'y = 2', 'z = x + y', 'print(z)', 'def f(a):', '    return a', '',
              'for i in range(3):', '    print(i)', '# comment', 'data = [1, 2, 3]', 'total = sum(data)']

def mk_cell(kind, src, cid=None, ec=None):
    c = {'cell_type': kind, 'metadata': {}, 'source': src}
    if kind == 'code':
        c['execution_count'] = ec
        c['outputs'] = [] if ec is None else [{'output_type': 'execute_result', 'execution_count': ec, 'metadata': {},
                                               'data': {'text/plain': 'out'}}]
    if cid is not None: c['id'] = cid
    return c

def mk_nb(cells, minor):
    return {'nbformat': 4, 'nbformat_minor': minor, 'metadata': {}, 'cells': cells}

def join_lines(ls, final_nl):
    s = '\n'.join(ls)
    return s + '\n' if (final_nl and ls) else s

def gen_base(r, minor, ncells=None):
    n = ncells or r.choice([1, 2, 3, 3, 4])
    cells = []
    for i in range(n):
        kind = r.choice(['code', 'code', 'code', 'markdown'])
        k = r.choice([1, 2, 3, 4, 5, 6])
        start = r.randrange(len(BASE_LINES))
        ls = [BASE_LINES[(start + j * r.choice([1, 1, 3])) % len(BASE_LINES)] + ('' if r.random() < 0.8 else ' #%d' % i) for j in range(k)]
        ls = [('c%d ' % i if kind == 'markdown' else '') + l for l in ls]
        ec = r.choice([None, 1, 2, 5]) if kind == 'code' else None
        cells.append(mk_cell(kind, join_lines(ls, r.random() < 0.3), 'id%02d' % i if minor >= 5 else None, ec))
    return mk_nb(cells, minor)

def lines_of(src):
    return src.split('\n')        # cell sources here use \n only

def set_lines(cell, ls):
    cell['source'] = '\n'.join(ls)

def ed_rewrite(r, cell, fr, i=None):
    ls = lines_of(cell['source']); i = r.randrange(len(ls)) if i is None else min(i, len(ls) - 1)
    ls[i] = fr.line(cell['cell_type']); set_lines(cell, ls)
def ed_insert(r, cell, fr, i=None):
    ls = lines_of(cell['source']); i = r.randrange(len(ls) + 1) if i is None else min(i, len(ls))
    ls[i:i] = [fr.line(cell['cell_type']) for _ in range(r.choice([1, 1, 2]))]; set_lines(cell, ls)
def ed_delete(r, cell, fr, i=None):
    ls = lines_of(cell['source'])
    if len(ls) > 1:
        i = r.randrange(len(ls)) if i is None else min(i, len(ls) - 1)
        del ls[i]; set_lines(cell, ls)
def ed_append(r, cell, fr, i=None):
    cell['source'] = cell['source'] + ('' if cell['source'].endswith('\n') or not cell['source'] else '\n') + fr.line(cell['cell_type']) + ('\n' if r.random() < 0.3 else '')
def ed_collapse(r, cell, fr, i=None):
    cell['metadata']['collapsed'] = not cell['metadata'].get('collapsed', False)
def ed_rerun(r, cell, fr, i=None):
    if cell['cell_type'] == 'code':
        n = (cell.get('execution_count') or 0) + 7
        cell['execution_count'] = n
        for o in cell['outputs']:
            if 'execution_count' in o: o['execution_count'] = n
def ed_tag(r, cell, fr, i=None):
    cell['metadata'].setdefault('tags', []).append(fr.tag)

LINE_EDITS = [ed_rewrite, ed_rewrite, ed_insert, ed_delete, ed_append]
SIDE_EDITS = LINE_EDITS + [ed_collapse, ed_rerun, ed_tag]

def new_cell(r, fr, minor, kind=None):
    kind = kind or r.choice(['code', 'markdown'])
    ls = [fr.line(kind) for _ in range(r.choice([1, 2, 3]))]
    return mk_cell(kind, join_lines(ls, r.random() < 0.3), ('n%s%d' % (fr.tag, fr.n)) if minor >= 5 else None)

SCENARIOS = ['clash1', 'clash2', 'clash3', 'clash_last_nonl', 'both_append', 'disjoint_lines', 'del_vs_edit',
             'del_vs_edit_transient', 'del_vs_transient_only', 'insert_next_to_deleted', 'both_insert_cells',
             'both_insert_similar', 'both_replace_cell', 'replace_vs_insert', 'random', 'random', 'random']

def gen_triple(r, scenario=None, minor=None):
    """returns (base, local, remote, scenario)"""
    scenario = scenario or r.choice(SCENARIOS)
    minor = minor if minor is not None else r.choice([5, 5, 4])
    L, R = Fresh('L'), Fresh('R')
    base = gen_base(r, minor)
    nc = len(base['cells'])
    k = r.randrange(nc)
    if scenario.startswith('clash'):
        # one cell long enough to host separate regions
        n = {'clash1': 1, 'clash2': 2, 'clash3': 3, 'clash_last_nonl': 1}[scenario]
        ls = [BASE_LINES[j % len(BASE_LINES)] + ' # %d' % j for j in range(r.choice([3, 4]) * n + r.choice([0, 1, 2]))]
        base['cells'][k]['source'] = join_lines(ls, scenario != 'clash_last_nonl' and r.random() < 0.5)
    local, remote = copy.deepcopy(base), copy.deepcopy(base)
    swap = r.random() < 0.5
    A, B = (local, remote) if not swap else (remote, local)
    FA, FB = (L, R) if not swap else (R, L)
    if scenario.startswith('clash'):
        ls = lines_of(base['cells'][k]['source'])
        real = [i for i, l in enumerate(ls) if l != '' or i < len(ls) - 1] or [0]
        if scenario == 'clash_last_nonl':
            idx = [real[-1]]
        else:
            step = max(1, len(real) // n)
            idx = [real[min(len(real) - 1, j * step + r.randrange(max(1, step - 2)))] for j in range(n)]
            idx = sorted(set(idx))
        for i in idx:
            ed_rewrite(r, local['cells'][k], L, i); ed_rewrite(r, remote['cells'][k], R, i)
        # unrelated noise elsewhere
        if nc > 1 and r.random() < 0.5:
            o = (k + 1) % nc
            r.choice(SIDE_EDITS)(r, local['cells'][o], L)
    elif scenario == 'both_append':
        base['cells'][k]['source'] = base['cells'][k]['source'].rstrip('\n') if r.random() < 0.7 else base['cells'][k]['source']
        local, remote = copy.deepcopy(base), copy.deepcopy(base)
        ed_append(r, local['cells'][k], L); ed_append(r, remote['cells'][k], R)
    elif scenario == 'disjoint_lines':
        ls = [BASE_LINES[j] for j in range(8)]
        base['cells'][k]['source'] = join_lines(ls, r.random() < 0.5)
        local, remote = copy.deepcopy(base), copy.deepcopy(base)
        r.choice([ed_rewrite, ed_insert])(r, local['cells'][k], L, r.choice([0, 1]))
        r.choice([ed_rewrite, ed_insert])(r, remote['cells'][k], R, r.choice([5, 6, 7]))
    elif scenario in ('del_vs_edit', 'del_vs_edit_transient', 'del_vs_transient_only'):
        if scenario != 'del_vs_edit' and base['cells'][k]['cell_type'] != 'code':
            base['cells'][k] = mk_cell('code', base['cells'][k]['source'], base['cells'][k].get('id'), 3)
            local, remote = copy.deepcopy(base), copy.deepcopy(base)
            A, B = (local, remote) if not swap else (remote, local)
        if scenario == 'del_vs_transient_only' and base['cells'][k].get('execution_count') is None:
            base['cells'][k] = mk_cell('code', base['cells'][k]['source'], base['cells'][k].get('id'), 3)
            local, remote = copy.deepcopy(base), copy.deepcopy(base)
            A, B = (local, remote) if not swap else (remote, local)
        del A['cells'][k]
        c = B['cells'][k]
        if scenario != 'del_vs_transient_only':
            for _ in range(r.choice([1, 2])): r.choice(LINE_EDITS)(r, c, FB)
        if scenario != 'del_vs_edit':
            r.choice([ed_collapse, ed_rerun, ed_rerun])(r, c, FB)
            if r.random() < 0.3: ed_collapse(r, c, FB)
    elif scenario == 'insert_next_to_deleted':
        del A['cells'][k]
        pos = k + r.choice([0, 1])
        B['cells'].insert(pos, new_cell(r, FB, minor))
        if r.random() < 0.4 and len(A['cells']) > 0:
            A['cells'].insert(min(k, len(A['cells'])), new_cell(r, FA, minor))
    elif scenario in ('both_insert_cells', 'both_insert_similar'):
        pos = r.randrange(nc + 1)
        ca = new_cell(r, FA, minor)
        if scenario == 'both_insert_similar':
            cb = copy.deepcopy(ca)
            if minor >= 5: cb['id'] = 'n%s%d' % (FB.tag, 99)
            ls = lines_of(cb['source'])
            ls.append(FB.line(cb['cell_type'])) if r.random() < 0.5 else ls.__setitem__(0, FB.line(cb['cell_type']))
            set_lines(cb, ls)
            src = ca['source']; extra = [BASE_LINES[j] for j in range(6)]
            ca['source'] = '\n'.join(extra + lines_of(src)); cb['source'] = '\n'.join(extra + lines_of(cb['source']))
        else:
            cb = new_cell(r, FB, minor)
        A['cells'].insert(pos, ca); B['cells'].insert(pos, cb)
        if r.random() < 0.3: A['cells'].insert(pos, new_cell(r, FA, minor))
    elif scenario == 'both_replace_cell':
        A['cells'][k] = new_cell(r, FA, minor); B['cells'][k] = new_cell(r, FB, minor)
        if r.random() < 0.3 and k + 1 < nc: del A['cells'][k + 1]
    elif scenario == 'replace_vs_insert':
        A['cells'][k] = new_cell(r, FA, minor); B['cells'].insert(k, new_cell(r, FB, minor))
    else:
        for side, fr in ((local, L), (remote, R)):
            for _ in range(r.choice([1, 1, 2, 3])):
                if not side['cells']: break
                q = r.random()
                j = k if r.random() < 0.6 else r.randrange(len(side['cells']))
                j = min(j, len(side['cells']) - 1)
                if q < 0.12 and len(side['cells']) > 1: del side['cells'][j]
                elif q < 0.24: side['cells'].insert(r.randrange(len(side['cells']) + 1), new_cell(r, fr, minor))
                else: r.choice(SIDE_EDITS)(r, side['cells'][j], fr, r.choice([None, 0, 1, 2]))
    return base, local, remote, scenario

# ------------------------------------------------------------------ concurrent multi-cell insert runs
# Both sides put a RUN of cells at the same place (plain insert, or in place of a base cell).  A run is described by
# segments: ('conf', p, q) p local vs q remote mutually dissimilar cells, ('sim',) a pair of similar-but-different cells,
# ('same',) one identical cell on both sides, ('lonly', p) / ('ronly', q) cells only one side has.  nbdime aligns the two
# runs by a diff of one against the other and keeps a running local/remote index offset; unequal block lengths before
# a similar pair are what makes that bookkeeping observable.  Themes differ strongly character-wise so that cells of
# different themes are dissimilar under nbdime's 0.7 ratio and cells of one theme (one line changed) are similar.
THEMES = [
    ['import numpy as np', 'grid = np.linspace(0, 1, 50)', 'noise = np.random.rand(50)', 'signal = grid * 3 + noise', 'print(signal.mean())'],
    ['def greet(name):', '    msg = "hello, " + name', '    print(msg.upper())', '    return len(msg)', 'greet("world")'],
    ['with open("input.csv") as fh:', '    rows = [ln.split(",") for ln in fh]', 'header, body = rows[0], rows[1:]', 'print(len(body), "records")'],
    ['class Account:', '    balance = 0', '    def deposit(self, amt):', '        self.balance += amt', '        return self.balance'],
    ['for k, v in sorted(table.items()):', '    if v is None: continue', '    print("%-10s %5d" % (k, v))', 'else:', '    print("done")'],
    ['try:', '    result = 100 / denominator', 'except ZeroDivisionError as exc:', '    result = float("inf")', 'finally:', '    log.append(result)'],
    ['SELECT_SQL = """', 'SELECT user_id, COUNT(*)', 'FROM events WHERE ts > :since', 'GROUP BY user_id', '"""'],
    ['%matplotlib inline', 'fig, ax = plt.subplots(figsize=(8, 4))', 'ax.plot(xs, ys, "r--", label="fit")', 'ax.legend(); fig.tight_layout()'],
    ['assert isinstance(payload, dict)', 'keys = {"alpha", "beta", "gamma"}', 'missing = keys - set(payload)', 'raise KeyError(missing) if missing else None'],
    ['lambda_ = 0.25', 'weights = [w - lambda_ * g for w, g in zip(weights, grads)]', 'epoch += 1', 'history.append((epoch, loss(weights)))'],
]
MD_THEMES = [
    ['# Introduction', 'This notebook explores the quarterly revenue figures.', 'Sources are listed at the bottom.'],
    ['## Method', 'We fit a *ridge regression* with cross-validated penalty;', 'residuals are inspected visually.'],
    ['### TODO', '- [ ] double-check units (kg vs lb)', '- [ ] ask Dana about the 2019 outliers'],
    ['> "All models are wrong, but some are useful."', '', 'George Box, 1976'],
]

def _run_cell(kind, theme, tag, minor, ids, final_nl):
    ls = ['%s  %s %s' % (l, '#' if kind == 'code' else '--', tag) if l else l for l in theme]
    ids[0] += 1
    return mk_cell(kind, join_lines(ls, final_nl), 'r%s%02d' % (tag[:1], ids[0]) if minor >= 5 else None)

def gen_insert_runs(r, segments, minor=None, mode=None):
    """returns (base, local, remote, 'insert_runs:<mode>:<segments>')"""
    minor = minor if minor is not None else r.choice([5, 5, 4])
    mode = mode or r.choice(['insert', 'insert', 'replace', 'replace_one_side'])
    base = gen_base(r, minor, r.choice([1, 2, 3]))
    code = list(range(len(THEMES))); r.shuffle(code)
    md = list(range(len(MD_THEMES))); r.shuffle(md)
    ids = [0]; uniq = [0]; extra = [0]
    def theme():
        if md and (not code or r.random() < 0.15): return 'markdown', MD_THEMES[md.pop()]
        if not code:
            extra[0] += 1
            return 'code', ['v%d_%d = compute_%d(%d)' % (extra[0], j, extra[0] * 7 + j, j) for j in range(4)]
        return 'code', THEMES[code.pop()]
    lrun, rrun = [], []
    for seg in segments:
        uniq[0] += 1
        nl = r.random() < 0.3
        if seg[0] == 'conf':
            for _ in range(seg[1]): k, t = theme(); lrun.append(_run_cell(k, t, 'L%d' % len(lrun), minor, ids, nl))
            for _ in range(seg[2]): k, t = theme(); rrun.append(_run_cell(k, t, 'R%d' % len(rrun), minor, ids, nl))
        elif seg[0] == 'lonly':
            for _ in range(seg[1]): k, t = theme(); lrun.append(_run_cell(k, t, 'L%d' % len(lrun), minor, ids, nl))
        elif seg[0] == 'ronly':
            for _ in range(seg[1]): k, t = theme(); rrun.append(_run_cell(k, t, 'R%d' % len(rrun), minor, ids, nl))
        elif seg[0] == 'same':
            k, t = theme(); c = _run_cell(k, t, 'S%d' % uniq[0], minor, ids, nl)
            lrun.append(c); rrun.append(copy.deepcopy(c))
        elif seg[0] == 'sim':
            k, t = theme()
            if len(t) < 4: t = t + ['one more line shared by the pair', 'and a closing line shared by the pair']
            cl = _run_cell(k, t, 'P%d' % uniq[0], minor, ids, nl); cr = copy.deepcopy(cl)
            if minor >= 5: ids[0] += 1; cr['id'] = 'rQ%02d' % ids[0]
            how = r.choice(['rewrite', 'rewrite', 'append', 'one_side'])
            ll, rl = lines_of(cl['source'].rstrip('\n')), lines_of(cr['source'].rstrip('\n'))
            cm = '#' if k == 'code' else '--'
            if how == 'rewrite':
                i = r.randrange(len(ll)); ll[i] += ' %s local tweak %d' % (cm, uniq[0]); rl[i] += ' %s remote tweak %d' % (cm, uniq[0])
            elif how == 'append':
                ll.append('local_extra_%d = 1' % uniq[0]); rl.append('remote_extra_%d = 2' % uniq[0])
            else:
                i = r.randrange(len(rl)); rl[i] += ' %s remote tweak %d' % (cm, uniq[0])
            cl['source'] = join_lines(ll, nl); cr['source'] = join_lines(rl, nl)
            lrun.append(cl); rrun.append(cr)
        else:
            raise ValueError(seg)
    if r.random() < 0.5: lrun, rrun = rrun, lrun          # which side is "local" must not matter
    local, remote = copy.deepcopy(base), copy.deepcopy(base)
    nc = len(base['cells']); pos = r.randrange(nc + 1)
    if mode == 'insert' or pos == nc:
        mode = 'insert'
        local['cells'][pos:pos] = lrun; remote['cells'][pos:pos] = rrun
    elif mode == 'replace':
        local['cells'][pos:pos + 1] = lrun; remote['cells'][pos:pos + 1] = rrun
    else:
        local['cells'][pos:pos + 1] = lrun; remote['cells'][pos:pos] = rrun
    name = ','.join(s[0] + ''.join('%d' % x for x in s[1:]) for s in segments)
    return base, local, remote, 'insert_runs:%s:%s' % (mode, name)

def insert_run_specs(r, n_random):
    """systematic: dissimilar blocks of every size pair 0..3 x 0..3 followed by a similar pair (and sometimes more);
    random: arbitrary short segment sequences"""
    specs = []
    for p in range(4):
        for q in range(4):
            head = [('conf', p, q)] if p and q else [('lonly', p)] if p else [('ronly', q)] if q else []
            specs.append(head + [('sim',)])
            tail = r.choice([[('same',)], [('conf', 1, 1)], [('sim',)], [('lonly', 1)], [('ronly', 1)], [('same',), ('sim',)]])
            specs.append(head + [('sim',)] + tail)
    for _ in range(n_random):
        segs = []
        for _ in range(r.choice([2, 2, 3, 4])):
            k = r.random()
            if k < 0.3: segs.append(('conf', r.choice([1, 1, 2, 3]), r.choice([1, 2, 2, 3])))
            elif k < 0.6: segs.append(('sim',))
            elif k < 0.75: segs.append(('same',))
            elif k < 0.87: segs.append(('lonly', r.choice([1, 2])))
            else: segs.append(('ronly', r.choice([1, 2])))
        specs.append(segs)
    return specs
