"""C08 reference: "what the library merge returns" for a batch of scenarios, computed WITHOUT the command line
under test (no nbmergeapp, no mergedriver, no nbdime.utils.read_notebook, no argument parser).

    /venv/bin/python c08_oracle.py <tasks.json> <results.json>

task = {"base": <json|None>, "local": ..., "remote": ..., "kinds": {"base": "file"|"empty"|"null"|..., ...},
        "opts": {"merge_strategy": ..., "input_strategy": ..., "output_strategy": ..., "ignore_transients": bool}}
result = {"ok": {"merged": <json>, "conflicts": n, "decisions": n, "ser_nl": bool, "dec_chunks": n}}
       | {"err": <exception class>, "stage": 1 (diff) | 3 (decide) | 4 (apply) | 0 (elsewhere)}
       | {"unreadable": role}      (an input that is not a notebook: the command must fail)
       | {"deletion": true}
This file imports nothing from the harness."""
import sys, json, argparse, traceback, io, copy


def main():
    import nbformat
    from nbdime.merging.notebooks import merge_notebooks
    tasks = json.load(open(sys.argv[1]))
    out = []
    for t in tasks:
        kinds = t['kinds']
        if kinds['local'] == 'null' and kinds['remote'] == 'null':
            out.append({'deletion': True, 'base_readable': kinds['base'] == 'file'}); continue
        nbs = {}; bad = None
        for role in ('base', 'local', 'remote'):
            k = kinds[role]
            if k == 'file':
                nbs[role] = nbformat.reads(json.dumps(t[role]), as_version=4)
            elif k == 'null' or (k == 'empty' and role == 'base'):
                nbs[role] = nbformat.v4.new_notebook()
            else:
                bad = bad or role
        if bad:
            out.append({'unreadable': bad}); continue
        o = t['opts']
        args = argparse.Namespace(merge_strategy=o.get('merge_strategy', 'inline'), input_strategy=o.get('input_strategy'),
                                  output_strategy=o.get('output_strategy'), ignore_transients=o.get('ignore_transients', True),
                                  log_level='INFO')
        try:
            import copy as _copy
            again = _copy.deepcopy(nbs)
            merged, decisions = merge_notebooks(nbs['base'], nbs['local'], nbs['remote'], args)
            # ids the merge itself does not determine: nbdime builds conflict-marker cells with nbformat's
            # new_markdown_cell, which draws a random id; merging the same inputs twice shows which ones those are
            merged2, _d2 = merge_notebooks(again['base'], again['local'], again['remote'], args)
            unstable = [i for i, (c1, c2) in enumerate(zip(merged.get('cells', []), merged2.get('cells', [])))
                        if c1.get('id') != c2.get('id')]
            # cells for which the library merge returns no id (nbformat's serialiser then invents a random one)
            noid = sorted(set([i for i, c in enumerate(merged.get('cells', [])) if 'id' not in c] + unstable))
            s = nbformat.writes(merged)

            class Cnt(io.StringIO):
                n = 0
                def write(self, x):
                    Cnt.n += 1
                    return io.StringIO.write(self, x)
            Cnt.n = 0
            try:
                json.dump(decisions, Cnt(), indent=2)
                dc = Cnt.n
            except Exception:
                dc = -1
            out.append({'ok': {'merged': json.loads(s), 'conflicts': sum(1 for d in decisions if d.conflict),
                               'decisions': len(decisions), 'ser_nl': s.endswith('\n'), 'dec_chunks': dc, 'cells_without_id': noid}})
        except Exception as e:
            names = [f.name for f in traceback.extract_tb(e.__traceback__)]
            stage = 4 if 'apply_decisions' in names else 3 if 'decide_merge_with_diff' in names else 1 if 'diff_notebooks' in names else 0
            out.append({'err': type(e).__name__, 'stage': stage, 'msg': str(e)[:200]})
    json.dump(out, open(sys.argv[2], 'w'))


if __name__ == '__main__':
    main()
