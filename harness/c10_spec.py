"""Independent oracles of the C10 check (no nbdime import): the documented strategy placement of nbmerge, which strategy
governs an open conflict, what "resolving a conflicted decision to side X" means, and an own decision applier built on
pyspec.spec_patch (the position-wise documented meaning of diffs).

MEANING OF "RESOLVE TO SIDE X" (decided from the property text and docs/source/merging.rst, "merge decisions"):
a conflicted decision {action, conflict: true, local_diff, remote_diff[, custom_diff]} is replaced by the same decision
with conflict := false and action := "base" (apply neither diff) | "local" (apply local_diff only) | "remote" (apply
remote_diff only).  This holds for every action the open merge may have proposed for the conflict ("base" for ordinary
conflicts, "local_then_remote" / "remote_then_local" for insert-next-to-edit conflicts, "custom" for inline renderings):
the proposal is discarded, the diffs are kept.  Decisions that are not conflicted are left untouched.
"""
import copy, json
import pyspec

SIDES = ('base', 'local', 'remote')
# strategies that, placed on a container, take over every conflict below it (so an outer use-X never sees them)
CAPTURING = {'inline-source', 'inline-outputs', 'inline-attachments', 'record-conflict', 'remove', 'clear-all'}
LEAF_ACTIONS = {'use-base': 'base', 'use-local': 'local', 'use-remote': 'remote', 'union': None, 'clear': None, 'take-max': None}


def spec_table(m, i, o, t):
    """docs: --merge-strategy applies to everything, --input-strategy overrides it for source and attachments,
    --output-strategy for outputs; 'inline' means inline-cells on /cells, inline-source, inline-attachments, inline-outputs and
    record-conflict on the three metadata fields; otherwise the merge strategy sits on the root."""
    i = i or m; o = o or m
    T = {}
    if m == 'inline': T['/cells'] = 'inline-cells'
    else: T['/'] = m
    md = 'record-conflict' if m == 'inline' else m
    for p in ('/metadata', '/cells/*/metadata', '/cells/*/outputs/*/metadata'): T[p] = md
    T['/cells/*/source'] = 'inline-source' if i == 'inline' else i
    T['/cells/*/attachments'] = 'inline-attachments' if i == 'inline' else i
    T['/cells/*/outputs'] = 'inline-outputs' if o == 'inline' else o
    return T


def star(path):
    out = []
    for k in path:
        out.append('*' if isinstance(k, int) or (isinstance(k, str) and k.lstrip('+-').isdigit()) else k)
    return '/' + '/'.join(out)


def op_keys(d):
    ks = []
    for side in ('local_diff', 'remote_diff'):
        for e in d.get(side) or []: ks.append(e['key'])
    return ks


def governor(d, T):
    """the side (or None) the strategy run's table assigns to an open conflict: the item strategy at the conflict's own path
    if it is a use-X; else the first ancestor container carrying a use-X, unless a capturing strategy sits in between"""
    ks = op_keys(d)
    path = list(d['common_path'])
    eff = path + [ks[0]] if ks else path
    s0 = T.get(star(eff))
    if s0 in ('use-base', 'use-local', 'use-remote'): return s0[4:]
    if s0 in CAPTURING and len(eff) > len(path): pass     # item strategy of a container child: acts when merging the child, not here
    for n in range(len(path), -1, -1):
        s = T.get(star(path[:n]))
        if s in ('use-base', 'use-local', 'use-remote'): return s[4:]
        if s in CAPTURING: return None
    return None


def relabel(decisions, T):
    out = []; n = 0
    for d in decisions:
        d = copy.deepcopy(d)
        if d.get('conflict'):
            g = governor(d, T)
            if g is not None:
                d['action'] = g; d['conflict'] = False; n += 1
        out.append(d)
    return out, n


# ------------------------------------------------------------------ own applier
class ApplyError(Exception):
    pass


class NotApplicable(Exception):
    pass


def _cleared(v):
    if isinstance(v, list): return []
    if isinstance(v, dict): return {}
    if isinstance(v, str): return ''
    return None


def _resolve(base, path):
    """(value at the longest non-string prefix, prefix, remaining line keys)"""
    v = base
    for n, k in enumerate(path):
        if isinstance(v, str): return v, path[:n], path[n:]
        v = v[k]
    return v, path, []


def _resolved_diff(v, d):
    a = d['action']; ld = d.get('local_diff') or []; rd = d.get('remote_diff') or []
    if a == 'base': return []
    if a in ('local', 'either'): return ld
    if a == 'remote': return rd
    if a == 'custom': return d.get('custom_diff') or []
    if a == 'local_then_remote': return ld + rd
    if a == 'remote_then_local': return rd + ld
    keys = set(e['key'] for e in ld + rd)
    if a in ('clear', 'remove', 'take_max'):
        if len(keys) != 1: raise ApplyError('%s needs exactly one key' % a)
        k = keys.pop()
        if a == 'clear':
            if not isinstance(v, dict):
                # nbdime emits `replace` on a list item here (a `clear` decision whose diffs were wrapped by inline-outputs'
                # bundle_decisions_by_index); the documented format has no such op -> the own applier does not apply
                raise NotApplicable('clear on a sequence item')
            return [{'op': 'replace', 'key': k, 'value': _cleared(v[k])}]
        if a == 'remove': return [{'op': 'removerange', 'key': k, 'length': 1}] if isinstance(v, (list, str)) else [{'op': 'remove', 'key': k}]
        bval = v[k]; lval = ld[0]['value'] if ld else bval; rval = rd[0]['value'] if rd else bval
        m = max(bval, lval, rval)
        return [] if m == bval else [{'op': 'replace', 'key': k, 'value': m}]
    if a == 'clear_all':
        if isinstance(v, dict): return [{'op': 'remove', 'key': k} for k in v]
        return [{'op': 'removerange', 'key': 0, 'length': len(v)}]
    raise ApplyError('unknown action %r' % a)


def _wrap(path, diff):
    for k in reversed(path):
        diff = [{'op': 'patch', 'key': k, 'diff': diff}]
    return diff


def _combine(diffs):
    """one diff tree from a sequence of diffs on the same value: patches on the same key are merged, order kept"""
    out = []; patches = {}
    for e in diffs:
        if e['op'] == 'patch':
            k = (type(e['key']).__name__, e['key'])
            if k in patches: patches[k]['diff'] = patches[k]['diff'] + e['diff']
            else:
                p = {'op': 'patch', 'key': e['key'], 'diff': list(e['diff'])}
                patches[k] = p; out.append(p)
        else: out.append(e)
    for p in patches.values(): p['diff'] = _combine(p['diff'])
    return [e for e in out if e['op'] != 'patch' or e['diff']]


def spec_apply(base, decisions):
    cleared = set(json.dumps(d['common_path']) for d in decisions if d['action'] == 'clear_all')
    root = []
    for d in decisions:
        path = list(d['common_path'])
        if json.dumps(path) in cleared and d['action'] != 'clear_all': continue
        v, prefix, line = _resolve(base, path)
        diff = _resolved_diff(v, d)
        if not diff: continue
        root += _wrap(list(prefix) + list(line), copy.deepcopy(diff))
    return pyspec.spec_patch(base, _combine(root))


def source_lines(nb):
    out = set()
    for c in nb.get('cells', []):
        s = c.get('source', '')
        if isinstance(s, list): s = ''.join(s)
        for ln in pyspec.splitlines_keepends(s):
            body = ln.rstrip(''.join(pyspec.LINESEPS))
            if body.strip(): out.add(body)
    return out
