"""C07 -- default merge neither drops nor invents source lines; real conflicts are flagged.
T1  model (coq/Merge/Render.v, evaluated by vm_compute under coqc on generated cases) = implementation, exactly:
    built-in renderer, resolve_strategy_inline_source, make_inline_cell_conflict, the delete-vs-edit countering functions.
    tool_contract (the hypothesis of the inline_source_* theorems) evaluated on every real git merge-file / diff3 / builtin call.
T2  the property itself on whole notebooks merged by the implementation under three tool availabilities."""
import os, sys, json, re, copy, shutil, tempfile, subprocess, itertools, hashlib
import core
import c07_gen as G

PROP = 'C07'
RUNNER = 'c07_run.py'
CONFIGS = ['git', 'diff3', 'builtin']
ASSUME = [
    'tool_contract: for every call merge_render(b,l,r,None) answered by git merge-file or diff3: non-blank output lines are lines of b, l or r or marker lines; non-blank lines of l and r that are not lines of b occur in the output; if both sides rewrite the same position with fresh, different lines the status is non-zero and the two variants sit in the local resp. remote branch (Section hypothesis of inline_source_*; evaluated on every real invocation seen in the run)',
    'patch(base, side_diff) is the side\'s source text (the model of resolve_strategy_inline_source takes the patched texts); applying local_then_remote [addrange(0,[marker])]+diff yields marker+patched text (compared on every isrc case)',
    'str.splitlines(True) is modelled by Base/PyStr.v; the builtin theorems speak of the rendered line list before "".join, lines compared modulo trailing CR/LF',
    'whole-notebook composition (diff_notebooks alignment, _merge_lists chunking, apply_decisions) is not modelled: evaluated on the implementation only',
]

# ------------------------------------------------------------------ oracle (independent of nbdime; transcribes Render.v's contract)
SPACE = set([9, 10, 11, 12, 13, 28, 29, 30, 31, 32, 133, 160, 5760, 8232, 8233, 8239, 8287, 12288] + list(range(8192, 8203)))
def nonblank(x): return any(ord(c) not in SPACE for c in x)
def chomp(x): return x.rstrip('\r\n')
def tlines(s): return [chomp(x) for x in s.splitlines(True)]
def marker_of(c, x): return x.startswith(c * 7) and (len(x) == 7 or x[7] == ' ')
def is_marker(x): return any(marker_of(c, x) for c in '<=>|')
CELL_MARK = re.compile(r'^<span style="color:red"><b>(.*)</b></span>$')
TAG = re.compile(r'</?[A-Za-z][^<>]*>')
def is_marker_line(x):
    """a conflict marker line, possibly dressed up in HTML tags (the marker cells of inline-cells)"""
    return is_marker(x) or is_marker(TAG.sub('', x).strip())

def branches(ls):
    z = 'O'; lo = []; re_ = []
    for l in ls:
        if marker_of('<', l): z = 'L'
        elif marker_of('|', l): z = 'B' if z == 'L' else z
        elif marker_of('=', l): z = 'R' if z in ('L', 'B') else z
        elif marker_of('>', l): z = 'O' if z == 'R' else z
        elif z == 'L': lo.append(l)
        elif z == 'R': re_.append(l)
    return lo, re_

def clashes(b, l, r):
    bl, ll, rl = tlines(b), tlines(l), tlines(r)
    if not (len(bl) == len(ll) == len(rl)): return []
    if any(is_marker(x) for x in bl + ll + rl): return []
    bs = set(bl)
    return [(x, y) for u, x, y in zip(bl, ll, rl)
            if x != u and y != u and x != y and x not in bs and y not in bs and nonblank(x) and nonblank(y)]

def contract(b, l, r, m, st):
    """returns list of problems (empty = contract_ok)"""
    bl, ll, rl, ml = set(tlines(b)), tlines(l), tlines(r), tlines(m)
    ms = set(ml); src = bl | set(ll) | set(rl)
    probs = []
    for y in ml:
        if nonblank(y) and y not in src and not is_marker(y): probs.append(['fabricated', y])
    for x in ll + rl:
        if nonblank(x) and x not in bl and x not in ms: probs.append(['dropped', x])
    lo, re_ = branches(ml)
    for x, y in clashes(b, l, r):
        if st == 0: probs.append(['unflagged', x, y])
        elif x not in lo or y not in re_: probs.append(['variant-missing', x, y])
    return probs

def src_text(c):
    s = c.get('source', '')
    return ''.join(s) if isinstance(s, list) else s

def nb_lineset(nb):
    out = set()
    for c in nb['cells']: out.update(tlines(src_text(c)))
    return out

def merge_problems(case, msrc, conflicts):
    base, local, remote = case['base'], case['local'], case['remote']
    bl, ll, rl = nb_lineset(base), nb_lineset(local), nb_lineset(remote)
    mlines = [tlines(s) for s in msrc]
    ms = set(x for ls in mlines for x in ls)
    probs = []
    # survival: a line is "added" by a side when it occurs in that side's sources and in no base source (conservative)
    for side, ls in (('local', ll), ('remote', rl)):
        for x in sorted(ls):
            if nonblank(x) and x not in bl and x not in ms: probs.append(['dropped', side, x])
    src = bl | ll | rl
    for y in sorted(ms):
        if nonblank(y) and y not in src and not is_marker_line(y): probs.append(['fabricated', y])
    # flagging: id-aligned cells (minor 5), both sides rewrite the same line differently
    def byid(nb): return {c['id']: c for c in nb['cells'] if isinstance(c.get('id'), str)}
    if base.get('nbformat_minor', 0) >= 5:
        lb, rb = byid(local), byid(remote)
        for c in base['cells']:
            cid = c.get('id')
            if cid in lb and cid in rb and c.get('cell_type') == lb[cid].get('cell_type') == rb[cid].get('cell_type'):
                for x, y in clashes(src_text(c), src_text(lb[cid]), src_text(rb[cid])):
                    if not conflicts: probs.append(['unflagged', cid, x, y])
                    if not any(x in branches(ls)[0] and y in branches(ls)[1] for ls in mlines): probs.append(['variant-missing', cid, x, y])
    return probs

GLUE = re.compile(r'^(.+?)(\|{7} base|={7}|>{7} remote)$')
def unterminated_last_lines(calls):
    out = set()
    for c in calls:
        for t in c[:3]:
            if t and not t.endswith('\n'): out.add(tlines(t)[-1])
    return out
def unglue(m, unterminated):
    """undo what GNU diff3 -m does to an unterminated last line: "X||||||| base" -> "X" / "||||||| base" """
    out = []
    for ln in m.splitlines(True):
        body = chomp(ln); mm = GLUE.match(body)
        if mm and mm.group(1) in unterminated: out.append(mm.group(1) + '\n' + mm.group(2) + ln[len(body):])
        else: out.append(ln)
    return ''.join(out)

DIFF3_SIG = 'diff3-glues-marker-to-unterminated-last-line'
def judge_merge(case, res):
    """the property on one merged notebook.  Returns (signature, detail) or (None, None)."""
    if 'err' in res: return None, None           # completion is C03's subject
    ok = res['ok']
    probs = merge_problems(case, ok['sources'], ok['conflicts'])
    if not probs: return None, None
    sig = '+'.join(sorted(set(p[0] for p in probs))) + ':tool=' + str(ok['tool'])
    if ok['tool'] == 'diff3':
        # signature of the known diff3 defect: every problem disappears once glued "<last line><marker>" lines are split
        ut = unterminated_last_lines(ok['calls'])
        if ut and not merge_problems(case, [unglue(s, ut) for s in ok['sources']], ok['conflicts']): sig = DIFF3_SIG
    return sig, {'problems': probs[:8], 'tool': ok['tool'], 'merged_sources': ok['sources'],
                 'conflicts': ok['conflicts'], 'calls': ok['calls'][:3]}

def contract_signature(b, l, r, m, st, cfg, probs):
    sig = '+'.join(sorted(set(p[0] for p in probs))) + ':tool=' + cfg
    if cfg == 'diff3':
        ut = unterminated_last_lines([(b, l, r)])
        if ut and not contract(b, l, r, unglue(m, ut), st): return DIFF3_SIG
    return 'tool-contract:' + sig

# ------------------------------------------------------------------ sandboxes for the three tool availabilities
class Sandbox:
    def __init__(self):
        self.d = tempfile.mkdtemp(prefix='nbv_c07_')
        self.paths = {}
        for cfg, tools in (('git', ['git']), ('diff3', ['diff3', 'diff']), ('builtin', [])):
            p = os.path.join(self.d, 'bin_' + cfg); os.makedirs(p)
            for t in tools:
                real = shutil.which(t)
                if real is None: raise RuntimeError('tool %s needed for configuration %s is not installed' % (t, cfg))
                os.symlink(real, os.path.join(p, t))
            self.paths[cfg] = p
        self.home = os.path.join(self.d, 'home'); os.makedirs(self.home)
    def env(self, cfg):
        return {'PATH': self.paths[cfg], 'HOME': self.home, 'XDG_CONFIG_HOME': os.path.join(self.home, '.config'),
                'JUPYTER_CONFIG_DIR': os.path.join(self.home, '.jupyter'), 'TMPDIR': self.d, 'LC_ALL': 'C'}
    def close(self): shutil.rmtree(self.d, ignore_errors=True)

def impl(sb, cfg, tasks, shards=12):
    return core.run_impl(tasks, shards=shards, script=RUNNER, env_extra=sb.env(cfg))

# ------------------------------------------------------------------ Coq cases (vm_compute under coqc)
def cs(s):
    return '(@nil N)' if not s else '[' + ';'.join(str(ord(c)) for c in s) + ']'
def clist(items): return '[' + ';\n '.join(items) + ']' if items else 'nil'
def copt(s): return 'None' if s is None else '(Some %s)' % cs(s)

def cdiff(d):
    out = []
    for e in d:
        k = e['key']; ck = '(KI %d)' % k if isinstance(k, int) else '(KS %s)' % cs(k)
        op = e['op']
        if op == 'patch': out.append('DPatch %s %s' % (ck, cdiff(e['diff'])))
        elif op == 'add': out.append('DAdd %s JNull' % ck)
        elif op == 'remove': out.append('DRemove %s' % ck)
        elif op == 'replace': out.append('DReplace %s JNull' % ck)
        elif op == 'addrange': out.append('DAddRange %s (VList [])' % ck)
        elif op == 'removerange': out.append('DRemoveRange %s %d' % (ck, e['length']))
    return '[' + '; '.join(out) + ']' if out else '(@nil dentry)'
def ccentry(c):
    ck = lambda k: '(KI %d)' % k if isinstance(k, int) else '(KS %s)' % cs(k)
    if c[0] == 'PD': return 'CParentDeleted %s' % ck(c[1])
    sub = '[' + '; '.join(ccentry(x) for x in c[2]) + ']' if c[2] else '(@nil centry)'
    return 'CPatch %s %s' % (ck(c[1]), sub)
def cpath(p): return '[' + '; '.join(cs('*' if isinstance(x, int) else x) for x in p) + ']' if p else '(@nil pystr)'

PRELUDE = r'''From Coq Require Import List NArith ZArith Bool.
From NB Require Import Base.Json Base.PyStr Diff.DiffFormat Merge.Render.
Import ListNotations.
Local Open Scope N_scope.
Fixpoint bad_go {A} (f : A -> bool) (l : list A) (i : nat) : list nat :=
  match l with [] => [] | x :: r => if f x then bad_go f r (S i) else i :: bad_go f r (S i) end.
Definition bad {A} (f : A -> bool) (l : list A) := bad_go f l O.
Definition beq (a b : bool) := if a then b else negb b.
Definition lseqb (a b : list pystr) := (length a =? length b)%nat && forallb (fun p => pystr_eqb (fst p) (snd p)) (combine a b).
Fixpoint centry_eqb (a b : centry) {struct a} : bool :=
  match a, b with
  | CParentDeleted k, CParentDeleted k' => pystr_eqb (seg k) (seg k')
  | CPatch k d, CPatch k' d' => pystr_eqb (seg k) (seg k') &&
      (fix go (x y : list centry) : bool := match x, y with [] , [] => true | p :: x', q :: y' => centry_eqb p q && go x' y' | _, _ => false end) d d'
  | _, _ => false
  end.
Fixpoint cl_eqb (x y : list centry) : bool := match x, y with [], [] => true | p :: x', q :: y' => centry_eqb p q && cl_eqb x' y' | _, _ => false end.
Definition act_eqb (a b : isrc_action) := match a, b with ActLocalThenRemote, ActLocalThenRemote | ActRemoteThenLocal, ActRemoteThenLocal | ActCustom, ActCustom => true | _, _ => false end.
Definition chk_builtin (c : pystr * pystr * pystr * pystr * Z) :=
  let '(b, l, r, m, st) := c in let '(m', st') := builtin_merge_render b l r in pystr_eqb m m' && (st =? st')%Z.
Definition chk_contract (c : pystr * pystr * pystr * pystr * Z * bool) :=
  let '(b, l, r, m, st, ok) := c in beq (contract_ok b l r m st) ok.
Definition chk_isrc (c : pystr * option pystr * option pystr * (pystr * Z) * (isrc_action * bool * pystr)) :=
  let '(b, l, r, t, (a, cf, s)) := c in
  match resolve_strategy_inline_source (fun _ _ _ => t) b l r with
  | Some d => act_eqb (d_action d) a && beq (d_conflict d) cf && pystr_eqb (d_source d) s
  | None => false
  end.
Definition chk_cellconf (c : list pystr * nat * list pystr * nat * list pystr * nat * list pystr) :=
  let '(bc, start, lv, lr, rv, rr, out) := c in
  lseqb (make_inline_cell_conflict pystr (fun s => s) bc start lv lr rv rr) out.
Definition chk_counter (c : diff * path * bool * bool * list centry) :=
  let '(d, p, tr, wc, cd) := c in
  beq (is_diff_all_transients 20 d p default_transients) tr &&
  beq (will_diff_counter_parent_deletion default_counters 20 d p) wc &&
  cl_eqb (create_parent_deletion_counter_diff default_counters 20 d p) cd.
'''

def coq_eval_one(name, chk, ty, items):
    """one coqc run: returns the indices (within items) on which the checker is false"""
    d = tempfile.mkdtemp(prefix='nbv_c07coq_')
    try:
        src = [PRELUDE]
        chunks = [items[i:i + 400] for i in range(0, len(items), 400)] or [[]]      # small definitions keep the parser fast
        for j, ch in enumerate(chunks):
            src.append('Definition %s_%d : list (%s) := %s.' % (name, j, ty, clist(ch)))
        src.append('Definition %s_all := %s.' % (name, ' ++ '.join('%s_%d' % (name, j) for j in range(len(chunks)))))
        src.append('Definition res_%s := Eval vm_compute in (bad %s %s_all).' % (name, chk, name))
        src.append('Print res_%s.' % name)
        f = os.path.join(d, 'cases.v'); open(f, 'w').write('\n'.join(src) + '\n')
        p = subprocess.run(['timeout', '900', 'coqc', '-Q', core.COQ, 'NB', f], capture_output=True, text=True, cwd=d)
        if p.returncode != 0:
            raise RuntimeError('coqc failed on generated cases (%s): ' % name + (p.stderr + p.stdout)[-1500:])
        m = re.search(r'res_%s\s*=\s*(\[[^\]]*\]|nil)' % name, p.stdout)
        if not m: raise RuntimeError('cannot parse coqc output for ' + name + ': ' + p.stdout[-800:])
        body = m.group(1)
        return [] if body in ('nil', '[]') else [int(x) for x in re.findall(r'\d+', body)]
    finally:
        shutil.rmtree(d, ignore_errors=True)

def coq_eval(groups, per_file=2500, workers=6):
    """groups: list of (name, checker, type, [coq terms]).  Returns {name: [bad indices]} or raises.
    Large groups are split over several coqc processes (memory), run in parallel."""
    from concurrent.futures import ThreadPoolExecutor
    jobs = []
    for name, chk, ty, items in groups:
        for off in range(0, max(1, len(items)), per_file):
            jobs.append((name, chk, ty, items[off:off + per_file], off))
    with ThreadPoolExecutor(max_workers=workers) as ex:
        res = list(ex.map(lambda j: coq_eval_one(*j[:4]), jobs))
    out = {g[0]: [] for g in groups}
    for (name, _, _, _, off), bad in zip(jobs, res):
        out[name] += [off + i for i in bad]
    return out

# ------------------------------------------------------------------ case generation
def render_texts(chk, tier):
    r = chk.rng
    pairs = []
    small = G.small_texts(2 if tier == 'quick' else 3)
    for l in small:
        for rr in small: pairs.append(('a\nb\n', l, rr, 'exh'))
    n = 1500 if tier == 'quick' else 12000
    for _ in range(n):
        b = G.rand_text(r); pairs.append((b, G.rand_edit_text(r, b), G.rand_edit_text(r, b), 'rand'))
    return pairs

def tool_triples(chk, tier):
    r = chk.rng
    out = []
    small = G.small_texts(2)
    allt = [(b, l, rr) for b in small for l in small for rr in small]
    if tier == 'quick':
        r.shuffle(allt); allt = allt[:1200]
    out += [(b, l, rr, 'exh') for b, l, rr in allt]
    for _ in range(600 if tier == 'quick' else 6000):
        b = G.rand_text(r, exotic=False, maxlines=8)
        out.append((b, G.rand_edit_text(r, b, False), G.rand_edit_text(r, b, False), 'rand'))
    # position-wise rewrites (the flagging clause), 1..3 regions, with and without final newline
    for _ in range(300 if tier == 'quick' else 3000):
        n = r.choice([2, 3, 5, 8, 12])
        bl = ['l%d' % i for i in range(n)]; ll = list(bl); rl = list(bl)
        for i in r.sample(range(n), min(n, r.choice([1, 1, 2, 3]))):
            ll[i] = 'L%d' % i; rl[i] = 'R%d' % i
        for i in r.sample(range(n), r.choice([0, 0, 1])): ll[i] = 'M%d' % i
        nl = '\n' if r.random() < 0.6 else ''
        out.append(('\n'.join(bl) + nl, '\n'.join(ll) + nl, '\n'.join(rl) + nl, 'clash'))
    # carriage returns that are not part of a CRLF pair (inside a line, doubled, or as the last character before LF):
    # git merge-file and diff3 split on LF only and hand them back verbatim; every line is LF-terminated here
    crpool = ['p\rq', 'k = 1\r', "s = 'a\rb'", 'x', 'y', 'z = 2', 'w\r\rv', 'n', 'm = 3']
    for i in range(150 if tier == 'quick' else 1500):
        bl = [r.choice(crpool) for _ in range(r.choice([1, 2, 3, 4, 6]))]
        ll = list(bl); rl = list(bl)
        for side, tag in ((ll, 'L'), (rl, 'R')):
            for _ in range(r.choice([0, 1, 1, 2])):
                k = r.random(); fresh = r.choice(['%s%d\r%s' % (tag, i, tag.lower()), '%s%d = 0' % (tag, i), "%s%d = 'a\rb'" % (tag, i)])
                if k < 0.6 or not side: side.insert(r.randint(0, len(side)), fresh)
                elif k < 0.8: side[r.randrange(len(side))] = fresh
                else: del side[r.randrange(len(side))]
        out.append(('\n'.join(bl) + '\n', ''.join(x + '\n' for x in ll), ''.join(x + '\n' for x in rl), 'cr'))
    return out

def counter_cases(chk, tier):
    r = chk.rng
    keys = ['source', 'metadata', 'outputs', 'execution_count', 'attachments', 'id']
    mdkeys = ['collapsed', 'scrolled', 'autoscroll', 'tags', 'name']
    def leaf(k):
        return {'op': r.choice(['replace', 'add', 'remove']), 'key': k, **({'value': None})}
    def gen():
        d = []
        for k in sorted(r.sample(keys, r.choice([1, 1, 2, 3]))):
            if k == 'source':
                d.append({'op': 'patch', 'key': k, 'diff': [{'op': 'addrange', 'key': 0, 'valuelist': ['x\n']}]})
            elif k == 'metadata':
                if r.random() < 0.2: d.append(leaf(k))
                else: d.append({'op': 'patch', 'key': k, 'diff': [leaf(m) for m in sorted(r.sample(mdkeys, r.choice([1, 1, 2])))]})
            elif k == 'outputs':
                sub = []
                for i in sorted(r.sample(range(4), r.choice([1, 2]))):
                    q = r.random()
                    if q < 0.6: sub.append({'op': 'patch', 'key': i, 'diff': [leaf(r.choice(['execution_count', 'execution_count', 'data', 'metadata']))]})
                    elif q < 0.8: sub.append({'op': 'addrange', 'key': i, 'valuelist': []})
                    else: sub.append({'op': 'removerange', 'key': i, 'length': 1})
                d.append({'op': 'patch', 'key': k, 'diff': sub})
            else:
                d.append(leaf(k))
        for e in d:
            if e['op'] in ('remove',): e.pop('value', None)
            for s in e.get('diff', []):
                if s.get('op') == 'remove': s.pop('value', None)
                for s2 in s.get('diff', []):
                    if s2.get('op') == 'remove': s2.pop('value', None)
        return d
    return [{'op': 'counter', 'diff': gen(), 'path': ['cells', r.randrange(3)]} for _ in range(300 if tier == 'quick' else 3000)]

def cellconf_cases(chk, tier):
    r = chk.rng; out = []
    for nb in range(0, 4):
        for start in range(0, nb + 1):
            for lr in range(0, 3):
                for rr in range(0, 3):
                    if start + max(lr, rr) > nb: continue
                    out.append({'op': 'cellconf', 'base_cells': ['b%d' % i for i in range(nb)], 'start': start,
                                'lvals': ['L%d' % i for i in range(r.choice([1, 2]))], 'lremove': lr,
                                'rvals': ['R%d' % i for i in range(r.choice([1, 2, 3]))], 'rremove': rr})
    return out

def isrc_cases(chk, tier, triples):
    r = chk.rng; out = []
    tri = list(triples); r.shuffle(tri)
    for b, l, rr, _ in tri[:250 if tier == 'quick' else 2500]:
        if l != b and rr != b and l != rr:
            out.append({'op': 'isrc', 'base': b, 'local': l, 'remote': rr})
        if l != b:
            out.append({'op': 'isrc', 'base': b, 'local': l if r.random() < 0.5 else None, 'remote': None} if r.random() < 0.5
                       else {'op': 'isrc', 'base': b, 'local': None, 'remote': l})
    return [c for c in out if not (c['local'] is None and c['remote'] is None) and
            (c['local'] is None or c['remote'] is None or True)]

def nb_cases(chk, tier):
    r = chk.rng; out = []
    cdir = os.path.join(core.VERIF, 'corpus', PROP)
    if os.path.isdir(cdir):
        for f in sorted(os.listdir(cdir)):
            c = json.load(open(os.path.join(cdir, f)))
            out.append({'base': c['base'], 'local': c['local'], 'remote': c['remote'], 'scenario': 'corpus:' + f})
    per = 14 if tier == 'quick' else 160
    for sc in sorted(set(G.SCENARIOS)):
        for i in range(per * (3 if sc == 'random' else 1)):
            b, l, rr, s = G.gen_triple(r, sc)
            out.append({'base': b, 'local': l, 'remote': rr, 'scenario': s})
    # the shared notebook generator (rich notebooks: outputs, attachments, metadata, ids): C03's triples
    try:
        import gennb, random
        r2 = random.Random(r.getrandbits(32))      # own stream: a change in gennb cannot shift the cases above
        for i in range(60 if tier == 'quick' else 1500):
            b, l, rr = gennb.gen_triple(r2, conflict_bias=0.7)
            out.append({'base': b, 'local': l, 'remote': rr, 'scenario': 'gennb'})
    except Exception as e:
        chk.notes.append('harness/gennb.gen_triple not usable: %r' % (e,))
    # concurrent multi-cell insert runs at one position: dissimilar blocks of every size pair 0..3 x 0..3 before a similar
    # pair (systematic), plus random segment sequences; own stream, drawn last so that the cases above do not move
    import random
    r3 = random.Random(r.getrandbits(32))
    for segs in G.insert_run_specs(r3, 24 if tier == 'quick' else 600):
        b, l, rr, s = G.gen_insert_runs(r3, segs)
        out.append({'base': b, 'local': l, 'remote': rr, 'scenario': s})
    return out

# ------------------------------------------------------------------ shrinking (cheap): drop cells common to all three
def shrink_case(sb, cfg, case, sig):
    def fails(c):
        res = impl(sb, cfg, [dict(c, op='merge')], shards=1)[0]
        s, _ = judge_merge(c, res)
        return s == sig
    def cands(c):
        for i, cell in enumerate(c['base']['cells']):
            if cell in c['local']['cells'] and cell in c['remote']['cells']:
                d = copy.deepcopy(c)
                d['base']['cells'].pop(i); d['local']['cells'].remove(cell); d['remote']['cells'].remove(cell)
                yield d
    return core.shrink(case, fails, cands, budget=12)

# ------------------------------------------------------------------ main
def run_check(tier, seed):
    chk = core.Check(PROP, tier, seed)
    b = core.build()
    chk.proof_obligations('Props/C07.v', b)
    sb = Sandbox()
    try:
        return _run(chk, tier, sb)
    finally:
        sb.close()

def _run(chk, tier, sb):
    hist = {}; t1 = 0; mism = 0
    groups = []
    # ---- T1a builtin renderer
    texts = render_texts(chk, tier)
    bres = impl(sb, 'builtin', [{'op': 'builtin', 'b': b_, 'l': l, 'r': r_} for b_, l, r_, _ in texts])
    items = []; bidx = []
    builtin_calls = []
    for i, ((b_, l, r_, src), res) in enumerate(zip(texts, bres)):
        hist['render:' + src] = hist.get('render:' + src, 0) + 1
        if 'ok' not in res:
            chk.broken_obligation('correspondence:builtin_merge_render', {'b': b_, 'l': l, 'r': r_, 'impl': res}); continue
        m, st = res['ok']
        items.append('(%s, %s, %s, %s, %d%%Z)' % (cs(b_), cs(l), cs(r_), cs(m), st)); bidx.append(i)
        builtin_calls.append((b_, l, r_, m, st, 'builtin'))
    groups.append(('builtin', 'chk_builtin', 'pystr * pystr * pystr * pystr * Z', items))
    # ---- tool contract on real git merge-file / diff3 invocations
    triples = tool_triples(chk, tier)
    calls = list(builtin_calls)
    for cfg in ('git', 'diff3'):
        rres = impl(sb, cfg, [{'op': 'render', 'b': b_, 'l': l, 'r': r_} for b_, l, r_, _ in triples])
        for (b_, l, r_, src), res in zip(triples, rres):
            hist['tool:%s:%s' % (cfg, src)] = hist.get('tool:%s:%s' % (cfg, src), 0) + 1
            if 'ok' in res:
                if res['ok'][2] != cfg:
                    chk.broken_obligation('sandbox:tool-detection', {'wanted': cfg, 'got': res['ok'][2]}); break
                calls.append((b_, l, r_, res['ok'][0], res['ok'][1], cfg))
            # a raising tool call (e.g. IndexError on empty output) is C03's subject
    # ---- T1b resolve_strategy_inline_source under the three tools
    ic = isrc_cases(chk, tier, triples)
    iitems = []; imeta = []
    for cfg in CONFIGS:
        ires = impl(sb, cfg, ic)
        for c, res in zip(ic, ires):
            if 'ok' not in res: continue
            o = res['ok']
            if o['n'] != 1:
                chk.broken_obligation('correspondence:resolve_strategy_inline_source', {'case': c, 'impl': o}); continue
            for cl in o['calls']: calls.append(tuple(cl) + (cfg,))
            t = o['calls'][0][3:5] if o['calls'] else ['', 0]
            act = {'local_then_remote': 'ActLocalThenRemote', 'remote_then_local': 'ActRemoteThenLocal', 'custom': 'ActCustom'}.get(o['action'])
            if act is None:
                chk.broken_obligation('correspondence:resolve_strategy_inline_source', {'case': c, 'impl': o}); continue
            iitems.append('(%s, %s, %s, (%s, %d%%Z), (%s, %s, %s))' % (cs(c['base']), copt(c['local']), copt(c['remote']),
                          cs(t[0]), t[1], act, 'true' if o['conflict'] else 'false', cs(o['source'])))
            imeta.append((cfg, c, o))
    groups.append(('isrc', 'chk_isrc', 'pystr * option pystr * option pystr * (pystr * Z) * (isrc_action * bool * pystr)', iitems))
    # ---- T1c countering functions, T1d cell conflict blocks
    cc = counter_cases(chk, tier)
    cres = impl(sb, 'builtin', cc)
    citems = []; cmeta = []
    want_tr = ['/cells/*/execution_count', '/cells/*/outputs/*/execution_count', '/cells/*/metadata/collapsed',
               '/cells/*/metadata/autoscroll', '/cells/*/metadata/scrolled']
    for c, res in zip(cc, cres):
        if 'ok' not in res:
            chk.broken_obligation('correspondence:countering', {'case': c, 'impl': res}); continue
        o = res['ok']
        if sorted(o['transients']) != sorted(want_tr) or o['countering'] != ['/cells/*/source']:
            chk.broken_obligation('source-fact:default transients / countering strategies changed',
                                  {'transients': o['transients'], 'countering': o['countering']}); break
        citems.append('(%s, %s, %s, %s, %s)' % (cdiff(c['diff']), cpath(c['path']), 'true' if o['transient'] else 'false',
                      'true' if o['will_counter'] else 'false', '[' + '; '.join(ccentry(x) for x in o['counter_diff']) + ']' if o['counter_diff'] else '(@nil centry)'))
        cmeta.append((c, o))
    groups.append(('counter', 'chk_counter', 'diff * path * bool * bool * list centry', citems))
    kc = cellconf_cases(chk, tier)
    kres = impl(sb, 'builtin', kc)
    kitems = []; kmeta = []
    for c, res in zip(kc, kres):
        if 'ok' not in res:
            chk.broken_obligation('correspondence:make_inline_cell_conflict', {'case': c, 'impl': res}); continue
        outs = []
        for ct, s in res['ok']:
            m = CELL_MARK.match(s)
            outs.append(m.group(1).replace('&lt;', '<').replace('&gt;', '>') if (ct == 'markdown' and m) else s)
        cl = lambda xs: '[' + '; '.join(cs(x) for x in xs) + ']' if xs else '(@nil pystr)'
        kitems.append('(%s, %d%%nat, %s, %d%%nat, %s, %d%%nat, %s)' % (cl(c['base_cells']), c['start'], cl(c['lvals']), c['lremove'], cl(c['rvals']), c['rremove'], cl(outs)))
        kmeta.append((c, res['ok']))
    groups.append(('cellconf', 'chk_cellconf', 'list pystr * nat * list pystr * nat * list pystr * nat * list pystr', kitems))
    # ---- T2 whole notebooks, three configurations
    cases = nb_cases(chk, tier)
    nontrivial = set(); nviol = 0; merge_errors = {}
    nb_eval = 0
    for cfg in CONFIGS:
        mres = impl(sb, cfg, [dict(c, op='merge') for c in cases])
        reported = set()
        for c, res in zip(cases, mres):
            nb_eval += 1
            hist['nb:' + c['scenario']] = hist.get('nb:' + c['scenario'], 0) + 1
            if 'err' in res:
                merge_errors[res['err']] = merge_errors.get(res['err'], 0) + 1
                for cl in res.get('calls', []): calls.append(tuple(cl) + (cfg,))
                continue
            if res['ok'].get('tool') != cfg:
                chk.broken_obligation('sandbox:tool-detection', {'wanted': cfg, 'got': res['ok'].get('tool')}); break
            for cl in res['ok']['calls']: calls.append(tuple(cl) + (cfg,))
            if res['ok']['conflicts'] or res['ok']['calls']:
                nontrivial.add((cfg, hashlib.sha1(json.dumps([c['base'], c['local'], c['remote']], sort_keys=True).encode()).hexdigest()))
            sig, detail = judge_merge(c, res)
            if sig:
                case = {'base': c['base'], 'local': c['local'], 'remote': c['remote'], 'config': cfg, 'scenario': c['scenario']}
                if sig not in reported and not any(f.get('signature') == sig and f.get('status') == 'known' for f in chk.findings):
                    reported.add(sig)
                    small = shrink_case(sb, cfg, {k: case[k] for k in ('base', 'local', 'remote')}, sig)
                    res2 = impl(sb, cfg, [dict(small, op='merge')], shards=1)[0]
                    s2, d2 = judge_merge(small, res2)
                    if s2 == sig: case.update(small); detail = d2
                if chk.violation(sig, case, detail): nviol += 1
    # ---- the same property in a process that has seen a merge ABORTED by an exception (harness/prelude.py): a long-lived
    # process must answer as a fresh one; the same judge is applied to merges made after the aborted call
    both = [c for c in cases if any((lc.get('source') != bc.get('source')) and (rc.get('source') != bc.get('source'))
                                    for bc, lc, rc in zip(c['base']['cells'], c['local']['cells'], c['remote']['cells']))]
    sub = (both + cases)[: (40 if tier == 'quick' else 400)]
    aborted_evals = 0
    for cfg in CONFIGS:
        ares = core.run_impl([dict(c, op='merge') for c in sub], shards=12, script=RUNNER, env_extra=dict(sb.env(cfg), NBV_PRELUDE='abort'))
        rep = set()
        for c, res in zip(sub, ares):
            aborted_evals += 1
            if 'err' in res: continue                      # a raising merge is C03's subject
            sig, detail = judge_merge(c, res)
            if sig:
                sig = 'after-aborted-merge:' + sig
                if sig in rep: continue
                rep.add(sig)
                if chk.violation(sig, {'base': c['base'], 'local': c['local'], 'remote': c['remote'], 'config': cfg, 'scenario': c['scenario'],
                                       'history': 'one generic merge under strategy "fail" raised inside the line-wise string merge earlier in this process (harness/prelude.py)'}, detail):
                    nviol += 1
    chk.cov['merges_judged_after_an_aborted_merge_in_the_same_process'] = aborted_evals
    # ---- the contract on every real call seen (this is the hypothesis of the inline_source theorems)
    seen = set(); contract_items = []; ncalls = {'git': 0, 'diff3': 0, 'builtin': 0}; cviol = {}
    for b_, l, r_, m, st, cfg in calls:
        key = (b_, l, r_, cfg)
        if key in seen: continue
        seen.add(key); ncalls[cfg] += 1
        probs = contract(b_, l, r_, m, st)
        if len(contract_items) < (3000 if tier == 'quick' else 12000) and max(len(b_), len(l), len(r_), len(m)) < 400:
            contract_items.append('(%s, %s, %s, %s, %d%%Z, %s)' % (cs(b_), cs(l), cs(r_), cs(m), st, 'false' if probs else 'true'))
        if probs:
            sig = contract_signature(b_, l, r_, m, st, cfg, probs)
            cviol.setdefault((sig, cfg), []).append({'b': b_, 'l': l, 'r': r_, 'merged': m, 'status': st, 'problems': probs[:5]})
    for (sig, cfg), lst in sorted(cviol.items()):
        lst.sort(key=lambda c: len(c['b']) + len(c['l']) + len(c['r']))
        # a tool call breaking the contract is a violation of the property in that configuration (the call IS a cell merge);
        # the smallest case of each signature is the replay
        for c in lst:
            if not chk.violation(sig, {'render': {'b': c['b'], 'l': c['l'], 'r': c['r']}, 'config': cfg}, c): continue
    groups.append(('contract', 'chk_contract', 'pystr * pystr * pystr * pystr * Z * bool', contract_items))
    # ---- run the model
    try:
        bad = coq_eval(groups)
    except Exception as e:
        chk.broken_obligation('model-evaluation', str(e)[-1500:]); bad = None
        if os.environ.get('C07_DEBUG'): print(str(e)[-3000:])
    if bad is not None:
        t1 = sum(len(g[3]) for g in groups)
        for i in bad['builtin'][:3]:
            b_, l, r_, _ = texts[bidx[i]]
            chk.broken_obligation('correspondence:builtin_merge_render', {'b': b_, 'l': l, 'r': r_, 'impl': bres[bidx[i]]['ok']})
        for i in bad['isrc'][:3]:
            chk.broken_obligation('correspondence:resolve_strategy_inline_source', {'config': imeta[i][0], 'case': imeta[i][1], 'impl': imeta[i][2]})
        for i in bad['counter'][:3]:
            chk.broken_obligation('correspondence:countering', {'case': cmeta[i][0], 'impl': {k: cmeta[i][1][k] for k in ('transient', 'will_counter', 'counter_diff')}})
        for i in bad['cellconf'][:3]:
            chk.broken_obligation('correspondence:make_inline_cell_conflict', {'case': kmeta[i][0], 'impl': kmeta[i][1]})
        for i in bad['contract'][:3]:
            chk.broken_obligation('correspondence:contract-transcription', {'item': contract_items[i][:600]})
        mism = sum(len(v) for v in bad.values())
    chk.cov.update({
        'evaluations': nb_eval + len(seen),
        'distinct_nontrivial': len(nontrivial) + sum(1 for (b_, l, r_, cfg) in seen if l != r_),
        'rule': 'notebook triples (per scenario of harness/c07_gen.py incl. concurrent multi-cell insert runs insert_runs:*, 3 tool configurations each) counted non-trivial when the merge has a conflicted decision or called merge_render, distinct by sha1 of the triple + configuration; text triples (exhaustive <=2 lines over {a,b,c} with/without final newline, random edits incl. CR/FF/U+2028 terminators and marker-like lines, position-wise clashes) counted when local != remote, distinct by (b,l,r,configuration)',
        'input_distribution': hist, 'traces_validated_against_impl': t1, 'model_impl_mismatches': mism,
        'tool_calls_contract_checked': ncalls, 'merge_errors_not_judged_here': merge_errors,
        'notebook_merges_judged': nb_eval, 'exhaustive': False,
    })
    for c in cases[:2]: chk.sample({'scenario': c['scenario'], 'base_sources': [src_text(x) for x in c['base']['cells']],
                                    'local_sources': [src_text(x) for x in c['local']['cells']], 'remote_sources': [src_text(x) for x in c['remote']['cells']]})
    for t in triples[:1] + triples[-2:]: chk.sample({'b': t[0], 'l': t[1], 'r': t[2]})
    return chk.finish('proof', ASSUME)

def run(tier, seed):      # noqa: F811  (entry point; the helper above is rebound below)
    return run_check(tier, seed)

def replay(path):
    body = json.load(open(path))
    if body.get('kind') == 'broken-obligation':
        print(json.dumps(body['obligations'], indent=1)[:3000]); return 1
    case = body['case']; cfg = case.get('config', 'git')
    known = {f.get('signature') for f in core.load_findings() if f.get('property') == PROP and f.get('status') == 'known'}
    sb = Sandbox()
    try:
        if 'render' in case:
            t = case['render']
            res = core.run_impl([{'op': 'render', 'b': t['b'], 'l': t['l'], 'r': t['r']}], shards=1, script=RUNNER, env_extra=sb.env(cfg))[0]
            if 'ok' in res:
                probs = contract(t['b'], t['l'], t['r'], res['ok'][0], res['ok'][1])
                sig = contract_signature(t['b'], t['l'], t['r'], res['ok'][0], res['ok'][1], cfg, probs) if probs else None
            else:
                probs = [['error', res]]; sig = 'tool-call-raises:' + str(res.get('err'))
            print(json.dumps({'config': cfg, 'impl': res, 'problems': probs, 'signature': sig}, indent=1)[:3000])
        else:
            res = core.run_impl([dict(case, op='merge')], shards=1, script=RUNNER, env_extra=sb.env(cfg))[0]
            sig, detail = judge_merge(case, res)
            print(json.dumps({'config': cfg, 'signature': sig, 'detail': detail}, indent=1, default=str)[:4000])
    finally:
        sb.close()
    if sig is None: return 0
    if sig in known:
        print('KNOWN-FINDING: property=%s %s' % (PROP, sig)); return 0
    print('VIOLATION property=%s replay=%s' % (PROP, path)); return 1
