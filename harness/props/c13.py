"""C13 -- diff, patch, merge and rendering never modify their inputs; results do not alias inputs.

Proof side : coq/Props/C13.v over the store-passing model coq/Diff/Store.v (+ Gen/C13Facts.v regenerated from /repo).
Tie (T1)   : the model's patch_s / dso are evaluated with vm_compute under coqc (generated cases file) on the same
             inputs as nbdime's patch / diff_single_outputs; compared exactly: result value in insertion order, which
             objects of the result are shared with the base / with the diff (and where), key order and value of both
             outputs after diff_single_outputs incl. under injected faults.  The Coq witness of the aliasing theorem is
             replayed on nbdime.
Oracle (T2): harness/c13_runner.py evaluates the property itself around every public call: deep snapshots of every
             argument before/after, recomputation from the same objects, mutation of the whole result followed by a
             re-snapshot of the arguments.  No nbdime code is used by the oracle."""
import os, sys, json, re, subprocess, tempfile, shutil, copy, hashlib
import core, genjson
import c13_gen as G

PROP = 'C13'
RUNNER = 'c13_runner.py'
ASSUME = [
    'copy.deepcopy(x) returns fresh objects for every list/dict reachable from x and an equal value (model: Store.deepcopy)',
    'inputs are trees of list/dict/atoms as produced by json.load / nbformat.from_dict (no internal sharing, no cycles)',
    'notion of "serialises to the same JSON": the JSON value, objects as unordered maps = json.dumps(sort_keys=True), which is what '
    'nbformat.write emits; insertion-order changes (diff_single_outputs moves "data" last) are measured and reported separately, '
    'and proved (diff_outputs_moves_data_last), but are not violations',
    'nbformat.from_dict builds new containers (patch_notebook / apply_decisions results are fresh for that reason); random cell ids '
    '(uuid4) are fixed per call when results are recomputed',
    'store model covers patch/patch_list/patch_dict, diff_single_outputs, MergeDecisionBuilder.validated, apply_decisions; '
    'differs, strategies and renderers are covered by the snapshot oracle only',
]

PATCH_CALLS = ('patch', 'patch_plain', 'patch_nb_generic', 'patch_notebook')
DIFF_CALLS = ('diff', 'diff_notebooks', 'decide_merge', 'decide_notebook_merge', 'merge_notebooks')

# ------------------------------------------------------------------------------------------ signatures
def _is_value_path(p):
    """does the path end at a value carried by a diff entry:  (..., 'value')  or  (..., 'valuelist', i)"""
    if p and p[-1] == 'value': return True
    return len(p) >= 2 and p[-2] == 'valuelist' and isinstance(p[-1], int)

def classify(case, ob, raw):
    """Refine a raw signature by where the shared objects sit (a predicate over the minimised case)."""
    m = re.match(r'result-aliases-input:([^:]+):([^:]+)$', raw)
    if not m: return raw
    call, arg = m.group(1), m.group(2)
    pairs = (ob.get('shared') or {}).get(arg) or []
    if not pairs: return raw + ':unlocated'
    if call in PATCH_CALLS and arg == 'diff' and all(_is_value_path(q) for p, q in pairs):
        return 'patch-result-shares-diff-value'
    if call in DIFF_CALLS and arg in ('b', 'local', 'remote') and all(_is_value_path(p) for p, q in pairs) \
            and (call != 'merge_notebooks' or all(p and p[0] == 1 for p, q in pairs)):
        return 'diff-value-shares-target-object'
    if call in ('decide_notebook_merge', 'merge_notebooks', 'decide_merge') and arg == 'base' \
            and all(_is_value_path(p) and 'custom_diff' in p for p, q in pairs) \
            and (call != 'merge_notebooks' or all(p and p[0] == 1 for p, q in pairs)):
        return 'decision-custom-diff-shares-base-object'
    return raw + ':at:' + json.dumps(pairs[0][0])[:80]

# ------------------------------------------------------------------------------------------ cases
def gen_cases(chk, tier):
    r = chk.rng
    n = {'quick': dict(js=120, js3=80, nb=70, nb3=60, nb3b=24, ex=400), 'thorough': dict(js=2500, js3=1500, nb=1200, nb3=1000, nb3b=400, ex=6000)}[tier]
    cases = []
    cdir = os.path.join(core.VERIF, 'corpus', PROP)
    if os.path.isdir(cdir):
        for f in sorted(os.listdir(cdir)):
            c = json.load(open(os.path.join(cdir, f))); c['src'] = 'corpus:' + f; cases.append(c)
    # exhaustive small scope for diff / patch
    conts = [v for v in genjson.small_values(1) if isinstance(v, (list, dict))]
    deep = [v for v in genjson.small_values(2) if isinstance(v, (list, dict))]
    ex = [(a, b) for a in conts for b in conts if type(a) is type(b)]
    r.shuffle(ex)
    ex = ex[:n['ex'] // 2] + [(r.choice(deep), r.choice(deep)) for _ in range(n['ex'] // 2)]
    for a, b in ex:
        if type(a) is not type(b): continue
        for c in ('diff', 'patch'): cases.append({'call': c, 'a': a, 'b': b, 'src': 'exh'})
    for _ in range(n['js']):
        a, b = genjson.gen_pair(r, depth=r.choice([2, 3, 3, 4]))
        for c in G.JSON_CALLS: cases.append({'call': c, 'a': a, 'b': b, 'src': 'json'})
    for _ in range(n['js3']):
        b_, l, rr = G.gen_json_triple(r, depth=r.choice([2, 3, 3]))
        for c in G.JSON3_CALLS:
            if c == 'decide_merge_with_diff': continue
            cases.append({'call': c, 'base': b_, 'local': l, 'remote': rr, 'src': 'json3'})
    for _ in range(n['nb']):
        a, b = G.gen_nb_pair(r)
        for c in G.NB_CALLS: cases.append({'call': c, 'a': a, 'b': b, 'src': 'nb'})
    for _ in range(n['nb3']):
        b_, l, rr = G.gen_nb_triple(r)
        args = r.choice(G.MERGE_ARGS)
        for c in G.NB3_CALLS: cases.append({'call': c, 'base': b_, 'local': l, 'remote': rr, 'args': args, 'src': 'nb3'})
    # re-bundled decisions: a container (outputs list, cell / notebook metadata) with one child in conflict and a sibling edited on
    # both sides in disjoint parts -> several decisions on one common_path carrying patch ops on the same key (c13_gen, comment there)
    for _ in range(n['nb3b']):
        b_, l, rr, shape = G.gen_nb_triple_bundled(r)
        args = r.choice(G.BUNDLING_ARGS)
        for c in G.NB3_CALLS: cases.append({'call': c, 'base': b_, 'local': l, 'remote': rr, 'args': args, 'src': 'nb3-bundled:' + shape})
    # conflicting cell insertions at one position where the sides keep different base cells behind it (c13_gen.gen_nb_triple_cellclash)
    for _ in range(n['nb3b']):
        b_, l, rr, shape = G.gen_nb_triple_cellclash(r)
        args = r.choice([None, {'merge_strategy': 'inline'}, {'merge_strategy': 'inline', 'ignore_transients': False}])
        for c in G.NB3_CALLS: cases.append({'call': c, 'base': b_, 'local': l, 'remote': rr, 'args': args, 'src': 'nb3-cellclash:' + shape})
    # diffs / decision lists from elsewhere (not produced by nbdime's differ, whose dict-level diffs are always key-sorted): hand-built
    # without nbdime, or nbdime's own re-listed -- dict-level entries in arbitrary order at every nesting level, custom diffs edited by
    # a front end -- handed to patch / apply_decisions and to the renderers (c13_gen.gen_foreign_cases, c13_runner.foreign_order)
    nf = {'quick': dict(hand_js=40, hand_nb=30, hand_dec=30, re_js=30, re_nb=30, re_js3=20, re_nb3=20),
          'thorough': dict(hand_js=600, hand_nb=450, hand_dec=450, re_js=450, re_nb=450, re_js3=300, re_nb3=300)}[tier]
    cases.extend(G.gen_foreign_cases(r, nf))
    return cases

def strip(case):
    return {k: v for k, v in case.items() if k != 'src'}

def sandbox_env(d):
    return {'HOME': d, 'XDG_CONFIG_HOME': os.path.join(d, 'xdg'), 'JUPYTER_CONFIG_DIR': os.path.join(d, 'jupyter'),
            'JUPYTER_DATA_DIR': os.path.join(d, 'jdata'), 'JUPYTER_RUNTIME_DIR': os.path.join(d, 'jrun'),
            'IPYTHONDIR': os.path.join(d, 'ipython'), 'GIT_CONFIG_GLOBAL': os.path.join(d, 'gitconfig'),
            'GIT_CONFIG_NOSYSTEM': '1', 'TMPDIR': d}

# ------------------------------------------------------------------------------------------ Coq term printing
def cq_str(s):
    if all(32 <= ord(c) < 127 and c != '"' for c in s):
        return '(of_ascii "%s"%%string)' % s
    return '[' + '; '.join('%d%%N' % ord(c) for c in s) + ']'

def cq_z(n):
    return '(%d)%%Z' % n

def cq_json(x):
    if x is None: return 'JNull'
    if x is True: return '(JBool true)'
    if x is False: return '(JBool false)'
    if isinstance(x, int): return '(JInt %s)' % cq_z(x)
    if isinstance(x, float):
        if x == 0.0:
            return '(JFlt 0%%Z %s)' % ('1%Z' if str(x).startswith('-') else '0%Z')
        num, den = x.as_integer_ratio()
        e = -(den.bit_length() - 1)
        while num % 2 == 0: num //= 2; e += 1
        return '(JFlt %s %s)' % (cq_z(num), cq_z(e))
    if isinstance(x, str): return '(JStr %s)' % cq_str(x)
    if isinstance(x, list): return '(JArr [' + '; '.join(cq_json(v) for v in x) + '])'
    if isinstance(x, dict): return '(JObj [' + '; '.join('(%s, %s)' % (cq_str(k), cq_json(v)) for k, v in x.items()) + '])'
    raise ValueError('not JSON: %r' % (x,))

def cq_key(k):
    return '(KI %d)' % k if isinstance(k, int) and not isinstance(k, bool) else '(KS %s)' % cq_str(k)

def cq_diff(d):
    out = []
    for e in d:
        op, k = e['op'], cq_key(e['key'])
        if op == 'add': out.append('(DAdd %s %s)' % (k, cq_json(e['value'])))
        elif op == 'remove': out.append('(DRemove %s)' % k)
        elif op == 'replace': out.append('(DReplace %s %s)' % (k, cq_json(e['value'])))
        elif op == 'addrange':
            vl = e['valuelist']
            out.append('(DAddRange %s %s)' % (k, '(VStr %s)' % cq_str(vl) if isinstance(vl, str)
                                              else '(VList [' + '; '.join(cq_json(v) for v in vl) + '])'))
        elif op == 'removerange': out.append('(DRemoveRange %s %d)' % (k, e['length']))
        elif op == 'patch': out.append('(DPatch %s %s)' % (k, cq_diff(e['diff'])))
        else: raise ValueError('op ' + op)
    return '[' + '; '.join(out) + ']'

def run_coq_cases(terms, fuel_note=''):
    """terms: list of (model_term, expected_json_term).  Returns (list of mismatching indices, coq output) or (None, log)."""
    if not terms: return [], ''
    d = tempfile.mkdtemp(prefix='nbv_c13_')
    try:
        lines = ['From Coq Require Import String List NArith ZArith Bool.',
                 'From NB Require Import Base.Res Base.Json Diff.DiffFormat Diff.Codec Diff.Store.',
                 'Import ListNotations.', '']
        for i, (m, e) in enumerate(terms):
            lines.append('Definition c%d : bool := json_eqb %s %s.' % (i, m, e))
        lines.append('Definition bad : list nat := map fst (filter (fun p => negb (snd p)) [%s]).' %
                     '; '.join('(%d, c%d)' % (i, i) for i in range(len(terms))))
        lines.append('Eval vm_compute in bad.')
        f = os.path.join(d, 'C13Cases.v'); open(f, 'w').write('\n'.join(lines) + '\n')
        p = subprocess.run(['timeout', '900', 'coqc', '-Q', core.COQ, 'NB', f], capture_output=True, text=True, cwd=d)
        out = p.stdout + p.stderr
        if p.returncode != 0: return None, out[-1500:]
        m = re.search(r'=\s*\[(.*?)\]\s*:\s*list nat', out, re.S)
        if not m: return None, out[-1500:]
        body = m.group(1).strip()
        return ([int(x) for x in re.findall(r'\d+', body)] if body else []), out
    finally:
        shutil.rmtree(d, ignore_errors=True)

def eval_coq_term(term):
    d = tempfile.mkdtemp(prefix='nbv_c13_')
    try:
        src = ('From Coq Require Import String List NArith ZArith Bool.\n'
               'From NB Require Import Base.Res Base.Json Diff.DiffFormat Diff.Codec Diff.Store.\nImport ListNotations.\n'
               'Eval vm_compute in %s.\n' % term)
        f = os.path.join(d, 'C13One.v'); open(f, 'w').write(src)
        p = subprocess.run(['timeout', '300', 'coqc', '-Q', core.COQ, 'NB', f], capture_output=True, text=True, cwd=d)
        return (p.stdout + p.stderr)[-1200:]
    finally:
        shutil.rmtree(d, ignore_errors=True)

# ------------------------------------------------------------------------------------------ T1 expectations
def preorder_shared(value, tagged):
    """[[path, tag]] for the shared objects of the (insertion-ordered) result value, in preorder, not entering them"""
    out = []
    def walk(v, path):
        if isinstance(v, (list, dict)):
            t = tagged.get(json.dumps(path))
            if t is not None: out.append([list(path), t]); return
            if isinstance(v, list):
                for i, x in enumerate(v): walk(x, path + [i])
            else:
                for k, x in v.items(): walk(x, path + [k])
    walk(value, [])
    return out

def patch_expectation(res):
    if 'err' in res: return cq_json(res['err'])
    tagged = {}
    for p, q in res.get('shared_obj', []): tagged[json.dumps(p)] = 0
    for p, q in res.get('shared_diff', []): tagged.setdefault(json.dumps(p), 1)
    sh = preorder_shared(res['ok'], tagged)
    return cq_json([res['ok'], [[p, t] for p, t in sh]])

def dso_expectation(t, res):
    if 'fault' in res:
        code = {'deepcopy': None, 'diff': 3}[res['fault']]
        if code is None: code = 1 + t['fault'][1]
    elif 'err' in res: code = res['err']
    else: code = 0
    return cq_json([code, res['keys_a'], res['keys_b'], res['value_a'], res['value_b']])

def cq_fault(f):
    if f is None: return 'None'
    return '(Some %d)' % (f[1] if f[0] == 'deepcopy' else 2)

def t1_tasks(chk, tier, diffs_from):
    """patch traces: (a, d) with d the implementation's own diffs (from the observed diff calls) + hand-made entries;
    outputs traces: pairs of display outputs x fault points"""
    r = chk.rng
    ptasks = []
    for a, d in diffs_from:
        ptasks.append({'op': 'patch_trace', 'a': a, 'd': d})
    # hand-made diffs exercising add / replace / remove and error branches
    V = [[], {}, [[1]], {'k': [2]}, 3, 'ab']
    for v in V:
        ptasks.append({'op': 'patch_trace', 'a': {'x': [1], 'y': {'z': []}}, 'd': [{'op': 'add', 'key': 'n', 'value': v}]})
        ptasks.append({'op': 'patch_trace', 'a': {'x': [1], 'y': {'z': []}}, 'd': [{'op': 'replace', 'key': 'y', 'value': v}]})
        ptasks.append({'op': 'patch_trace', 'a': [[0], {'q': [1]}, 2], 'd': [{'op': 'add', 'key': 1, 'value': v}]})
        ptasks.append({'op': 'patch_trace', 'a': [[0], {'q': [1]}, 2], 'd': [{'op': 'replace', 'key': 0, 'value': v}, {'op': 'remove', 'key': 2}]})
        ptasks.append({'op': 'patch_trace', 'a': [[0], {'q': [1]}, 2], 'd': [{'op': 'addrange', 'key': 3, 'valuelist': [v, v]}]})
    ptasks.append({'op': 'patch_trace', 'a': [], 'd': [{'op': 'addrange', 'key': 0, 'valuelist': [[]]}]})           # the Coq witness
    ptasks.append({'op': 'patch_trace', 'a': {'x': 1}, 'd': [{'op': 'add', 'key': 'x', 'value': []}]})               # AssertionError
    ptasks.append({'op': 'patch_trace', 'a': {'x': 1}, 'd': [{'op': 'patch', 'key': 'y', 'diff': []}]})             # KeyError
    ptasks.append({'op': 'patch_trace', 'a': [1], 'd': [{'op': 'patch', 'key': 4, 'diff': []}]})                    # IndexError
    ptasks.append({'op': 'patch_trace', 'a': {'x': 1}, 'd': [{'op': 'remove', 'key': 'x'}, {'op': 'replace', 'key': 'x', 'value': [2]}]})
    ptasks.append({'op': 'patch_trace', 'a': {'x': 1}, 'd': [{'op': 'addrange', 'key': 'x', 'valuelist': [2]}]})   # NBDiffFormatError
    otasks = []
    nout = 60 if tier == 'quick' else 600
    for i in range(nout):
        a, b = G.gen_output_pair(r)
        if i % 15 == 7: a = {k: v for k, v in a.items() if k != 'data'}           # KeyError branch
        if i % 15 == 11: b = {k: v for k, v in b.items() if k != 'data'}
        for fault in (None, ['deepcopy', 0], ['deepcopy', 1], ['diff', 0]):
            otasks.append({'op': 'outputs', 'a': a, 'b': b, 'fault': fault})
    return ptasks, otasks

def small_enough(a, d, limit=1500):
    return len(json.dumps([a, d])) <= limit

# ------------------------------------------------------------------------------------------ run
def read_facts():
    """source facts of $NBDIME_REPO, computed by the translator itself (not read from the shared Gen/ file, which a
    concurrent run against another tree may have rewritten)"""
    p = subprocess.run([os.path.join(core.VERIF, 'tools', 'gen', 'gen_c13facts.py'), '--print'], capture_output=True, text=True,
                       env=dict(os.environ, NBDIME_REPO=core.REPO))
    if p.returncode != 0: return {}
    try: return json.loads(p.stdout.strip().splitlines()[-1])
    except Exception: return {}

def cq_bool(b):
    return 'true' if b else 'false'

def run(tier, seed):
    chk = core.Check(PROP, tier, seed)
    b = core.build()
    proofs_ok = chk.proof_obligations('Props/C13.v', b)
    facts = read_facts()
    sb = tempfile.mkdtemp(prefix='nbv_c13_home_')
    try:
        env = sandbox_env(sb)
        cases = gen_cases(chk, tier)
        results = core.run_impl([{'op': 'observe', 'case': strip(c)} for c in cases], shards=14, script=RUNNER, env_extra=env)
        # ---- T2: the property itself on every observed call
        hist = {}; nontriv = set(); reordered = {}; raw_first = {}; raw_count = {}; exc_count = {}; foreign = {}
        harness_errs = 0
        for c, ob in zip(cases, results):
            hist[c['call']] = hist.get(c['call'], 0) + 1
            if c.get('src', '').startswith('foreign:'):
                fk = c['src'][len('foreign:'):] + ':' + c['call']; foreign[fk] = foreign.get(fk, 0) + 1
            if 'harness_err' in ob or 'err' in ob:
                harness_errs += 1
                if harness_errs <= 2: chk.broken_obligation('harness:' + PROP, {'case': strip(c), 'error': ob})
                continue
            if 'setup_err' in ob:
                exc_count['setup:' + ob['setup_err']] = exc_count.get('setup:' + ob['setup_err'], 0) + 1
                continue
            if 'exc' in ob: exc_count[c['call'] + ':' + ob['exc']] = exc_count.get(c['call'] + ':' + ob['exc'], 0) + 1
            if ob.get('reordered'): reordered[c['call']] = reordered.get(c['call'], 0) + 1
            if ob.get('result_mutables', 0) > 0 or (c['call'].startswith('pretty_print') and max(ob.get('arg_mutables', [0])[1:] or [0]) > 1):
                nontriv.add(hashlib.sha1(json.dumps(strip(c), sort_keys=True).encode()).hexdigest())
            for s in ob.get('signatures', []):
                raw_count[s] = raw_count.get(s, 0) + 1
                if s not in raw_first or len(json.dumps(strip(c))) < len(json.dumps(raw_first[s])): raw_first[s] = strip(c)
        # shrink one representative per raw signature inside the runner, classify on the minimised case
        shr = core.run_impl([{'op': 'shrink', 'case': raw_first[s], 'sig': s, 'budget': 300 if tier == 'quick' else 800} for s in sorted(raw_first)],
                            shards=14, script=RUNNER, env_extra=env)
        mins = [(s, (r_.get('case') or raw_first[s])) for s, r_ in zip(sorted(raw_first), shr)]
        obs2 = core.run_impl([{'op': 'observe', 'case': c} for s, c in mins], shards=14, script=RUNNER, env_extra=env)
        for (s, c), ob in zip(mins, obs2):
            if s not in ob.get('signatures', []):      # shrinking lost it (should not happen): fall back to the original
                c = raw_first[s]; ob = core.run_impl([{'op': 'observe', 'case': c}], script=RUNNER, env_extra=env)[0]
            sig = classify(c, ob, s)
            detail = {k: ob.get(k) for k in ('modified', 'modified_detail', 'mutation_alters', 'shared', 'recompute_differs', 'exc') if ob.get(k)}
            detail['raw_signature'] = s; detail['cases_with_raw_signature'] = raw_count[s]
            new = chk.violation(sig, c, detail)
            if not new and sig in chk.known_hits: chk.known_hits[sig] += raw_count[s] - 1
        # ---- T1: store model vs implementation
        diffs_from = []
        dtasks = []; didx = []
        for c in cases:
            if c['call'] == 'patch' and len(dtasks) < (250 if tier == 'quick' else 2500) and c['src'] in ('exh', 'json'):
                dtasks.append({'op': 'observe', 'case': {'call': 'diff', 'a': c['a'], 'b': c['b'], 'want_result': True}}); didx.append(c)
        dres = core.run_impl(dtasks, shards=14, script=RUNNER, env_extra=env)
        for c, ob in zip(didx, dres):
            if ob.get('result') is not None and small_enough(c['a'], ob['result']): diffs_from.append((c['a'], ob['result']))
        ptasks, otasks = t1_tasks(chk, tier, diffs_from)
        cfg_term = '{| copy_untouched := %s; copy_diffvals := %s |}' % (cq_bool(facts.get('copy_untouched', True)), cq_bool(facts.get('copy_diffvals', False)))
        if not facts: chk.broken_obligation('translator:gen_c13facts', 'source facts unavailable (translator failed closed); model evaluated with the last known configuration')
        pres = core.run_impl(ptasks, shards=14, script=RUNNER, env_extra=env)
        ores = core.run_impl(otasks, shards=14, script=RUNNER, env_extra=env)
        terms = []; origin = []
        for t, res in zip(ptasks, pres):
            if 'harness_err' in res: chk.broken_obligation('harness:patch_trace', res); continue
            if 'err' in res and res['err'] not in ('AssertionError', 'KeyError', 'IndexError', 'NBDiffFormatError', 'ValueError', 'TypeError'):
                chk.broken_obligation('correspondence:patch_s', {'a': t['a'], 'd': t['d'], 'impl': res}); continue
            terms.append(('(observe_patch %s 40 %s %s)' % (cfg_term, cq_json(t['a']), cq_diff(t['d'])), patch_expectation(res)))
            origin.append(('patch_s', t, res))
            if res.get('unchanged') != [True, True]:
                chk.violation('input-modified:patch:' + ('obj' if not res['unchanged'][0] else 'diff'), {'call': 'patch', 'a': t['a'], 'd': t['d']}, res)
        prot = cq_bool(facts.get('dso_restore_protected', False))
        nested_raises = 0
        for t, res in zip(otasks, ores):
            if 'harness_err' in res: chk.broken_obligation('harness:outputs', res); continue
            fault = t['fault']
            if fault is None and 'err' in res and res.get('calls', {}).get('deepcopy') == 2:
                # a nested differ raised by itself after both restores (e.g. RuntimeError for a JSON mime value changing
                # from dict to list): same store effect as the model's fault point 2
                fault = ['diff', 0]; res = dict(res); res.pop('err'); res['fault'] = 'diff'
                nested_raises += 1
            terms.append(('(observe_dso %s %s 40 %s %s)' % (prot, cq_fault(fault), cq_json(t['a']), cq_json(t['b'])), dso_expectation(t, res)))
            origin.append(('dso', t, res))
            if t['fault'] is None and 'ok' in res and res.get('unchanged') != [True, True]:
                chk.violation('input-modified:diff_single_outputs', {'call': 'outputs', 'a': t['a'], 'b': t['b']}, res)
        t1 = 0; mism = 0
        CH = 400
        for i in range(0, len(terms), CH):
            bad, log = run_coq_cases(terms[i:i + CH])
            if bad is None:
                chk.broken_obligation('correspondence:coqc-cases', log); break
            t1 += len(terms[i:i + CH])
            for j in bad:
                mism += 1
                if mism <= 3:
                    kind, t, res = origin[i + j]
                    model = eval_coq_term(terms[i + j][0])
                    chk.broken_obligation('correspondence:' + kind, {'task': t, 'impl': res, 'model': model[-700:]})
        # ---- the Coq witness of the aliasing theorem, replayed on nbdime
        wcase = {'call': 'patch', 'a': [], 'b': [], 'd': [{'op': 'addrange', 'key': 0, 'valuelist': [[]]}]}
        wob = core.run_impl([{'op': 'observe', 'case': wcase}], script=RUNNER, env_extra=env)[0]
        aliased = 'result-aliases-input:patch:diff' in wob.get('signatures', [])
        if facts.get('copy_diffvals') is False:
            if aliased: chk.violation(classify(wcase, wob, 'result-aliases-input:patch:diff'), wcase, {'witness_of': 'patch_result_disjoint_from_diff_refuted', 'shared': wob.get('shared')})
            else: chk.broken_obligation('witness-stale:patch_result_disjoint_from_diff_refuted', {'case': wcase, 'impl': wob})
        elif facts.get('copy_diffvals') is True and aliased:
            chk.broken_obligation('source-fact:copy_diffvals', {'case': wcase, 'impl': wob})
        chk.cov.update({
            'evaluations': len(cases) + len(ptasks) + len(otasks), 'distinct_nontrivial': len(nontriv),
            'rule': 'public calls (diff, diff_notebooks, patch[+plain-dict diff, +on notebooks], patch_notebook, decide_merge, decide_notebook_merge, '
                    'merge_notebooks x strategies, apply_decisions, pretty_print_{notebook,diff,notebook_diff,merge_decisions,notebook_merge}) on exhaustive small '
                    'JSON pairs, random JSON pairs/triples (genjson), random v4 notebooks rich in display_data/execute_result outputs and notebook triples whose merge re-bundles '
                    'several decisions onto one path and key (c13_gen); '
                    'valid diffs / decision lists NOT produced by nbdime (whose dict-level diffs are always key-sorted): built by hand without nbdime (plain dicts, '
                    'notebooks: metadata / cell / output levels; decisions with local / remote / either / custom actions) or nbdime\'s own diff / decisions re-listed '
                    '(reverse, shuffle, rotate, adjacent swap; as fresh objects from JSON or in place; conflicts resolved by a front end into custom diffs) with the '
                    'dict-level entries in arbitrary key order at every nesting level, given to patch, patch_notebook, apply_decisions and pretty_print_{diff,'
                    'notebook_diff,merge_decisions,notebook_merge} (foreign_inputs); '
                    'non-trivial = the result holds at least one list/dict (aliasing possible) or a renderer was given a non-empty diff/decision list; '
                    'distinct by sha1 of (call, inputs)',
            'input_distribution': hist, 'foreign_inputs': foreign, 'traces_validated_against_impl': t1, 'model_impl_mismatches': mism,
            'patch_traces': len(ptasks), 'outputs_traces_where_nested_differ_raised': nested_raises, 'outputs_traces_incl_fault_points': len(otasks),
            'key_order_changed_calls': reordered, 'calls_raising': exc_count, 'raw_signature_counts': raw_count,
            'source_facts': facts,
            'live_aliasing_theorem': 'patch_result_disjoint_from_diff_refuted' if facts.get('copy_diffvals') is False else 'patch_result_disjoint_from_diff',
            'exhaustive': False,
        })
        for c in (cases[:1] + cases[len(cases) // 2:len(cases) // 2 + 1] + cases[-1:]): chk.sample(strip(c))
        if otasks: chk.sample({'diff_single_outputs': otasks[1]})
        return chk.finish('proof', ASSUME)
    finally:
        shutil.rmtree(sb, ignore_errors=True)

def replay(path):
    body = json.load(open(path))
    if body.get('kind') == 'broken-obligation':
        print(json.dumps(body.get('obligations'), indent=1, default=str)[:3000])
        print('VIOLATION property=%s replay=%s no-failing-input-found' % (PROP, path)); return 1
    case = body['case']
    sb = tempfile.mkdtemp(prefix='nbv_c13_home_')
    try:
        env = sandbox_env(sb)
        if case.get('call') == 'outputs':
            res = core.run_impl([{'op': 'outputs', 'a': case['a'], 'b': case['b'], 'fault': None}], script=RUNNER, env_extra=env)[0]
            sigs = [] if res.get('unchanged') == [True, True] else ['input-modified:diff_single_outputs']
            ob = res
        else:
            ob = core.run_impl([{'op': 'observe', 'case': case}], script=RUNNER, env_extra=env)[0]
            sigs = [classify(case, ob, s) for s in ob.get('signatures', [])]
    finally:
        shutil.rmtree(sb, ignore_errors=True)
    print(json.dumps({'signatures': sigs, 'observation': {k: v for k, v in ob.items() if k != 'result'}}, indent=1, default=str)[:4000])
    if sigs:
        print('VIOLATION property=%s replay=%s' % (PROP, path)); return 1
    return 0
