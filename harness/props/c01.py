"""C01 -- notebook diff followed by patch reproduces the target notebook exactly (also through files)."""
import os, sys, json, copy
import core, gennb, pyspec, wire
import c03_common as K

PROP = 'C01'
ASSUME = [
    'similarity heuristics of nbdime.diffing.notebooks (cell/output/mime predicates, compare_strings_approximate) are deterministic functions: oracles with no hypothesis beyond "output predicates imply equal output_type" (validated on every recorded call)',
    'difflib opcodes form a valid edit script (validated per recorded call)',
    'nbformat.from_dict / json round trip preserve values; dict order is unobservable through canonical serialisation',
    'hypothesis of notebook_diff_patch_roundtrip: cell sources given as lists hold strings (sources_are_strings); counted per case (outside_theorem_hypothesis)',
    'the theorem is partial correctness: that diff_notebooks returns on valid notebooks is established by this run, not by proof',
]

def sources_are_strings(nb):
    for c in nb.get('cells', []) if isinstance(nb.get('cells'), list) else []:
        s = c.get('source') if isinstance(c, dict) else None
        if isinstance(s, list) and not all(isinstance(x, str) for x in s): return False
    return True

def py_shaped(nb):
    """the hypothesis notebook_shaped of notebook_diff_total_and_correct, stated independently"""
    if not isinstance(nb, dict) or not isinstance(nb.get('cells', []), list): return False
    for k, v in nb.items():
        if k != 'cells' and k.startswith('cells/'): return False
    for c in nb.get('cells', []):
        if not isinstance(c, dict): return False
        if 'source' in c and isinstance(c['source'], (list, dict)): return False
        if 'attachments' in c:
            att = c['attachments']
            if isinstance(att, list): return False
            if isinstance(att, dict) and not all(isinstance(b, dict) for b in att.values()): return False
        if 'outputs' in c:
            outs = c['outputs']
            if isinstance(outs, dict): return False
            if isinstance(outs, list):
                for o in outs:
                    if not isinstance(o, dict) or not isinstance(o.get('output_type'), str): return False
                    if o['output_type'] in ('display_data', 'execute_result') and not isinstance(o.get('data'), dict): return False
    return True

def nofloat(v):
    if isinstance(v, float): return 0
    if isinstance(v, list): return [nofloat(x) for x in v]
    if isinstance(v, dict): return {k: nofloat(x) for k, x in v.items()}
    return v

def shape_hypothesis(chk, docs):
    """evaluate the theorem's hypotheses (wfj, notebook_shaped, sources_are_strings) in Coq on generated notebooks and
    compare with the independent statement above"""
    terms = [K.coq_json(nofloat(d)) for d in docs]
    text = ('From Coq Require Import List NArith ZArith String Bool.\nFrom NB Require Import Base.Json Diff.Codec Diff.NbTotal Diff.C01Proofs.\n'
            'Import ListNotations.\nDefinition docs : list json :=\n [%s].\n'
            'Eval vm_compute in (map (fun a => if wfj a && notebook_shaped a && sources_are_strings a then 1 else 0) docs).\n' % ';\n  '.join(terms))
    ok, out = K.run_cases_v(text, rebuild=('Props/C01.vo',))
    got = K.parse_nat_list(out) if ok else None
    if got is None or len(got) != len(docs):
        chk.broken_obligation('correspondence:theorem-hypotheses-evaluation', {'coqc': out[-600:]}); return
    want = [1 if py_shaped(d) else 0 for d in docs]
    bad = [i for i, (g, w) in enumerate(zip(got, want)) if g != w]
    for i in bad[:2]:
        chk.broken_obligation('correspondence:notebook_shaped-vs-independent-statement', {'doc': docs[i], 'coq': got[i], 'independent': want[i]})
    chk.cov['theorem_hypotheses_evaluated_in_coq'] = len(docs)
    chk.cov['theorem_hypotheses_satisfied'] = sum(got)

def judge_reuse(res, d, b):
    """the in-memory diff applied twice (fresh base each time) must give the target both times and be unchanged afterwards"""
    ru = res.get('reuse')
    if not ru: return None, None
    if 'err' in ru:
        return 'in-memory-diff-reuse-raises:' + ru['err'].get('err', '?'), {'msg': ru['err'].get('msg')}
    if not pyspec.strict_eq(ru['first'], b):
        return 'in-memory-diff-first-application-mismatch', {'diff': d}
    if not pyspec.strict_eq(ru['second'], b):
        return 'diff-not-reusable:second-application-differs', {'diff': d, 'diff_after_use': ru['diff_after']}
    if ru['diff_after'] != d:
        return 'patch-modifies-the-diff', {'diff': d, 'diff_after_use': ru['diff_after']}
    return None, None

def judge(case, res):
    a, b = case['a'], case['b']
    if 'err' in res:
        return 'diff-raises:' + res['err'], {'error': res['err'], 'msg': res.get('msg'), 'tb': res.get('tb')}
    d = res['ok']
    probs = pyspec.wf_problems(a, d)
    if probs:
        return 'diff-not-wellformed', {'problems': probs[:5]}
    pr = res['patched']
    if 'err' in pr:
        return 'patch-raises:' + pr['err'], {'msg': pr.get('msg')}
    if not pyspec.strict_eq(pr['ok'], b):
        return 'roundtrip-mismatch', {'where': first_difference(pr['ok'], b)}
    try:
        sp = pyspec.spec_patch(a, d)
    except Exception as e:
        return 'spec-patch-fails', {'error': repr(e)}
    if not pyspec.strict_eq(sp, b):
        return 'documented-semantics-disagrees', {'where': first_difference(sp, b)}
    if (d == []) != pyspec.strict_eq(a, b):
        return 'empty-diff-iff-equal-violated', {'diff_empty': d == []}
    if 'file' in res:
        f = res['file']
        if 'err' in f:
            return 'file-interface-raises:' + f['err'], {'msg': f.get('msg')}
        if not pyspec.strict_eq(f['ok'], b):
            return 'file-interface-mismatch', {'where': first_difference(f['ok'], b)}
    return judge_reuse(res, d, b)

def first_difference(x, y, path=''):
    if type(x) is not type(y): return '%s: %r vs %r' % (path or '/', type(x).__name__, type(y).__name__)
    if isinstance(x, dict):
        for k in sorted(set(x) | set(y)):
            if k not in x or k not in y: return '%s/%s: missing on one side' % (path, k)
            d = first_difference(x[k], y[k], path + '/' + k)
            if d: return d
        return None
    if isinstance(x, list):
        if len(x) != len(y): return '%s: lengths %d vs %d' % (path or '/', len(x), len(y))
        for i, (p, q) in enumerate(zip(x, y)):
            d = first_difference(p, q, '%s/%d' % (path, i))
            if d: return d
        return None
    if not pyspec.strict_eq(x, y): return '%s: %r vs %r' % (path or '/', x, y)
    return None

def gen_cases(chk, tier):
    r = chk.rng
    cases = []
    cdir = os.path.join(core.VERIF, 'corpus', PROP)
    if os.path.isdir(cdir):
        for f in sorted(os.listdir(cdir)):
            c = json.load(open(os.path.join(cdir, f)))
            cases.append({'a': c['a'], 'b': c['b'], 'src': 'corpus'})
    for a, b in gennb.crafted_mime_pairs():
        cases.append({'a': a, 'b': b, 'src': 'crafted-mime'})
    for a, b in gennb.crafted_retype_pairs():
        cases.append({'a': a, 'b': b, 'src': 'crafted-retype'})
        cases.append({'a': b, 'b': a, 'src': 'crafted-retype'})
    n_rich, n_small = (140, 160) if tier == 'quick' else (2500, 3500)
    for i in range(n_rich):
        a, b = gennb.gen_pair(r)
        cases.append({'a': a, 'b': b, 'src': 'rich'})
    for i in range(n_small):
        a, b = gennb.gen_pair(r, rich=False)
        cases.append({'a': a, 'b': b, 'src': 'plain'})
    # exhaustive-ish small scope: pairs of small notebooks
    smalls = list(gennb.small_notebooks(max_cells=2))
    k = 300 if tier == 'quick' else 6000
    for _ in range(k):
        cases.append({'a': r.choice(smalls), 'b': r.choice(smalls), 'src': 'small'})
    return cases

def check_oracle_factorisation(res):
    """recorded output predicates: true => equal output_type (the structural part kept in the model)"""
    bad = []
    for i, x, y, v in res.get('oracles', {}).get('output', []):
        if v and x.get('output_type') != y.get('output_type'): bad.append([i, x.get('output_type'), y.get('output_type')])
    return bad

def run(tier, seed):
    chk = core.Check(PROP, tier, seed)
    b = core.build()
    chk.proof_obligations('Props/C01.v', b)
    cases = gen_cases(chk, tier)
    nfile = 25 if tier == 'quick' else 300
    tasks = [{'op': 'nbdiff_patch', 'a': c['a'], 'b': c['b'], 'files': i < nfile or c['src'] == 'corpus'} for i, c in enumerate(cases)]
    results = core.run_impl(tasks, shards=14)
    hist = {}; nontrivial = set(); feat = {}
    for c, res in zip(cases, results):
        hist[c['src']] = hist.get(c['src'], 0) + 1
        sig, detail = judge(c, res)
        if res.get('ok'): nontrivial.add(pyspec.canon([c['a'], c['b']]))
        bad = check_oracle_factorisation(res)
        if bad: chk.broken_obligation('assumption:output-predicate-implies-same-type', bad[:3])
        if sig: chk.violation(sig, {'a': c['a'], 'b': c['b']}, detail)
    # the file interface again under a non-UTF-8 locale (C locale, UTF-8 mode off), on pairs with non-ASCII text
    nonascii = [c for c in cases if any(ord(ch) > 127 for ch in json.dumps(c['b'], ensure_ascii=False))][:(12 if tier == 'quick' else 150)]
    loc_env = {'LC_ALL': 'C', 'LANG': 'C', 'PYTHONUTF8': '0', 'PYTHONCOERCECLOCALE': '0', 'PYTHONIOENCODING': ''}
    loc_res = core.run_impl([{'op': 'nbdiff_patch', 'a': c['a'], 'b': c['b'], 'files': True} for c in nonascii],
                            shards=6, env_extra=loc_env)
    for c, res in zip(nonascii, loc_res):
        sig, detail = judge(c, res)
        if sig: chk.violation(sig + '@C-locale', {'a': c['a'], 'b': c['b'], 'env': loc_env}, detail)
    chk.cov['file_interface_cases_c_locale'] = len(nonascii)
    # T1: model vs implementation
    t1 = 0; mism = 0
    if getattr(b, 'model_ok', False):
        lines = []; idx = []
        for i, (c, res) in enumerate(zip(cases, results)):
            if 'oracles' not in res: continue
            lines.append(('nbdiff', [c['a'], c['b'], res['oracles']])); idx.append(i)
        step = 60
        for s in range(0, len(lines), step):
            outs = wire.run_model(lines[s:s + step])
            for i, (val, misses) in zip(idx[s:s + step], outs):
                c, res = cases[i], results[i]; t1 += 1
                same = isinstance(val, dict) and 'ok' in val and pyspec.strict_eq(val['ok'], res['ok'])
                if not same:
                    mism += 1
                    if mism <= 3:
                        chk.broken_obligation('correspondence:nbdiff', {'a': c['a'], 'b': c['b'], 'impl': res.get('ok'), 'model': val, 'oracle_misses': misses})
    else:
        chk.broken_obligation('model-build', b.log[-800:])
    step = max(1, len(cases) // (40 if tier == 'quick' else 300))
    shape_hypothesis(chk, [c['a'] for c in cases[::step]] + [{'cells': [{'cell_type': 'code', 'source': 'x', 'outputs': [{'output_type': 'display_data'}]}]},
                                                             {'cells': [{'cell_type': 'code', 'source': ['x']}]}, {'cells': {}}])
    chk.cov['outside_theorem_hypothesis'] = sum(1 for c in cases if not sources_are_strings(c['a']))
    chk.cov.update({'evaluations': len(cases), 'distinct_nontrivial': len(nontrivial),
                    'rule': 'notebook pairs from harness/gennb.py (rich: all cell/output/mime kinds, minors 0-5, ids, attachments, exotic separators; plain; pairs of small notebooks), related by edit scripts or unrelated; the first cases also go through nbdiff --out / nbpatch -o files; non-trivial = non-empty diff, distinct by canonical JSON',
                    'input_distribution': hist, 'traces_validated_against_impl': t1, 'model_impl_mismatches': mism,
                    'file_interface_cases': sum(1 for t in tasks if t['files']), 'exhaustive': False})
    for c in cases[:1]: chk.sample({'a_cells': len(c['a']['cells']), 'b_cells': len(c['b']['cells']), 'a': c['a'] if len(json.dumps(c['a'])) < 1500 else '(large)'})
    chk.sample({'a': cases[-1]['a'], 'b': cases[-1]['b']})
    return chk.finish('proof', ASSUME)

def replay(path):
    body = json.load(open(path)); case = body['case']
    res = core.run_impl([{'op': 'nbdiff_patch', 'a': case['a'], 'b': case['b'], 'files': True}])[0]
    sig, detail = judge(case, res)
    print(json.dumps({'signature': sig, 'detail': detail}, indent=1, default=str)[:3000])
    if sig:
        print('VIOLATION property=%s replay=%s' % (PROP, path)); return 1
    return 0
