"""C06 -- changes to different cells (different keys / separated list positions) merge cleanly into exactly both."""
import os, sys, json, copy, itertools
import core, genjson, gennb, pyspec, wire
import c05_merge as M
import c06_meta as MT

PROP = 'C06'

# ------------------------------------------------------------------ generic-JSON analogue, expectation by construction
def atom(r):
    return copy.deepcopy(r.choice([None, True, False, 0, 1, 2, 7, 1.5, 'a', 'b', 'text\n', [1], {'k': 1}, [], {}]))

def fresh_atom(r, old):
    for _ in range(20):
        v = atom(r)
        if not pyspec.strict_eq(v, old) and not (v == old): return v
    return ['fresh', old]

def disjoint_dict(r, depth=2):
    """base dict; each key owned by L, R or nobody; the owner replaces / removes / deep-edits its keys or adds new keys
    (new key names are side-specific).  Returns base, local, remote, expected."""
    keys = r.sample(['a', 'b', 'c', 'd', 'e', 'k', 'key', 'x/y', 'A', 'aa', '10', '2'], r.choice([2, 3, 4, 6]))
    base = {}
    for k in keys:
        c = r.random()
        if c < 0.5 or depth <= 0: base[k] = atom(r)
        elif c < 0.75: base[k] = [atom(r) for _ in range(r.choice([1, 2, 3, 4]))]
        else: base[k] = {kk: atom(r) for kk in r.sample(['p', 'q', 'r', 's'], r.choice([1, 2, 3]))}
    owner = {k: r.choice('LR-') for k in keys}
    if 'L' not in owner.values(): owner[keys[0]] = 'L'
    if 'R' not in owner.values(): owner[keys[-1]] = 'R'
    def side(s, doc):
        for k in keys:
            if owner[k] != s: continue
            c = r.random()
            if c < 0.2: del doc[k]
            elif c < 0.6 or not isinstance(base[k], (list, dict)) or not base[k]: doc[k] = fresh_atom(r, base[k])
            elif isinstance(base[k], list):
                v = copy.deepcopy(base[k]); op = r.choice(['ins', 'del', 'rep'])
                if op == 'ins': v.insert(r.randint(0, len(v)), ['new', s])
                elif op == 'del': del v[r.randrange(len(v))]
                else: i = r.randrange(len(v)); v[i] = fresh_atom(r, v[i])
                doc[k] = v
            else:
                v = copy.deepcopy(base[k]); kk = r.choice(sorted(v))
                if r.random() < 0.5: v[kk] = fresh_atom(r, v[kk])
                else: v['new' + s] = atom(r)
                doc[k] = v
        if r.random() < 0.4: doc['added_by_' + s] = atom(r)
    return base, side, keys, owner

def gen_disjoint_dict(r):
    base, side, keys, owner = disjoint_dict(r)
    # draw each side's edits once, on its own copy, then replay them onto the expectation
    l = copy.deepcopy(base); side('L', l)
    x = copy.deepcopy(base); side('R', x)
    exp = copy.deepcopy(base)
    for k in list(exp):
        if owner.get(k) == 'L':
            if k in l: exp[k] = copy.deepcopy(l[k])
            else: del exp[k]
        elif owner.get(k) == 'R':
            if k in x: exp[k] = copy.deepcopy(x[k])
            else: del exp[k]
    for k in l:
        if k not in base: exp[k] = copy.deepcopy(l[k])
    for k in x:
        if k not in base: exp[k] = copy.deepcopy(x[k])
    return base, l, x, exp

def gen_disjoint_list(r, strings=False):
    """base list of DISTINCT items (so the alignment is forced); each position owned by L, R or nobody; the owner deletes
    or replaces-by-a-fresh-item its positions; insertions only into gaps both of whose neighbours the other side left
    untouched and at most one side per gap; a replaced position counts as touched.  To keep the two sides' chunks apart
    an untouched base item always separates a position touched by L from one touched by R."""
    n = r.choice([2, 3, 4, 5, 6, 8])
    if strings:
        base = ['line %d %s\n' % (i, r.choice(['alpha', 'beta', 'gamma', 'x = 1', 'y'])) for i in range(n)]
    else:
        base = [['item', i] if r.random() < 0.3 else 'item%d' % i for i in range(n)]
    owner = ['-'] * n
    i = 0
    while i < n:
        s = r.choice('LR--')
        run = r.choice([1, 1, 2])
        for j in range(i, min(n, i + run)): owner[j] = s
        i += run + 1                     # the next position stays untouched: separates the sides
    action = {}
    fresh = [0]
    def new_item(s):
        fresh[0] += 1
        return ('new %s %d\n' % (s, fresh[0])) if strings else ['new', s, fresh[0]]
    for i in range(n):
        if owner[i] in 'LR':
            action[i] = r.choice(['delete', 'replace', 'keep'])
    touched = [owner[i] if action.get(i, 'keep') != 'keep' else '-' for i in range(n)]
    inserts = {}
    for g in range(n + 1):
        if r.random() >= 0.3: continue
        left = touched[g - 1] if g > 0 else '-'
        right = touched[g] if g < n else '-'
        cands = [s for s in 'LR' if left in ('-', s) and right in ('-', s)]
        # an insertion makes the gap "touched" by s: the other side must not touch the neighbours' other gaps either
        if not cands: continue
        s = r.choice(cands)
        inserts[g] = (s, [new_item(s) for _ in range(r.choice([1, 1, 2]))])
    # neighbours of an insertion by s must not be touched by the other side, and the other side must not insert in the
    # same gap (guaranteed above); additionally the other side may not insert in the adjacent gaps of a touched item
    repl = {i: new_item(owner[i]) for i in range(n) if action.get(i) == 'replace'}
    def build(sides):
        out = []
        for i in range(n + 1):
            if i in inserts and inserts[i][0] in sides: out.extend(copy.deepcopy(inserts[i][1]))
            if i == n: break
            if owner[i] in sides and action.get(i) == 'delete': continue
            if owner[i] in sides and action.get(i) == 'replace': out.append(copy.deepcopy(repl[i]))
            else: out.append(copy.deepcopy(base[i]))
        return out
    docs = [base, build('L'), build('R'), build('LR')]
    if strings: docs = [''.join(d) for d in docs]
    return tuple(docs)

def exhaustive_owner_lists(n):
    """every assignment of {untouched, L deletes, R deletes, L replaces, R replaces} to n distinct items in which an
    untouched item separates L-touched from R-touched positions; no insertions"""
    out = []
    for combo in itertools.product(['-', 'Ld', 'Rd', 'Lr', 'Rr'], repeat=n):
        ok = all(not (combo[i][0] in 'LR' and combo[i + 1][0] in 'LR' and combo[i][0] != combo[i + 1][0]) for i in range(n - 1))
        if not ok: continue
        base = ['i%d' % i for i in range(n)]
        def build(sides):
            o = []
            for i, c in enumerate(combo):
                if c[0] in sides and c[1] == 'd': continue
                if c[0] in sides and c[1] == 'r': o.append('n%d%s' % (i, c[0]))
                else: o.append(base[i])
            return o
        out.append((base, build('L'), build('R'), build('LR'), ''.join(combo)))
    return out

# ------------------------------------------------------------------ items
def gen_items(chk, tier):
    r = chk.rng; quick = tier == 'quick'
    items = []
    cdir = os.path.join(core.VERIF, 'corpus', PROP)
    if os.path.isdir(cdir):
        for f in sorted(os.listdir(cdir)):
            it = json.load(open(os.path.join(cdir, f))); it['src'] = 'corpus:' + f; items.append(it)
    def J(b, l, x, e, src):
        items.append({'task': {'op': 'merge_json', 'base': b, 'local': l, 'remote': x}, 'expected': e, 'src': src})
    for n in ([1, 2, 3, 4] if quick else [1, 2, 3, 4, 5, 6]):
        for b, l, x, e, _ in exhaustive_owner_lists(n): J(b, l, x, e, 'exh-list-owners')
    for _ in range(600 if quick else 6000): J(*gen_disjoint_dict(r), src='rand-dict')
    for _ in range(600 if quick else 6000): J(*gen_disjoint_list(r), src='rand-list')
    for _ in range(400 if quick else 4000): J(*gen_disjoint_list(r, strings=True), src='rand-lines')
    for _ in range(300 if quick else 3000):          # one level down: the disjoint list / dict sits under a key
        b, l, x, e = gen_disjoint_list(r) if r.random() < 0.5 else gen_disjoint_dict(r)
        J({'k': b, 'other': 1}, {'k': l, 'other': 1}, {'k': x, 'other': 1}, {'k': e, 'other': 1}, 'rand-nested')
    # notebooks: by-construction expectation of gennb.gen_disjoint_triple, default strategy and the use-* ones
    argsets = [None, {'merge_strategy': 'use-base'}, {'merge_strategy': 'use-local'}, {'merge_strategy': 'use-remote'}]
    for k in range(250 if quick else 3000):
        b, l, x, e = gennb.gen_disjoint_triple(r, rich=(k % 3 != 0))
        args = argsets[k % len(argsets)] if k % 2 else None
        items.append({'task': {'op': 'merge_nb', 'base': b, 'local': l, 'remote': x, 'args': args}, 'expected': e, 'src': 'nb-disjoint'})
    for k in range(150 if quick else 2000):          # few, small cells: every adjacency pattern shows up often
        b, l, x, e = gennb.gen_disjoint_triple(r, rich=False, ncells=r.choice([2, 3, 4]), p_insert=0.4, p_delete=0.35)
        items.append({'task': {'op': 'merge_nb', 'base': b, 'local': l, 'remote': x, 'args': None}, 'expected': e, 'src': 'nb-disjoint-small'})
    # both sides meet in ONE mapping, under different keys (c06_meta): the notebook metadata (plus disjoint cell changes),
    # one cell's metadata, one output's metadata -- the dicts that carry a conflict strategy by default -- and generic
    # objects with a strategy configured on their own path
    for k in range(160 if quick else 2000):
        b, l, x, e = MT.gen_nb_metadata_triple(r, k)
        args = argsets[(k // 4) % len(argsets)] if k % 4 == 2 else None
        items.append({'task': {'op': 'merge_nb', 'base': b, 'local': l, 'remote': x, 'args': args}, 'expected': e, 'src': 'nb-meta-keys'})
    for k in range(50 if quick else 600):
        b, l, x, e = MT.gen_cell_metadata_triple(r, k)
        items.append({'task': {'op': 'merge_nb', 'base': b, 'local': l, 'remote': x, 'args': None}, 'expected': e, 'src': 'deep-cell-meta-keys'})
    for k in range(40 if quick else 500):
        b, l, x, e = MT.gen_output_metadata_triple(r, k)
        items.append({'task': {'op': 'merge_nb', 'base': b, 'local': l, 'remote': x, 'args': None}, 'expected': e, 'src': 'deep-output-meta-keys'})
    for _ in range(300 if quick else 3000):
        b, l, x, e, st = MT.gen_json_strategy_dict(r, gen_disjoint_dict)
        items.append({'task': {'op': 'merge_json', 'base': b, 'local': l, 'remote': x, 'strategies': st}, 'expected': e, 'src': 'rand-dict-strategy'})
    # adj-*: both sides patch the SAME list item under different sub-keys AND one side (each in turn, remote twice as often)
    # inserts / deletes items directly in front of / behind it: cells of a notebook, outputs of a cell, generic JSON lists
    # of objects / of lists (for these the diffs are built next to the documents: nbdime.diff never patches a generic item)
    for k in range(150 if quick else 2000):
        b, l, x, e, sh = MT.gen_adjacent_cell_triple(r, k)
        args = argsets[(k // 5) % len(argsets)] if k % 5 == 4 else None
        items.append({'task': {'op': 'merge_nb', 'base': b, 'local': l, 'remote': x, 'args': args}, 'expected': e, 'src': 'adj-cell-subkeys', 'shape': sh})
    for k in range(60 if quick else 800):
        b, l, x, e, sh = MT.gen_adjacent_output_triple(r, k)
        items.append({'task': {'op': 'merge_nb', 'base': b, 'local': l, 'remote': x, 'args': None}, 'expected': e, 'src': 'adj-output-meta-keys', 'shape': sh})
    for k in range(300 if quick else 4000):
        b, l, x, e, ld, rd = MT.gen_adjacent_json(r, k, atom, fresh_atom)
        for side, d, doc in (('local', ld, l), ('remote', rd, x)):
            if pyspec.wf_problems(b, d) or not pyspec.strict_eq(pyspec.spec_patch(b, d), doc):
                raise AssertionError('generator bug: the %s diff built by construction does not lead from base to %s' % (side, side))
        items.append({'task': {'op': 'merge_diffs', 'base': b, 'local': l, 'remote': x, 'ld': ld, 'rd': rd}, 'expected': e, 'src': 'adj-json-given-diffs'})
    return items

def judge(it, res):
    """the property's oracle on one implementation result.  Notebook families built on the cell partition respect the
    differ's alignment (c05_merge.walk_separated); the deep-* families, where both sides patch the same cell by
    construction, use the recursive walk of c06_meta instead (adj-*: the same walk, in which an insertion of one side next
    to an item BOTH sides patched is allowed); everything else is judged unconditionally."""
    src = str(it.get('src', ''))
    if src.startswith('adj-'):
        if isinstance(res, dict) and 'ld' in res and 'rd' in res and not MT.deep_separated(res['ld'], res['rd'], adjacent_ok=True):
            return 'excluded', 'alignment-not-separated-adjacent'
        if it.get('shape') and isinstance(res, dict) and 'ld' in res and 'rd' in res and not MT.aligned_as_constructed(it['shape'], res['ld'], res['rd']):
            return 'excluded', 'alignment-not-as-constructed'
        return M.judge_disjoint(res, it['expected'], respect_alignment=False)
    if src.startswith('deep-'):
        if isinstance(res, dict) and 'ld' in res and 'rd' in res and not MT.deep_separated(res['ld'], res['rd']):
            return 'excluded', 'alignment-not-separated-deep'
        return M.judge_disjoint(res, it['expected'], respect_alignment=False)
    return M.judge_disjoint(res, it['expected'], respect_alignment=src.startswith('nb-'))

def run(tier, seed):
    chk = core.Check(PROP, tier, seed)
    b = M.build_and_snapshot(chk)
    chk.proof_obligations('Props/C06.v', b)
    items = gen_items(chk, tier)
    tasks = [it['task'] for it in items]
    results = M.run_impl(tasks)
    hist = {}; nontriv = set(); diff_fail = 0; both = 0; excluded = {}
    for it, res in zip(items, results):
        hist[it['src']] = hist.get(it['src'], 0) + 1
        if M.diff_failed(res): diff_fail += 1
        if isinstance(res, dict) and res.get('ld') and res.get('rd'):
            both += 1
            t = it['task']; nontriv.add(pyspec.canon([t['base'], t['local'], t['remote'], t.get('args'), t.get('strategies')]))
        sig, detail = judge(it, res)
        if not sig: sig, detail = M.judge_reapply(res)
        if sig == 'excluded':
            excluded[detail] = excluded.get(detail, 0) + 1
        elif sig:
            chk.violation(sig, dict({'task': it['task'], 'expected': it['expected'], 'src': it['src']}, **({'shape': it['shape']} if 'shape' in it else {})), detail)
    fam = [it['src'] for it in items]
    seen = {}; rank = []
    for f in fam:
        seen[f] = seen.get(f, 0) + 1; rank.append(seen[f])
    order = sorted(range(len(tasks)), key=lambda i: (rank[i], fam[i]))
    st = M.t1(chk, [tasks[i] for i in order], [results[i] for i in order], b, limit=(12000 if tier == 'quick' else 80000))
    chk.cov.update({
        'evaluations': len(tasks), 'distinct_nontrivial': len(nontriv),
        'rule': 'triples whose two sides change different parts of base, with the merged result known by construction: exhaustive '
                'owner/action assignments on lists of <=4 (quick) / <=6 distinct items, random disjoint edits of objects, lists, '
                'multi-line strings (also one level down), generated notebooks from gennb.gen_disjoint_triple under the default and '
                'the use-* strategies; triples whose sides meet in one mapping under different keys (notebook / cell / output metadata, '
                'objects with a conflict strategy on their own path; c06_meta); triples whose sides patch the SAME list item under '
                'different sub-keys while one side (each in turn) inserts / deletes items directly in front of / behind it: cells, '
                'outputs, generic lists of objects / lists with by-construction diffs (adj-*; c06_meta); non-trivial = BOTH sides have a non-empty diff, distinct by canonical JSON of the triple',
        'input_distribution': hist, 'traces_validated_against_impl': st['validated'], 'model_impl_mismatches': st['mismatches'],
        'outside_model_hook_reached': st['outside_model'], 'oracle_misses': st['oracle_misses'], 'model_lines': st['lines'],
        'both_sides_changed': both, 'excluded_outside_hypothesis': excluded, 'differ_failed_before_merge': diff_fail, 'exhaustive': False,
    })
    for it in items[:1] + items[len(items) // 2: len(items) // 2 + 1] + items[-1:]:
        chk.sample({'src': it['src'], 'task': it['task'], 'expected': it['expected']}, limit=3)
    M.drop_snapshot()
    return chk.finish('proof', M.ASSUME)

def replay(path):
    body = json.load(open(path))
    if body.get('kind') == 'broken-obligation':
        print(json.dumps(body['obligations'], indent=1, default=str)[:4000]); return 1
    c = body['case']
    res = M.run_impl([c['task']], shards=1)[0]
    sig, detail = judge(c, res)
    if sig == 'excluded': sig = None
    print(json.dumps({'signature': sig, 'detail': detail}, indent=1, default=str)[:4000])
    if sig:
        print('VIOLATION property=%s replay=%s' % (PROP, path)); return 1
    return 0
