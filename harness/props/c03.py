"""C03 -- three-way merge always completes for valid notebooks under every strategy combination and every
text-merge helper (git merge-file / diff3 / built-in).

Proof side: Props/C03.v (finite dispatcher theorems over the generated strategy tables + the parts of merge_total that
exist).  Implementation side (independent of the model): notebook triples x ALL strategy configurations the command line
accepts (+ the web tool's) x three tool availabilities; oracle: merge_notebooks returns (merged, decisions)."""
import os, sys, json, copy, tempfile, shutil, subprocess, itertools, re, hashlib
import core, gennb, pyspec
import c03_common as K

PROP = 'C03'
ASSUME = [
    'the strategy tables of Gen/Strategies.v are the values returned by the real notebook_merge_strategies for args built by the real nbmerge parser (translator executes both on every run)',
    'the if/elif chains of tryresolve / resolve_strategy_generic / resolve_conflicted_decisions_* are read from the AST by tools/gen/gen_strategies.py (fail-closed on unrecognised shapes) and each arm is additionally executed against the real dispatchers on every run (correspondence)',
    'path kinds come from the installed nbformat v4 schema shape; /cells/*/id is atomic for the differ',
    'never-conflicting paths (/nbformat, /cells/*/cell_type) rely on the differ never aligning cells of different cell_type and on valid v4 input',
    'git merge-file / diff3 behave per their manuals (they are executed for real in the search, not modelled here)',
]


def judge(res):
    """-> (signature, detail) or (None, None); the oracle is: returned rather than raised"""
    if 'ok' in res: return None, None
    return K.error_signature(res), {'error': res.get('err'), 'frame': res.get('frame'), 'line': res.get('line'), 'msg': res.get('msg')}


def run(tier, seed):
    chk = core.Check(PROP, tier, seed)
    b = core.build()
    chk.proof_obligations('Props/C03.v', b)
    sb = K.Sandbox()
    try:
        # ---- the configuration space, from the real parser
        cfgs, why = K.all_configs(sb)
        if cfgs is None:
            chk.broken_obligation('cli-choices', why); cfgs = K.FALLBACK_CONFIGS
        tools = K.check_tools(sb)
        for mode, seen in tools.items():
            if seen != K.EXPECT_TOOLS[mode]:
                chk.notes.append('tool sandbox %s sees %r (expected %r): that availability is not exercised on this machine' % (mode, seen, K.EXPECT_TOOLS[mode]))
        # ---- T1: the generated dispatch chains against the real dispatchers (executed)
        t1, t1_bad = K.dispatcher_correspondence(chk, sb)
        t1b, t1b_bad = K.clear_all_correspondence(chk, sb, 120 if tier == 'quick' else 1500)
        t1 += t1b; t1_bad += t1b_bad
        # ---- triples
        r = chk.rng
        corpus = K.corpus_triples()
        fixtures = K.fixture_triples()
        if tier == 'quick':
            n_full, n_few, n_other = 60, 240, 6
            fixtures = fixtures[:12]
        else:
            n_full, n_few, n_other = 700, 3000, 120
        gen = []
        for i in range(n_full + n_few):
            bias = [0.9, 0.7, 1.0][i % 3]
            t = gennb.gen_triple(r, conflict_bias=bias, minor=r.choice([0, 1, 2, 3, 4, 5, 5]) if i % 2 else None)
            gen.append({'b': t[0], 'l': t[1], 'r': t[2], 'src': 'gen'})
        crafted = K.record_touched_triples() + K.minor_upgrade_triples() + K.concurrent_output_insert_triples() + K.crafted_triples(r, 40 if tier == 'quick' else 400, gennb)
        few = gen[n_full:]
        few_cfgs = K.pick_few(cfgs, r)
        # (drawn after everything else so that the older families see the same random stream as before)
        crafted = crafted + K.lifted_group_triples(r, 10 if tier == 'quick' else 150, gennb, quick=(tier == 'quick'))
        full = corpus + fixtures + crafted + gen[:n_full]
        tasks = []   # (triple, cfg list, mode)
        for t in full: tasks.append((t, cfgs, 'git'))
        for t in few: tasks.append((t, few_cfgs, 'git'))
        other = corpus + [x for x in crafted if x['src'].endswith('empty_source_vs_edit')][:n_other] + [x for x in gen if K.has_text_conflict(x)][:n_other]
        for mode in ('diff3', 'diff', 'none'):
            for t in other: tasks.append((t, cfgs, mode))
        # ---- the process-locale leg (drawn last of all): non-ASCII text where it reaches the text-merge helper x tool
        # availability x locale / stream / file-name encoding of the process ('git@C' = tool mode git under LC_ALL=C without UTF-8 mode)
        loc_triples = K.locale_text_triples(r, 6 if tier == 'quick' else 150, gennb, quick=(tier == 'quick'))
        loc_cfgs = K.locale_configs(cfgs, r)
        loc_modes = K.locale_modes(quick=(tier == 'quick'))
        locales = K.check_locales(sb)
        for loc, seen in locales.items():
            if not K.locale_exercised(loc, seen):
                chk.notes.append('locale sandbox %s gives %r: that kind of process is not exercised on this machine' % (loc, seen))
        for mode in loc_modes:
            for t in loc_triples: tasks.append((t, loc_cfgs, mode))
        results = K.run_merge_tasks(sb, tasks)
        # ---- judge
        evals = 0; nontrivial = set(); hist = {}; fail_cases = {}
        for (t, cl, mode), res in zip(tasks, results):
            if 'res' not in res:
                chk.broken_obligation('runner', res); continue
            conf = False
            for cfg, one in zip(cl, res['res']):
                evals += 1
                sig, detail = judge(one)
                if 'ok' in one and one['ok']['nconf'] + one['ok']['ndec'] > 0: conf = True
                if sig:
                    sig = K.refine_signature(sig, t, detail)      # root causes sharing an exception@frame are kept apart
                    fail_cases.setdefault(sig, []).append((t, cfg, mode, detail))
            key = '%s/%s' % (t['src'].split(':')[0], mode)
            hist[key] = hist.get(key, 0) + 1
            if conf: nontrivial.add(hashlib.sha1(pyspec.canon([t['b'], t['l'], t['r']]).encode()).hexdigest() + mode)
        for sig, lst in sorted(fail_cases.items()):
            t, cfg, mode, detail = min(lst, key=lambda x: len(pyspec.canon([x[0]['b'], x[0]['l'], x[0]['r']])))
            small = K.shrink_triple(sb, t, cfg, mode, sig, budget=40 if tier == 'quick' else 120)
            case = {'base': small['b'], 'local': small['l'], 'remote': small['r'], 'config': cfg, 'tools': mode,
                    'failing_configs_this_run': len(set(json.dumps(x[1]) for x in lst)), 'failing_cases_this_run': len(lst),
                    'failing_tool_modes_this_run': sorted(set(x[2] for x in lst))}
            chk.violation(sig, case, detail)
        chk.cov.update({
            'evaluations': evals, 'distinct_nontrivial': len(nontrivial),
            'rule': 'one evaluation = one merge_notebooks call (triple x configuration x tool availability). Triples: built-in corpus, the repository fixture triples, '
                    'gennb.gen_triple with forced colliding edits (delete vs edit, insert next to edited/deleted, both edit source/outputs/metadata/attachments, similar and dissimilar concurrent inserts; minors 0-5); crafted families incl. a metadata conflict whose lifted decisions share a sub-key while a later-applied change exists. '
                    'Process-locale leg: non-ASCII text (latin-1, other BMP, CJK, astral, combining, non-ASCII blanks) in cell sources both sides edit (disjoint lines, same line, both append, delete vs edit) and in similar cells both insert, '
                    'placed in an untouched line / one side\'s edit / both / everywhere, merged under the configurations that send source conflicts to the text-merge helper (+ controls), '
                    'under tool availability x process locale (UTF-8; LC_ALL=C and POSIX with PYTHONUTF8=0 PYTHONCOERCECLOCALE=0; C with UTF-8 standard streams; non-ASCII temp directory under C and UTF-8). '
                    'Configurations: the full product of --merge-strategy x --input-strategy x --output-strategy x --no-ignore-transients read from the real parser (%d) + the web tool. '
                    'non-trivial = (triple, tool mode) pairs, distinct by canonical JSON, for which at least one configuration produced a decision' % (len(cfgs) - 1),
            'configurations': len(cfgs), 'triples_full_product': len(full), 'triples_few_configs': len(few), 'few_configs': len(few_cfgs),
            'triples_other_tool_modes': len(other), 'tool_modes': tools,
            'triples_locale_leg': len(loc_triples), 'locale_leg_configs': len(loc_cfgs), 'locale_leg_modes': loc_modes, 'process_locales': locales,
            'input_distribution': hist, 'traces_validated_against_impl': t1, 'model_impl_mismatches': t1_bad,
            'exhaustive': False, 'configuration_space_exhaustive': True,
            'partial': 'merge_total is proved only for the strategy-dispatch layer (finite table theorems + tryresolve/generic resolver lemmas); chunking, the 20-arm list switch and the inline family are explored on the implementation only',
        })
        for t in (full[:1] + gen[:2]):
            chk.sample({'base': t['b'], 'local': t['l'], 'remote': t['r'], 'configs': 'all %d' % len(cfgs)})
    finally:
        sb.close()
    return chk.finish('proof', ASSUME)


def replay(path):
    body = json.load(open(path))
    case = body['case']
    sb = K.Sandbox()
    try:
        t = {'b': case['base'], 'l': case['local'], 'r': case['remote'], 'src': 'replay'}
        res = K.run_merge_tasks(sb, [(t, [case['config']], case.get('tools', 'git'))])[0]
        one = res['res'][0] if 'res' in res else res
        sig, detail = judge(one)
        if sig: sig = K.refine_signature(sig, t, detail)
        print(json.dumps({'signature': sig, 'detail': detail, 'impl': one}, indent=1, default=str)[:3000])
        if sig:
            print('VIOLATION property=%s replay=%s' % (PROP, path)); return 1
        return 0
    finally:
        sb.close()
