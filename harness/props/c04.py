"""C04 -- a merged notebook always validates against the notebook format schema of the minor version it declares."""
import os, sys, json, copy, tempfile, shutil
import core, pyspec, gennb
import c04_coq, c04_valcorr, c04_cases, c04_render

PROP = 'C04'
ASSUME = [
    'the notebook format is the JSON schema nbformat.v4.<minor>.schema.json of the nbformat package installed in /venv (taken as data, regenerated into coq/Gen/NbSchemas.v on every run)',
    'validity means jsonschema.Draft4Validator(schema).is_valid(raw dict); the Coq validator Schema.validate implements the same semantics for the keyword subset those schemas use (compared on every document of every run)',
    'nbformat.v4.new_markdown_cell / new_output add exactly the fields recorded in coq/Gen/RenderFacts.v (read from the installed package on every run)',
    'merges that raise an exception are outside this property (they are property C03) and are only counted',
]
MARK = '<span style="color:red"><b>'


def declared_key(nb):
    """schema key for the version a notebook declares, or None when it declares something nbformat has no schema for"""
    if not isinstance(nb, dict): return None
    k = nb.get('nbformat_minor')
    if nb.get('nbformat') != 4 or isinstance(k, bool) or not isinstance(k, int) or not (0 <= k <= 5): return None
    return 'nb%d' % k


def is_marker_cell(c):
    if not (isinstance(c, dict) and c.get('cell_type') == 'markdown'): return False
    src = c.get('source')
    if isinstance(src, list) and all(isinstance(x, str) for x in src): src = ''.join(src)   # on disk: list of lines
    return isinstance(src, str) and src.startswith(MARK)


def _by_id(nb):
    """{id: cell} for the cells whose (string) id occurs exactly once in nb"""
    seen = {}
    for c in (nb.get('cells') if isinstance(nb, dict) and isinstance(nb.get('cells'), list) else []):
        i = c.get('id') if isinstance(c, dict) else None
        if isinstance(i, str): seen.setdefault(i, []).append(c)
    return {i: cs[0] for i, cs in seen.items() if len(cs) == 1}


def _typed_fields(cell, ignore_transients):
    """the fields that exist for the cell's type only (code: outputs, execution_count; markdown / raw: attachments); with
    transients ignored the execution counts (the cell's and those of its outputs) do not count as content"""
    if cell.get('cell_type') != 'code': return pyspec.canon([cell.get('attachments')])
    outs = copy.deepcopy(cell.get('outputs')); ec = cell.get('execution_count')
    if ignore_transients:
        ec = None
        for o in outs if isinstance(outs, list) else []:
            if isinstance(o, dict) and 'execution_count' in o: o['execution_count'] = None
    return pyspec.canon([outs, ec])


def retyped_vs_edit_ids(case):
    """Input class of the known finding 'cell-type-change-merged-with-fields-of-the-other-cell-type', as the ids a merged
    cell of that class can carry.  Cells of 4.5 notebooks are matched by id alone, whatever their type: a base cell X whose
    cell_type a side A changed (A still holds X's id) is merged field by field, so A's removal / addition of the fields that
    exist for one cell type only (code: outputs, execution_count; text: attachments) is weighed against what the other side
    O did to X:
      - O kept X's type and changed those fields.  A change of nothing but execution counts is NOT one when transients are
        ignored (the default): the unchanged tree then lets the removal win and the merged cell is valid, so an invalid
        cell there has another root cause and must not be attributed to the finding;
      - O retyped X as well, to another type or to the same type with different such fields;
      - O no longer holds X's id (X deleted, or given a new id and still aligned by content): the merged cell then carries
        X's id or the id of a cell of X's type that only O has."""
    if not isinstance(case, dict): return set()
    ign = (case.get('args') or {}).get('ignore_transients', True) is not False
    b, l, r = (_by_id(case.get(k)) for k in ('base', 'local', 'remote'))
    out = set()
    for i in b:
        bt = b[i].get('cell_type')
        for A, O in ((l, r), (r, l)):
            if i not in A or A[i].get('cell_type') == bt: continue
            if i not in O:
                out.add(i); out.update(j for j in O if j not in b and O[j].get('cell_type') == bt)
            elif O[i].get('cell_type') != bt:
                if O[i].get('cell_type') != A[i].get('cell_type') or _typed_fields(O[i], ign) != _typed_fields(A[i], ign): out.add(i)
            elif _typed_fields(O[i], ign) != _typed_fields(b[i], ign): out.add(i)
    return out


def signature(ref, nb, case=None):
    """None when nb validates against its declared minor; otherwise a list of signatures.  The known defect shapes
    are recognised by repair: undoing exactly that shape must make the notebook valid.  case = the merge input
    (base / local / remote / args): the cell-type-change finding is recognised on the cells of its input class only."""
    key = declared_key(nb)
    if key is None: return ['merged-notebook-declares-unknown-format'], {'nbformat': nb.get('nbformat') if isinstance(nb, dict) else None,
                                                                           'nbformat_minor': nb.get('nbformat_minor') if isinstance(nb, dict) else None}
    if ref.is_valid(key, nb): return None, None
    detail = {'declared': key, 'errors': ref.errors(key, nb, 3)}
    fixed = copy.deepcopy(nb); sigs = []
    cells = fixed.get('cells') if isinstance(fixed.get('cells'), list) else []
    if nb['nbformat_minor'] < 5:
        hit = False
        for c in cells:
            if is_marker_cell(c) and 'id' in c:
                del c['id']; hit = True
        if hit: sigs.append('conflict-marker-cell-has-id-in-pre-4.5-notebook')
    hit = False
    for c in cells:
        i = c.get('id') if isinstance(c, dict) else None
        if isinstance(i, dict) and set(i) == {'local_id', 'remote_id'}:
            c['id'] = i['local_id']; hit = True
    if hit: sigs.append('similar-insert-cell-has-dict-valued-id')
    if sigs and ref.is_valid(key, fixed): return sigs, detail
    hit = False
    retyped = retyped_vs_edit_ids(case)
    for c in cells:
        if not isinstance(c, dict) or not isinstance(c.get('id'), str) or c['id'] not in retyped: continue
        if c.get('cell_type') in ('markdown', 'raw'):
            for f in ('outputs', 'execution_count'):
                if f in c: del c[f]; hit = True
        elif c.get('cell_type') == 'code':
            if 'attachments' in c: del c['attachments']; hit = True
            if 'outputs' not in c: c['outputs'] = []; hit = True
            if 'execution_count' not in c: c['execution_count'] = None; hit = True
    if hit: sigs.append('cell-type-change-merged-with-fields-of-the-other-cell-type')
    if sigs and ref.is_valid(key, fixed): return sigs, detail
    hit = False
    for c in cells:
        if isinstance(c, dict) and isinstance(c.get('outputs'), list) and any(o == {} for o in c['outputs']):
            c['outputs'] = [o for o in c['outputs'] if o != {}]; hit = True
    if hit: sigs.append('cleared-output-is-empty-dict')
    if sigs and ref.is_valid(key, fixed): return sigs, detail
    hit = False
    for c in cells:
        tags = c.get('metadata', {}).get('tags') if isinstance(c, dict) and isinstance(c.get('metadata'), dict) else None
        if isinstance(tags, list) and all(isinstance(x, str) for x in tags) and len(set(tags)) < len(tags):
            seen = set(); c['metadata']['tags'] = [x for x in tags if not (x in seen or seen.add(x))]; hit = True
    if hit: sigs.append('merged-cell-tags-not-unique')
    if sigs and ref.is_valid(key, fixed):
        # keep only the repairs that are needed
        return sigs, detail
    errs = ref.errors(key, fixed if sigs else nb, 1)
    where = errs[0].split(':')[0] if errs else ''
    where = '/'.join('*' if p.isdigit() else p for p in where.split('/'))
    return sigs + ['merged-notebook-invalid-at:' + where], detail


def build_tasks(chk, tier, ref):
    r = chk.rng
    ntri = 150 if tier == 'quick' else 900
    triples = c04_cases.gen_triples(r, ntri, core.REPO)
    # inputs must be valid themselves (the property quantifies over valid notebooks)
    good = []
    skipped = 0
    for name, b, l, rm in triples:
        ks = [declared_key(x) for x in (b, l, rm)]
        if all(ks) and all(ref.is_valid(k, x) for k, x in zip(ks, (b, l, rm))): good.append((name, b, l, rm))
        else: skipped += 1
    cfgs_all = c04_cases.cli_configs() + c04_cases.api_configs()
    tasks = []; meta = []
    for name, b, l, rm in good:
        if name in c04_cases.CORPUS_ARGS:
            c = c04_cases.CORPUS_ARGS[name]
            tasks.append({'op': 'merge', 'base': b, 'local': l, 'remote': rm, 'args': c}); meta.append((name, c))
            if c04_cases.is_cli(c):
                tasks.append({'op': 'nbmerge_out', 'base': b, 'local': l, 'remote': rm, 'args': c}); meta.append((name, c))
    if tier == 'quick':
        for ti, (name, b, l, rm) in enumerate(good):
            cfgs = c04_cases.sample_configs(r, 6) if name.startswith('hand:') else c04_cases.sample_configs(r, 5)[:1] + [r.choice(cfgs_all) for _ in range(3)]
            for c in cfgs:
                tasks.append({'op': 'merge', 'base': b, 'local': l, 'remote': rm, 'args': c}); meta.append((name, c))
    else:
        # every configuration, each on a rotating window of triples; hand-made triples under every configuration
        for ci, c in enumerate(cfgs_all):
            window = [good[(ci * 7 + j) % len(good)] for j in range(14)]
            hand = [t for t in good if t[0].startswith('hand:') and t[0].endswith(('@4.4', '@4.5'))]
            seen = set()
            for name, b, l, rm in hand + window:
                if name in seen: continue
                seen.add(name)
                tasks.append({'op': 'merge', 'base': b, 'local': l, 'remote': rm, 'args': c}); meta.append((name, c))
    # the command line with --out
    nout = 40 if tier == 'quick' else 300
    cli = c04_cases.cli_configs()
    hand = [t for t in good if t[0].startswith('hand:')]
    default = {'merge_strategy': 'inline', 'input_strategy': None, 'output_strategy': None, 'ignore_transients': True}
    for i in range(nout):
        if i < 16 and hand:
            name, b, l, rm = hand[(i * 3) % len(hand)]; c = dict(default)
        else:
            name, b, l, rm = good[(i * 5) % len(good)]; c = dict(r.choice(cli))
        tasks.append({'op': 'nbmerge_out', 'base': b, 'local': l, 'remote': rm, 'args': c}); meta.append((name, c))
    # one side removes keys of a cell (retypes it code -> markdown / raw, drops display flags), the other side changes only
    # transient fields of that cell.  Generated and scheduled last, from the same stream, so that everything above keeps
    # its random choices; C04 only (c04_cases.gen_triples, shared with C09, is unchanged).
    fam = []
    for name, b, l, rm in c04_cases.removed_vs_transient_triples(r, 24 if tier == 'quick' else 160):
        ks = [declared_key(x) for x in (b, l, rm)]
        if all(ks) and all(ref.is_valid(k, x) for k, x in zip(ks, (b, l, rm))): fam.append((name, b, l, rm))
        else: skipped += 1
    for i, (name, b, l, rm) in enumerate(fam):
        if tier == 'quick': cfgs = c04_cases.sample_configs(r, 6) + [r.choice(cfgs_all) for _ in range(2)]
        elif name.startswith('hand:') and name.endswith('@4.5'): cfgs = cfgs_all[i % 3::3]     # every configuration on a third of the product
        else: cfgs = c04_cases.sample_configs(r, 12) + [r.choice(cfgs_all) for _ in range(8)]
        for c in cfgs:
            tasks.append({'op': 'merge', 'base': b, 'local': l, 'remote': rm, 'args': c}); meta.append((name, c))
        if i % (4 if tier == 'quick' else 2) == 0:
            c = dict(default) if i % 8 == 0 else dict(r.choice(cli))
            tasks.append({'op': 'nbmerge_out', 'base': b, 'local': l, 'remote': rm, 'args': c}); meta.append((name, c))
    return tasks, meta, skipped


def sandbox_env(d):
    return {'HOME': d, 'XDG_CONFIG_HOME': os.path.join(d, 'xdg'), 'JUPYTER_CONFIG_DIR': os.path.join(d, 'jupyter'),
            'JUPYTER_CONFIG_PATH': os.path.join(d, 'jupyter_path'), 'JUPYTER_DATA_DIR': os.path.join(d, 'jdata'),
            'JUPYTER_RUNTIME_DIR': os.path.join(d, 'jrun'), 'JUPYTER_NO_CONFIG': '1', 'GIT_CONFIG_GLOBAL': os.path.join(d, 'gitconfig'),
            'IPYTHONDIR': os.path.join(d, 'ipython'), 'TMPDIR': d}


def run_tasks(tasks):
    d = tempfile.mkdtemp(prefix='nbv_c04home_')
    try:
        return core.run_impl(tasks, shards=14, script='c04_runner.py', env_extra=sandbox_env(d))
    finally:
        shutil.rmtree(d, ignore_errors=True)


def observed_nb(task, res):
    """the notebook the property speaks about, or (None, reason)"""
    if 'err' in res: return None, 'raised:' + res['err']
    if task['op'] == 'merge': return res['merged'], None
    if not res.get('exists'): return None, 'no-output-file'
    if 'file' not in res: return None, 'output-file-not-json'
    return res['file'], None


def shrink_case(ref, case, sigs):
    """cheap greedy shrinking: drop cells that are identical on all three sides, drop notebook metadata"""
    def fails(c):
        res = run_tasks([c])[0]
        nb, _ = observed_nb(c, res)
        if nb is None: return False
        s, _ = signature(ref, nb, c)
        return s is not None and set(s) == set(sigs)
    def cands(c):
        b, l, rm = c['base'], c['local'], c['remote']
        n = min(len(b['cells']), len(l['cells']), len(rm['cells']))
        for i in range(n):
            if pyspec.canon(b['cells'][i]) == pyspec.canon(l['cells'][i]) == pyspec.canon(rm['cells'][i]):
                c2 = copy.deepcopy(c)
                for k in ('base', 'local', 'remote'): del c2[k]['cells'][i]
                yield c2
        for i in range(n - 1, -1, -1):
            if i < len(b['cells']) and all(len(c[k]['cells']) == len(b['cells']) for k in ('local', 'remote')):
                c2 = copy.deepcopy(c)
                for k in ('base', 'local', 'remote'): del c2[k]['cells'][i]
                yield c2
        if any(c[k]['metadata'] for k in ('base', 'local', 'remote')):
            c2 = copy.deepcopy(c)
            for k in ('base', 'local', 'remote'): c2[k]['metadata'] = {}
            yield c2
    return core.shrink(case, fails, cands, budget=25)


def run(tier, seed):
    chk = core.Check(PROP, tier, seed)
    b = core.build()
    proofs_ok = chk.proof_obligations('Props/C04.v', b)
    ref = c04_valcorr.Ref(core.REPO)
    # (K1) the validator itself against jsonschema
    vc = c04_valcorr.run(chk, core.REPO, 1500 if tier == 'quick' else 9000, 400 if tier == 'quick' else 2000)
    # (K2) the renderer model against the implementation; replay of the _refuted witnesses on the implementation
    rc = c04_render.run(chk, tier)
    # (T2) the property itself on the implementation
    tasks, meta, skipped = build_tasks(chk, tier, ref)
    results = run_tasks(tasks)
    hist = {}; nontrivial = set(); raised = {}; judged = 0; coq_cases = []; coq_idx = []
    shrunk = set(); out_of_scope = 0
    for t, (name, cfg), res in zip(tasks, meta, results):
        kind = ('rm_vs_transient' if ':rm_vs_transient:' in ':' + name else name.split(':')[0].split('@')[0].rstrip('0123456789')) + ('/cli--out' if t['op'] == 'nbmerge_out' else '')
        hist[kind] = hist.get(kind, 0) + 1
        nb, why = observed_nb(t, res)
        if nb is None:
            if why.startswith('raised:'):
                raised[why] = raised.get(why, 0) + 1       # C03's business
            else:
                chk.violation('nbmerge-out:' + why, {k: t[k] for k in ('op', 'base', 'local', 'remote', 'args')}, {'result': {k: v for k, v in res.items() if k != 'file'}})
            continue
        judged += 1
        sigs, detail = signature(ref, nb, t)
        if sigs and (name.startswith('upgrade45') or 'one_sided_id' in name) and declared_key(nb) == 'nb5':
            # one side was re-saved as 4.5 (ids), the other is still id-less: cells the id-less side replaced or inserted
            # cannot carry ids.  Inputs of mixed id regime are not in the property's quantifier; counted, not judged.
            fixed = copy.deepcopy(nb)
            for n_, c in enumerate(fixed.get('cells', [])):
                if isinstance(c, dict) and 'id' not in c: c['id'] = 'x%d' % n_
            if ref.is_valid('nb5', fixed):
                out_of_scope += 1; continue
        rendered = any(isinstance(c, dict) and (is_marker_cell(c) or isinstance(c.get('id'), dict) or 'nbdime-conflicts' in (c.get('metadata') or {})
                       or any(str(k).startswith(('LOCAL_', 'REMOTE_')) for k in (c.get('attachments') or {}))
                       or '<<<<<<<' in json.dumps(c.get('source', '')) or '<<<<<<<' in json.dumps(c.get('outputs', '')))
                       for c in nb.get('cells', [])) or 'nbdime-conflicts' in (nb.get('metadata') or {})
        if rendered: nontrivial.add(pyspec.canon([t['base'], t['local'], t['remote'], t['args'], t['op']]))
        key = declared_key(nb)
        if key is not None and len(coq_cases) < (400 if tier == 'quick' else 2500):
            coq_cases.append((key, nb)); coq_idx.append((t, sigs))
        if sigs:
            case = {k: t[k] for k in ('op', 'base', 'local', 'remote', 'args')}
            for s in sigs:
                new = chk.violation(s, case, dict(detail or {}, triple=name, config=c04_cases.cfg_name(cfg), all_signatures=sigs))
                if new and s not in shrunk and len(shrunk) < 2:
                    shrunk.add(s)
                    small = shrink_case(ref, case, sigs)
                    chk.violations[-1] = (s, small, dict(detail or {}, triple=name + ' (shrunk)', config=c04_cases.cfg_name(cfg), all_signatures=sigs))
    # (T1 on real data) the Coq validator on the merged notebooks themselves
    t1 = 0; mism = 0
    try:
        verdicts = c04_coq.coq_validate(coq_cases)
        for (key, nb), (t, sigs), v in zip(coq_cases, coq_idx, verdicts):
            t1 += 1
            if v is not (sigs is None):
                mism += 1
                if mism <= 3: chk.broken_obligation('correspondence:validator-on-merged', {'declared': key, 'notebook': nb, 'jsonschema_valid': sigs is None, 'coq': v})
    except RuntimeError as e:
        chk.broken_obligation('correspondence:validator-run', str(e)[-800:])
    chk.cov.update({
        'evaluations': judged, 'distinct_nontrivial': len(nontrivial),
        'rule': 'merges (merge_notebooks and nbmerge --out) of valid notebook triples: hand-made minimal triples for every conflict renderer at every minor 4.0-4.5, the fixture triples of nbdime/tests/files, gennb.gen_triple with forced conflicts (incl. sides with pairwise different minors below 5), and the removed-vs-transient family (c04_cases.removed_vs_transient_triples: one side removes keys of an executed code cell -- retypes it to markdown / raw, which removes execution_count and outputs, with or without a source edit, and / or drops the display flags metadata.collapsed / scrolled -- while the other side changes only transient fields of that cell: execution_count from a number or from null, the execution_count of its execute_result outputs, toggled display flags; both orientations; hand-made product at 4.5 where the cell is matched by id, a rotating part at every older minor, generated notebooks at random minors), under sampled (quick) / all 280 CLI + mergetool + union (thorough) strategy configurations; non-trivial = the merged notebook contains at least one rendered conflict (marker cell/output, conflict text, nbdime-conflicts record, LOCAL_/REMOTE_ attachment, combined similar insert), distinct by canonical JSON of (triple, configuration, entry point)',
        'input_distribution': hist, 'merges_that_raised_(C03)': raised, 'invalid_input_triples_skipped': skipped, 'mixed_4.5_upgrade_results_with_idless_cells_(not_judged)': out_of_scope,
        'traces_validated_against_impl': t1 + vc.get('validator_cases', 0) + rc.get('render_cases', 0),
        'validator_on_merged_notebooks': t1, 'validator_on_merged_mismatches': mism,
        'validator_correspondence': vc, 'renderer_correspondence': rc, 'exhaustive': False,
    })
    for t in tasks[:1] + tasks[len(tasks) // 2: len(tasks) // 2 + 1]:
        chk.sample({'op': t['op'], 'args': t['args'], 'base': t['base'], 'local': t['local'], 'remote': t['remote']}, limit=3)
    return chk.finish('proof', ASSUME)


def replay(path):
    body = json.load(open(path))
    if body.get('kind') != 'failing-input':
        print(json.dumps(body, indent=1)[:3000]); return 1
    case = body['case']
    ref = c04_valcorr.Ref(core.REPO)
    res = run_tasks([case])[0]
    nb, why = observed_nb(case, res)
    if nb is None:
        print(json.dumps({'observed': why, 'result': {k: v for k, v in res.items() if k != 'file'}}, indent=1)[:3000])
        if why.startswith('raised:'): return 0
        print('VIOLATION property=%s replay=%s' % (PROP, path)); return 1
    sigs, detail = signature(ref, nb, case)
    print(json.dumps({'signatures': sigs, 'detail': detail, 'merged': nb}, indent=1, default=str)[:4000])
    if sigs:
        print('VIOLATION property=%s replay=%s' % (PROP, path)); return 1
    return 0
