"""C17 -- diffing git revisions examines exactly the notebooks git reports as changed; the caller's working
directory is restored.

Proof side : coq/Sys/GitRefs.v (model), coq/Sys/GitRefsProofs.v, coq/Props/C17.v, facts generated into
             coq/Gen/GitRefsFacts.v by tools/gen/gen_gitrefs.py.
T1 (tie)   : every scenario's observations (yielded streams, working directory at each yield and afterwards,
             exception or not; for CLI scenarios also the resolved (base, remote, paths)) must equal what the
             Gallina model computes (vm_compute under coqc, with the generated source facts) from the git facts
             (`git diff --raw -z -M`, blobs, files on disk) gathered with the git command line alone.
T2 (judge) : the property itself, evaluated on the real implementation against `git diff --name-status -z -M`
             run from the caller's directory with the caller's paths + `git show ref:path` + the files on disk."""
import os, sys, json, re, subprocess, tempfile, shutil, itertools, hashlib
import core

PROP = 'C17'
ROOT_REL = 'w/repo'
ASSUME = [
    'GitPython Diffable.diff returns, in git\'s order, one entry per record of `git diff --raw -z -M` with a_blob/b_blob None exactly for the null object id (compared per scenario through T1)',
    'git pathspec semantics: paths given in a subdirectory mean the same as the paths prefixed with that subdirectory given at the root (both are asked of the real git per scenario)',
    'os.getcwd()/os.chdir are the only ways the process directory is read or changed; no symlinks on the way to the temporary repositories (realpath is taken)',
    'the directories above the temporary repository contain no files named like the generated ones, except the decoys planted by the scenario',
    'git attributes / filter configuration outside a repository is empty (sandboxed HOME, GIT_CONFIG_GLOBAL=/dev/null)',
]
SIG = {
    'drift': 'pushd-saves-dot:cwd-drifts-from-subdirectory',
    'clibase': 'cli-all-paths:base-read-from-working-tree',
    'mixed': 'rename-across-notebook-suffix:not-examined',
    'filterraise': 'clean-filter:deleted-worktree-notebook-raises',
}
DIRS = ['', 'sub', 'sub/deep', 'other', 'sp ace', 'repo']
NB = '.ipynb'
OTHER_EXT = ['.txt', '.py', '.ipynb.bak', 'ipynb', '.json']

# ------------------------------------------------------------------ scenarios
def fixed_scenarios():
    """witnesses of the refutation theorems and of the other known deviations, replayed first on every run"""
    two = [['write', 'sub/b.ipynb', 1], ['write', 'sub/c.ipynb', 2], ['write', 'a.ipynb', 3], ['write', 'sub/t.txt', 4], ['commit'],
           ['write', 'sub/b.ipynb', 5], ['write', 'sub/c.ipynb', 6], ['write', 'a.ipynb', 7], ['write', 'sub/t.txt', 8]]
    out = []
    def sc(name, ops, q, **kw):
        d = {'src': 'fixed:' + name, 'root_rel': ROOT_REL, 'ops': ops, 'query': q, 'decoys': [], 'filter': None}
        d.update(kw); out.append(d)
    api = lambda a, b, cwd, paths=None: {'mode': 'api', 'ref_a': a, 'ref_b': b, 'cwd': cwd, 'paths': paths}
    sc('coq-witness-subdir-two-worktree-reads', [['write', 'sub/b.ipynb', 10], ['write', 'sub/c.ipynb', 11], ['commit'],
                                                 ['write', 'sub/b.ipynb', 20], ['write', 'sub/c.ipynb', 21]], api('HEAD', 'WORKTREE', 'sub'))
    sc('root-worktree', two, api('HEAD', 'WORKTREE', ''))
    sc('subdir-worktree', two, api('HEAD', 'WORKTREE', 'sub'))
    sc('subdir-index-worktree', two, api('INDEX', 'WORKTREE', 'sub'))
    sc('subdir-commit-index', two + [['add_all']], api('HEAD', 'INDEX', 'sub'))
    sc('subdir-commit-commit', two + [['commit']], api('HEAD~1', 'HEAD', 'sub', ['b.ipynb']))
    sc('subdir-decoy', two, api('HEAD', 'WORKTREE', 'sub'), decoys=[['w/sub/c.ipynb', 90]])
    sc('subdir-named-like-repo', [['write', 'repo/b.ipynb', 1], ['write', 'repo/c.ipynb', 2], ['write', 'c.ipynb', 3], ['commit'],
                                  ['write', 'repo/b.ipynb', 5], ['write', 'repo/c.ipynb', 6]], api('HEAD', 'WORKTREE', 'repo'))
    sc('rename-txt-to-ipynb', [['write', 'x.txt', 1], ['write', 'a.ipynb', 2], ['commit'], ['mv', 'x.txt', 'x.ipynb'], ['write', 'a.ipynb', 3], ['commit']],
       api('HEAD~1', 'HEAD', ''))
    sc('rename-ipynb-to-txt', [['write', 'x.ipynb', 1], ['commit'], ['mv', 'x.ipynb', 'x.txt'], ['commit']], api('HEAD~1', 'HEAD', ''))
    sc('rename-ipynb-ipynb', [['write', 'x.ipynb', 1], ['commit'], ['mv', 'x.ipynb', 'sub/y.ipynb'], ['commit']], api('HEAD~1', 'HEAD', ''))
    sc('filter-deleted', [['write', 'a.ipynb', 1], ['write', 'b.ipynb', 2], ['commit'], ['write', 'a.ipynb', 3], ['rm', 'b.ipynb']],
       api('HEAD', 'WORKTREE', ''), filter='*.ipynb')
    sc('filter-deleted-subdir', [['write', 'sub/a.ipynb', 1], ['write', 'sub/b.ipynb', 2], ['commit'], ['write', 'sub/a.ipynb', 3], ['rm', 'sub/b.ipynb']],
       api('HEAD', 'WORKTREE', 'sub'), filter='*.ipynb')
    sc('staged-then-modified', [['write', 'a.ipynb', 1], ['write', 'b.ipynb', 2], ['commit'], ['write', 'a.ipynb', 3], ['add_all'], ['write', 'a.ipynb', 4], ['write', 'b.ipynb', 5]],
       api('INDEX', 'WORKTREE', ''))
    sc('staged-then-modified-cached', [['write', 'a.ipynb', 1], ['write', 'b.ipynb', 2], ['commit'], ['write', 'a.ipynb', 3], ['add_all'], ['write', 'a.ipynb', 4], ['write', 'b.ipynb', 5]],
       api('HEAD', 'INDEX', ''))
    sc('deep-subdir-two-paths', two + [['write', 'sub/deep/d.ipynb', 9], ['write', 'sub/deep/e.ipynb', 10], ['commit'], ['write', 'sub/deep/d.ipynb', 11], ['write', 'sub/deep/e.ipynb', 12], ['commit']],
       api('HEAD~1', 'HEAD', 'sub/deep', ['d.ipynb', 'e.ipynb']))
    sc('filter-modified', [['write', 'a.ipynb', 1], ['commit'], ['write', 'a.ipynb', 3]], api('HEAD', 'WORKTREE', ''), filter='*.ipynb')
    cli = lambda argv, a, b, paths, cwd='': {'mode': 'cli', 'argv': argv, 'argv_pos': argv, 'ref_a': a, 'ref_b': b, 'paths': paths, 'cwd': cwd}
    sc('cli-three-paths', two, cli(['a.ipynb', 'sub/b.ipynb', 'sub/c.ipynb'], 'HEAD', 'WORKTREE', ['a.ipynb', 'sub/b.ipynb', 'sub/c.ipynb']))
    sc('cli-one-path', two, cli(['a.ipynb'], 'HEAD', 'WORKTREE', ['a.ipynb']))
    sc('cli-ref-two-paths', two, cli(['HEAD', 'a.ipynb', 'sub/b.ipynb'], 'HEAD', 'WORKTREE', ['a.ipynb', 'sub/b.ipynb']))
    sc('cli-none', two, cli([], 'HEAD', 'WORKTREE', None))
    sc('cli-two-refs', two + [['commit']], cli(['HEAD~1', 'HEAD'], 'HEAD~1', 'HEAD', None))
    sc('cli-word-is-tag-and-directory', [['write', 'v1/a.ipynb', 1], ['write', 'b.ipynb', 2], ['commit'], ['tag', 'v1'], ['write', 'v1/a.ipynb', 3], ['write', 'b.ipynb', 4], ['commit'],
                                         ['write', 'v1/a.ipynb', 5], ['write', 'b.ipynb', 6]], cli(['v1'], 'HEAD', 'WORKTREE', ['v1']))
    sc('cli-subdir-ref-paths', two, cli(['HEAD', 'b.ipynb', 'c.ipynb'], 'HEAD', 'WORKTREE', ['b.ipynb', 'c.ipynb'], cwd='sub'))
    return out


def gen_scenario(r, i):
    nxt = [1]
    def fresh():
        nxt[0] += 1; return nxt[0]
    files = {}; ops = []; ever = set()
    dirs = r.sample(DIRS[1:], r.choice([1, 2, 2, 3])) + ['']
    def newname(ext):
        for _ in range(20):
            d = r.choice(dirs)
            p = (d + '/' if d else '') + r.choice('abcdefg') + str(r.randrange(2)) + ext
            if p not in files: return p
        return None
    def mutate():
        acts = ['addnb'] * 3 + ['addtxt'] * 2
        if files: acts += ['edit'] * 4 + ['del'] * 2 + ['mv'] * 2 + ['mvedit'] + ['mvx']
        a = r.choice(acts)
        if a in ('addnb', 'addtxt'):
            p = newname(NB if a == 'addnb' else r.choice(OTHER_EXT))
            if p: files[p] = fresh(); ever.add(p); ops.append(['write', p, files[p]])
            return
        p = r.choice(sorted(files))
        if a == 'edit':
            files[p] = fresh(); ops.append(['write', p, files[p]])
        elif a == 'del':
            del files[p]; ops.append(['rm', p])
        else:
            isnb = p.endswith(NB)
            if a == 'mvx': ext = r.choice(OTHER_EXT) if isnb else NB
            else: ext = NB if isnb else r.choice(OTHER_EXT)
            q = newname(ext)
            if not q: return
            files[q] = files.pop(p); ever.add(q); ops.append(['mv', p, q])
            if a == 'mvedit':
                files[q] = fresh(); ops.append(['write', q, files[q]])
    ncommits = r.choice([1, 2, 2, 3, 4])
    for c in range(ncommits):
        for _ in range(r.choice([3, 4, 5, 6]) if c == 0 else r.choice([1, 2, 3, 4])): mutate()
        if c == 0 and not any(p.endswith(NB) for p in files):
            p = newname(NB); files[p] = fresh(); ever.add(p); ops.append(['write', p, files[p]])
        ops.append(['commit'])
        if c == 0: ops.append(['tag', 'v1'])
    ns = r.choice([0, 0, 1, 2, 3])
    for _ in range(ns): mutate()
    if ns: ops.append(['add_all'])
    for _ in range(r.choice([0, 1, 2, 3, 4, 5])): mutate()
    refs = ['HEAD', 'main', 'v1'] + ['HEAD~%d' % k for k in range(1, ncommits)]
    kind = r.choice(['cc', 'ci', 'cw', 'cw', 'cw', 'iw', 'iw'])
    if kind == 'cc':
        ra, rb = r.choice(refs), r.choice(refs)
    elif kind == 'ci': ra, rb = r.choice(refs), 'INDEX'
    elif kind == 'cw': ra, rb = r.choice(refs), 'WORKTREE'
    else: ra, rb = 'INDEX', 'WORKTREE'
    cwd = r.choice(dirs + [''])
    # path filters, relative to cwd
    paths = None; exotic = False
    if r.random() < 0.45:
        under = [p[len(cwd) + 1:] if cwd else p for p in sorted(ever) if (not cwd or p.startswith(cwd + '/'))]
        cands = list(under) + ['.'] + sorted({u.split('/')[0] for u in under if '/' in u}) + ['nosuch' + NB]
        paths = r.sample(cands, min(len(cands), r.choice([1, 1, 2, 3])))
        if cwd and r.random() < 0.2:
            outside = [p for p in sorted(ever) if not p.startswith(cwd + '/')]
            if outside:
                paths.append('/'.join(['..'] * len(cwd.split('/'))) + '/' + r.choice(outside)); exotic = True
    q = {'mode': 'api', 'ref_a': ra, 'ref_b': rb, 'cwd': cwd, 'paths': paths}
    if kind in ('cc', 'cw') and r.random() < 0.3:
        # command line: leading refs, then paths; never exactly two non-refs (that is plain file mode)
        pos = []
        explicit_a = ra != 'HEAD' or kind == 'cc' or r.random() < 0.5
        if explicit_a: pos.append(ra)
        if kind == 'cc': pos.append(rb)
        pl = list(paths or [])
        if not explicit_a and len(pl) == 2: pl = pl[:1]
        pos += pl
        q = {'mode': 'cli', 'argv': pos, 'argv_pos': pos, 'ref_a': ra if explicit_a else 'HEAD', 'ref_b': rb, 'cwd': cwd, 'paths': pl or None}
    decoys = []
    if cwd and rb == 'WORKTREE' and r.random() < 0.3:
        for p in r.sample(sorted(ever), min(len(ever), 2)):
            decoys.append([r.choice(['w/', '']) + p, fresh() + 500])
    filt = None
    if r.random() < 0.12: filt = r.choice(['*.ipynb', '*.ipynb', 'sub/*.ipynb'])
    return {'src': 'rand', 'root_rel': ROOT_REL, 'ops': ops, 'query': q, 'decoys': decoys, 'filter': filt, 'exotic': exotic}


ROOT_MARK = '{ROOT}'          # expanded by the runner to the absolute path of the temporary repository root


def is_abs_filter(p):
    return isinstance(p, str) and p.startswith(ROOT_MARK)


def gen_abs_scenario(r, i):
    """ABSOLUTE path filters (as `$PWD/x`, scripts and editors produce them): a random history as in gen_scenario, queried
    from a subdirectory (mostly) or the root with 1-3 filters of which at least one is the absolute path of a file (existing,
    deleted, never there, inside or outside the invocation directory), of a directory (with or without trailing slash) or of
    the repository root itself, possibly with a redundant `.` component and possibly mixed with relative filters; every ref
    pair, API and command line.  An absolute filter means the same from every directory."""
    b = gen_scenario(r, i)
    ops = b['ops']
    ever = sorted({o[1] for o in ops if o[0] == 'write'} | {o[2] for o in ops if o[0] == 'mv'})
    dirs = sorted({'/'.join(p.split('/')[:k]) for p in ever for k in range(1, len(p.split('/')))})
    touched = sorted({x for o in ops[ops.index(['commit']):] if o[0] in ('write', 'rm', 'mv') for x in o[1:] if isinstance(x, str) and x.endswith(NB)})
    ra, rb = b['query']['ref_a'], b['query']['ref_b']
    kind = ('i' if ra == 'INDEX' else 'c') + {'INDEX': 'i', 'WORKTREE': 'w'}.get(rb, 'c')
    cwd = r.choice(dirs or ['sub']) if r.random() < 0.8 else ''
    def absolute():
        k = r.choice(['file', 'touched', 'touched', 'touched', 'dir', 'dir', 'cwd', 'root', 'nosuch'])
        if k == 'touched' and touched: rel = r.choice(touched)
        elif k in ('file', 'touched'): rel = r.choice(ever)
        elif k == 'dir' and dirs: rel = r.choice(dirs) + r.choice(['', '', '/'])
        elif k == 'cwd' and cwd: rel = cwd + r.choice(['', '/'])
        elif k == 'nosuch': rel = (r.choice(dirs) + '/' if dirs and r.random() < 0.5 else '') + 'nosuch' + NB
        else: return ROOT_MARK + r.choice(['', '', '/'])
        if r.random() < 0.1: rel = './' + rel
        return ROOT_MARK + '/' + rel
    def relative():
        under = [p[len(cwd) + 1:] if cwd else p for p in ever if (not cwd or p.startswith(cwd + '/'))]
        return r.choice(under + ['.'])
    paths = [absolute()]
    for _ in range(r.choice([0, 0, 0, 1, 1, 2])):
        paths.append(absolute() if r.random() < 0.6 else relative())
    paths = list(dict.fromkeys(paths))
    r.shuffle(paths)
    q = {'mode': 'api', 'ref_a': ra, 'ref_b': rb, 'cwd': cwd, 'paths': paths}
    if kind in ('cc', 'cw') and r.random() < 0.3:
        pos = []
        explicit_a = ra != 'HEAD' or kind == 'cc' or r.random() < 0.5
        if explicit_a: pos.append(ra)
        if kind == 'cc': pos.append(rb)
        pl = sorted(paths, key=lambda p: not is_abs_filter(p))      # stable: the absolute ones first
        if not explicit_a and len(pl) == 2: pl = pl[:1]              # two non-refs would be plain file mode
        pos += pl
        q = {'mode': 'cli', 'argv': pos, 'argv_pos': pos, 'ref_a': ra if explicit_a else 'HEAD', 'ref_b': rb, 'cwd': cwd, 'paths': pl}
    filt = r.choice(['*.ipynb', 'sub/*.ipynb']) if r.random() < 0.1 else None
    return {'src': 'rand-abs', 'root_rel': ROOT_REL, 'ops': ops, 'query': q, 'decoys': [], 'filter': filt}


def simulate(ops):
    """(head, index, disk): path -> content id after the script, following c17_runner.build"""
    head = {}; index = {}; disk = {}
    for o in ops:
        k = o[0]
        if k == 'write': disk[o[1]] = o[2]
        elif k == 'rm': disk.pop(o[1], None)
        elif k == 'mv': disk[o[2]] = disk.pop(o[1])
        elif k == 'add_all': index = dict(disk)
        elif k == 'add':
            pre = o[1] + '/'
            for p in [p for p in index if p == o[1] or p.startswith(pre)]: del index[p]
            for p, c in disk.items():
                if p == o[1] or p.startswith(pre): index[p] = c
        elif k == 'rm_cached': index.pop(o[1], None)
        elif k == 'commit': index = dict(disk); head = dict(index)
    return head, index, disk


def gen_deleted_scenario(r, i):
    """Paths that git reports as DELETED while something sits at the path on disk: a random history as in gen_scenario
    (with its staged and unstaged changes), then for 1-3 notebooks of the last commit one of
      rmcached    `git rm --cached p`, the file stays (untracked), left alone or edited afterwards
      recreate    p removed, the removal staged, p written again (same content or new) as an untracked file
      dir         p removed (removal staged or not) and a DIRECTORY named p with a notebook inside created
      plain       an ordinary unstaged or staged deletion (nothing on disk: the control)
    followed sometimes by unrelated working-tree edits.  Queries: commit/worktree mostly (HEAD or an older ref), also
    index/worktree, commit/index and commit/commit (where git's answer involves no file on disk); from the root, the victim's
    directory or any of its ancestors or another directory; without filters or with the victim's path / its directory / `.`;
    API and command line; sometimes with a clean filter or a decoy above the repository."""
    b = gen_scenario(r, i)
    ops = [list(o) for o in b['ops']]
    nxt = [1000 + 10 * i]
    def fresh():
        nxt[0] += 1; return nxt[0]
    head, index, disk = simulate(ops)
    cands = sorted(p for p in head if p.endswith(NB) and index.get(p) == head[p] and disk.get(p) == head[p])
    if not cands or r.random() < 0.15:
        # a notebook of our own in a directory of known depth, committed on top
        d = r.choice(['', 'sub', 'sub/deep', 'sp ace'])
        p = (d + '/' if d else '') + 'k%d' % r.randrange(3) + NB
        c = fresh(); ops += [['write', p, c], ['commit']]
        head, index, disk = simulate(ops)
        cands = sorted(set(cands) | {p})
        cands = [p for p in cands if p in head and index.get(p) == head[p] and disk.get(p) == head[p]]
    victims = r.sample(cands, min(len(cands), r.choice([1, 1, 2, 3])))
    variants = []
    for p in victims:
        v = r.choice(['rmcached', 'rmcached', 'rmcached', 'recreate', 'recreate', 'recreate', 'dir', 'plain'])
        variants.append(v)
        if v == 'rmcached':
            ops.append(['rm_cached', p])
            if r.random() < 0.5: ops.append(['write', p, fresh()])
        elif v == 'recreate':
            ops += [['rm', p], ['add', p], ['write', p, head[p] if r.random() < 0.4 else fresh()]]
        elif v == 'dir':
            ops.append(['rm', p])
            if r.random() < 0.5: ops.append(['add', p])
            ops.append(['write', p + '/inner' + NB, fresh()])
        else:
            ops.append(['rm', p])
            if r.random() < 0.5: ops.append(['add', p])
    # unrelated unstaged edits afterwards
    others = sorted(q for q in disk if q.endswith(NB) and q not in victims)
    for q in r.sample(others, min(len(others), r.choice([0, 0, 1, 2]))):
        ops.append(['write', q, fresh()])
    ncommits = sum(1 for o in ops if o[0] == 'commit')
    kind = r.choice(['cw'] * 7 + ['iw', 'ci', 'cc'])
    older = ['main', 'v1'] + ['HEAD~%d' % k for k in range(1, ncommits)]
    ra = 'HEAD' if r.random() < 0.7 else r.choice(older)
    if kind == 'cw': rb = 'WORKTREE'
    elif kind == 'iw': ra, rb = 'INDEX', 'WORKTREE'
    elif kind == 'ci': rb = 'INDEX'
    else: ra, rb = r.choice(older), 'HEAD'
    v0 = victims[0]
    vdir = '/'.join(v0.split('/')[:-1])
    anc = ['/'.join(v0.split('/')[:k]) for k in range(len(v0.split('/')))]       # '' ... the victim's directory
    alld = sorted({'/'.join(q.split('/')[:k]) for q in disk for k in range(1, len(q.split('/')))} - {v0})
    cwd = r.choice(anc + [vdir, ''] + (alld[:] if r.random() < 0.3 and alld else []))
    if cwd in victims or any(cwd.startswith(v + '/') for v in victims): cwd = ''
    paths = None
    if r.random() < 0.5:
        under = [q[len(cwd) + 1:] if cwd else q for q in victims + others if (not cwd or q.startswith(cwd + '/'))]
        cands2 = under + ['.'] + sorted({u.split('/')[0] for u in under if '/' in u})
        paths = r.sample(cands2, min(len(cands2), r.choice([1, 1, 2])))
    q = {'mode': 'api', 'ref_a': ra, 'ref_b': rb, 'cwd': cwd, 'paths': paths}
    if kind in ('cc', 'cw') and r.random() < 0.3:
        pos = []
        explicit_a = ra != 'HEAD' or kind == 'cc' or r.random() < 0.5
        if explicit_a: pos.append(ra)
        if kind == 'cc': pos.append(rb)
        pl = list(paths or [])
        if not explicit_a and len(pl) == 2: pl = pl[:1]              # two non-refs would be plain file mode
        pos += pl
        q = {'mode': 'cli', 'argv': pos, 'argv_pos': pos, 'ref_a': ra if explicit_a else 'HEAD', 'ref_b': rb, 'cwd': cwd, 'paths': pl or None}
    decoys = []
    if cwd and rb == 'WORKTREE' and r.random() < 0.2:
        decoys.append([r.choice(['w/', '']) + v0, fresh() + 500])
    filt = r.choice(['*.ipynb', '*.ipynb', 'sub/*.ipynb']) if r.random() < 0.15 else None
    return {'src': 'rand-del', 'root_rel': ROOT_REL, 'ops': ops, 'query': q, 'decoys': decoys, 'filter': filt, 'variants': variants}


def deleted_fixed():
    """the observed defect and its nearest relatives, spelled out (no randomness)"""
    out = []
    api = lambda a, b, cwd, paths=None: {'mode': 'api', 'ref_a': a, 'ref_b': b, 'cwd': cwd, 'paths': paths}
    cli = lambda argv, a, b, paths, cwd='': {'mode': 'cli', 'argv': argv, 'argv_pos': argv, 'ref_a': a, 'ref_b': b, 'paths': paths, 'cwd': cwd}
    base = [['write', 'x.ipynb', 1], ['write', 'sub/y.ipynb', 2], ['write', 'm.ipynb', 3], ['commit']]
    def sc(name, ops, q, **kw):
        d = {'src': 'fixed-del:' + name, 'root_rel': ROOT_REL, 'ops': base + ops, 'query': q, 'decoys': [], 'filter': None}
        d.update(kw); out.append(d)
    sc('rm-cached-root', [['rm_cached', 'x.ipynb'], ['write', 'm.ipynb', 4]], api('HEAD', 'WORKTREE', ''))
    sc('rm-cached-edited', [['rm_cached', 'x.ipynb'], ['write', 'x.ipynb', 5]], api('HEAD', 'WORKTREE', ''))
    sc('rm-cached-subdir', [['rm_cached', 'sub/y.ipynb'], ['write', 'm.ipynb', 4]], api('HEAD', 'WORKTREE', 'sub'))
    sc('rm-cached-subdir-path', [['rm_cached', 'sub/y.ipynb']], api('HEAD', 'WORKTREE', 'sub', ['y.ipynb']))
    sc('recreated-untracked', [['rm', 'x.ipynb'], ['add', 'x.ipynb'], ['write', 'x.ipynb', 6]], api('HEAD', 'WORKTREE', ''))
    sc('recreated-untracked-subdir', [['rm', 'sub/y.ipynb'], ['add', 'sub/y.ipynb'], ['write', 'sub/y.ipynb', 2]], api('HEAD', 'WORKTREE', 'sub'))
    sc('rm-cached-index-worktree', [['rm_cached', 'x.ipynb'], ['write', 'm.ipynb', 4]], api('INDEX', 'WORKTREE', ''))
    sc('rm-cached-commit-index', [['rm_cached', 'x.ipynb']], api('HEAD', 'INDEX', 'sub'))
    sc('directory-at-deleted-path', [['rm', 'x.ipynb'], ['write', 'x.ipynb/inner.ipynb', 7]], api('INDEX', 'WORKTREE', ''))
    sc('rm-cached-filter', [['rm_cached', 'x.ipynb'], ['write', 'm.ipynb', 4]], api('HEAD', 'WORKTREE', ''), filter='*.ipynb')
    sc('rm-cached-cli', [['rm_cached', 'x.ipynb'], ['write', 'm.ipynb', 4]], cli([], 'HEAD', 'WORKTREE', None))
    sc('rm-cached-cli-subdir-path', [['rm_cached', 'sub/y.ipynb']], cli(['HEAD', 'y.ipynb'], 'HEAD', 'WORKTREE', ['y.ipynb'], cwd='sub'))
    sc('ordinary-deletion-and-modification', [['rm', 'x.ipynb'], ['write', 'm.ipynb', 4]], api('HEAD', 'WORKTREE', 'sub'))
    return out


# ------------------------------------------------------------------ the clean filter defined more than once
CFG_LEVELS = ['local'] * 5 + ['global'] * 3 + ['system', 'include-local', 'include-local', 'include-global', 'env']


def cfg_query(r, ops, kinds):
    """a query over the history `ops` (as gen_deleted_scenario builds them): ref pair of one of `kinds`, directory, filters, API or CLI"""
    head, index, disk = simulate(ops)
    ever = sorted({o[1] for o in ops if o[0] == 'write'} | {o[2] for o in ops if o[0] == 'mv'})
    dirs = sorted({'/'.join(p.split('/')[:k]) for p in disk for k in range(1, len(p.split('/')))})
    ncommits = sum(1 for o in ops if o[0] == 'commit')
    kind = r.choice(kinds)
    older = ['main', 'v1'] + ['HEAD~%d' % k for k in range(1, ncommits)]
    ra = 'HEAD' if r.random() < 0.7 else r.choice(older)
    if kind == 'cw': rb = 'WORKTREE'
    elif kind == 'iw': ra, rb = 'INDEX', 'WORKTREE'
    elif kind == 'ci': rb = 'INDEX'
    else: ra, rb = r.choice(older), 'HEAD'
    cwd = r.choice(dirs) if dirs and r.random() < 0.6 else ''
    paths = None
    if r.random() < 0.35:
        under = [p[len(cwd) + 1:] if cwd else p for p in ever if (not cwd or p.startswith(cwd + '/'))]
        cands = under + ['.'] + sorted({u.split('/')[0] for u in under if '/' in u})
        paths = r.sample(cands, min(len(cands), r.choice([1, 1, 2])))
    q = {'mode': 'api', 'ref_a': ra, 'ref_b': rb, 'cwd': cwd, 'paths': paths}
    if kind in ('cc', 'cw') and r.random() < 0.3:
        pos = []
        explicit_a = ra != 'HEAD' or kind == 'cc' or r.random() < 0.5
        if explicit_a: pos.append(ra)
        if kind == 'cc': pos.append(rb)
        pl = list(paths or [])
        if not explicit_a and len(pl) == 2: pl = pl[:1]              # two non-refs would be plain file mode
        pos += pl
        q = {'mode': 'cli', 'argv': pos, 'argv_pos': pos, 'ref_a': ra if explicit_a else 'HEAD', 'ref_b': rb, 'cwd': cwd, 'paths': pl or None}
    return q


def gen_filtercfg_scenario(r, i):
    """Git CONFIGURATION shapes of the clean filter: `*.ipynb filter=nbv` (or a narrower / wider pattern) in .gitattributes and
    `filter.nbv.clean` defined by a random SEQUENCE of 1-4 configuration steps, each at one of the places git reads
    (repository config, global config, system config, a file pulled in by [include] from the repository or the global
    config at that point, GIT_CONFIG_COUNT environment = `git -c`), written with `git config --add`, `--replace-all`, as a
    further section of the file or in another letter case, each naming one of four distinguishable drivers (sometimes the
    same one again, sometimes the empty command).  git uses the LAST value it reads.  The history is a random one as in
    gen_scenario with 1-3 further unstaged notebook edits, so that the working-tree side exists; queried mostly
    commit/worktree and index/worktree (where the filter matters), also commit/index and commit/commit (controls)."""
    b = gen_scenario(r, i)
    ops = [list(o) for o in b['ops']]
    nxt = [3000 + 10 * i]
    def fresh():
        nxt[0] += 1; return nxt[0]
    head, index, disk = simulate(ops)
    nbs = sorted(p for p in disk if p.endswith(NB))
    if not nbs:
        d = r.choice(['', 'sub', 'sub/deep', 'sp ace'])
        nbs = [(d + '/' if d else '') + 'k%d' % r.randrange(3) + NB]
        ops += [['write', nbs[0], fresh()], ['commit']]
    for p in r.sample(nbs, min(len(nbs), r.choice([1, 2, 2, 3]))):
        ops.append(['write', p, fresh()])
    steps = []
    for _ in range(r.choice([1, 2, 2, 2, 2, 3, 3, 4])):
        level = r.choice(CFG_LEVELS)
        how = r.choice(['add', 'add', 'add', 'set', 'raw', 'rawcase'])
        drv = None if r.random() < 0.08 else r.randrange(4)
        if steps and r.random() < 0.1: drv = steps[-1][2]            # the same command configured again
        steps.append([level, how, drv])
    q = cfg_query(r, ops, ['cw'] * 6 + ['iw'] * 3 + ['ci', 'cc'])
    filt = r.choice(['*.ipynb', '*.ipynb', '*.ipynb', 'sub/*.ipynb', '*'])
    return {'src': 'rand-cfg', 'root_rel': ROOT_REL, 'ops': ops, 'query': q, 'decoys': [], 'filter': filt, 'filter_config': steps}


def filtercfg_fixed():
    """the named shapes, spelled out (no randomness); each from the root and from a subdirectory"""
    out = []
    api = lambda a, b, cwd, paths=None: {'mode': 'api', 'ref_a': a, 'ref_b': b, 'cwd': cwd, 'paths': paths}
    cli = lambda argv, a, b, paths, cwd='': {'mode': 'cli', 'argv': argv, 'argv_pos': argv, 'ref_a': a, 'ref_b': b, 'paths': paths, 'cwd': cwd}
    ops = [['write', 'top.ipynb', 1], ['write', 'sub/one.ipynb', 2], ['write', 'sub/deep/two.ipynb', 3], ['write', 'sub/notes.txt', 4], ['commit'],
           ['write', 'top.ipynb', 5], ['write', 'sub/one.ipynb', 6], ['write', 'sub/deep/two.ipynb', 7], ['write', 'sub/notes.txt', 8]]
    L, G, S, IL, IG, E = 'local', 'global', 'system', 'include-local', 'include-global', 'env'
    shapes = [
        ('single-local', [[L, 'add', 1]]),
        ('single-global', [[G, 'add', 1]]),
        ('local-added-twice', [[L, 'add', 0], [L, 'add', 1]]),
        ('local-added-thrice', [[L, 'add', 2], [L, 'add', 0], [L, 'add', 1]]),
        ('local-two-sections', [[L, 'raw', 0], [L, 'raw', 1]]),
        ('local-second-in-other-case', [[L, 'add', 0], [L, 'rawcase', 1]]),
        ('local-same-twice', [[L, 'add', 1], [L, 'add', 1]]),
        ('local-replaced', [[L, 'add', 0], [L, 'set', 1]]),
        ('global-overridden-by-local', [[G, 'add', 0], [L, 'add', 1]]),
        ('local-written-before-global', [[L, 'add', 1], [G, 'add', 0]]),
        ('global-twice', [[G, 'add', 0], [G, 'add', 1]]),
        ('system-global-local', [[S, 'add', 2], [G, 'add', 0], [L, 'add', 1]]),
        ('system-overridden-by-local', [[S, 'add', 0], [L, 'add', 1]]),
        ('local-then-included-file', [[L, 'add', 0], [IL, 'raw', 1]]),
        ('included-file-then-local', [[IL, 'raw', 0], [L, 'raw', 1]]),
        ('global-includes-file-overridden-by-local', [[IG, 'raw', 0], [L, 'add', 1]]),
        ('global-then-its-included-file', [[G, 'add', 0], [IG, 'raw', 1]]),
        ('environment-over-local', [[L, 'add', 0], [E, 'add', 1]]),
        ('last-value-empty', [[L, 'add', 0], [L, 'add', None]]),
        ('first-value-empty', [[L, 'add', None], [L, 'add', 1]]),
    ]
    for name, steps in shapes:
        for cwd in ('', 'sub'):
            out.append({'src': 'fixed-cfg:%s%s' % (name, '-subdir' if cwd else ''), 'root_rel': ROOT_REL, 'ops': ops, 'query': api('HEAD', 'WORKTREE', cwd),
                        'decoys': [], 'filter': '*.ipynb', 'filter_config': steps})
    two = [[L, 'add', 0], [L, 'add', 1]]
    def sc(name, q, steps=two, ops=ops, filt='*.ipynb'):
        out.append({'src': 'fixed-cfg:' + name, 'root_rel': ROOT_REL, 'ops': ops, 'query': q, 'decoys': [], 'filter': filt, 'filter_config': steps})
    sc('twice-index-worktree', api('INDEX', 'WORKTREE', 'sub'))
    sc('twice-cli', cli([], 'HEAD', 'WORKTREE', None))
    sc('twice-cli-subdir-path', cli(['HEAD', 'one.ipynb'], 'HEAD', 'WORKTREE', ['one.ipynb'], cwd='sub'))
    sc('twice-commit-index', api('HEAD', 'INDEX', ''), ops=ops + [['add_all']])
    sc('twice-narrow-pattern', api('HEAD', 'WORKTREE', ''), filt='sub/*.ipynb')
    sc('global-overridden-cli', cli(['HEAD'], 'HEAD', 'WORKTREE', None, cwd='sub/deep'), steps=[[G, 'add', 0], [L, 'add', 1]])
    return out


def gen_cases(chk, tier):
    cases = fixed_scenarios()
    cdir = os.path.join(core.VERIF, 'corpus', PROP)
    if os.path.isdir(cdir):
        for f in sorted(os.listdir(cdir)):
            c = json.load(open(os.path.join(cdir, f))); c['src'] = 'corpus:' + f; cases.append(c)
    n = 260 if tier == 'quick' else 2600
    for i in range(n): cases.append(gen_scenario(chk.rng, i))
    # appended last, so that the random stream of the scenarios above is what it was before this family existed
    for i in range(60 if tier == 'quick' else 600): cases.append(gen_abs_scenario(chk.rng, i))
    # appended after everything else for the same reason: git says "deleted", something sits at the path on disk
    cases += deleted_fixed()
    for i in range(70 if tier == 'quick' else 700): cases.append(gen_deleted_scenario(chk.rng, i))
    # likewise appended at the end: filter.<name>.clean defined more than once / at several places git reads configuration
    cases += filtercfg_fixed()
    for i in range(50 if tier == 'quick' else 600): cases.append(gen_filtercfg_scenario(chk.rng, i))
    return cases

# ------------------------------------------------------------------ running the implementation
def run_scenarios(scs, shards=12):
    return core.run_impl([{k: v for k, v in s.items()} for s in scs], shards=shards, script='c17_runner.py', timeout=3000)


def comps(p):
    return [c for c in p.split('/') if c]


def canon_abs(p, base):
    """absolute path -> components, with the random name of the temporary directory replaced"""
    if p is None: return None
    if p == base or p.startswith(base + '/'):
        return comps(os.path.dirname(base)) + ['TMPBASE'] + comps(p[len(base):])
    return comps(p)

# ------------------------------------------------------------------ T2: the property, judged on the implementation
def cid_pair(y):
    def c(d):
        if d['kind'] == 'missing': return None
        if d['kind'] in ('blob', 'file', 'filtered'): return d['cid']
        return '?' + d['kind']
    return (c(y[0]), c(y[1]))


def spec_resolution(argv, reftable):
    """`git diff`-style reading of the positionals: leading references (at most two), then paths"""
    isref = lambda w: reftable[w]['isref']
    if len(argv) == 0: return 'HEAD', 'WORKTREE', None
    if not isref(argv[0]):
        if len(argv) == 2: return None        # two files: plain file diff, not C17's business
        return 'HEAD', 'WORKTREE', list(argv)
    if len(argv) >= 2 and isref(argv[1]): return argv[0], argv[1], (list(argv[2:]) or None)
    return argv[0], 'WORKTREE', (list(argv[1:]) or None)


def up(k, p):
    for _ in range(k): p = p[:-1]
    return p


def predict(sc, res, S):
    """observable behaviour under the set S of known deviations; S = {} is the property as stated"""
    q = sc['query']; f = res['facts']; base = res['base']
    root = canon_abs(res['root'], base); cwd = canon_abs(res['cwd'], base); k = len(cwd) - len(root)
    snap = {tuple(canon_abs(p, base)): c for p, c in f['snapshot']}
    cont = {(r, p): c for r, p, c in f['contents']}
    filt = f['filter_at_root']
    ra, rb = q['ref_a'], q['ref_b']
    if 'clibase' in S: ra = 'WORKTREE'
    pairs = []; ycwd = []; exc = None
    def side(ref, path, cwd, deleted=False):
        if not path.endswith(NB): return 'notnb', cwd
        if ref != 'WORKTREE': return cont.get((ref, path)), cwd
        if deleted: return None, cwd        # git reports a deletion: the null file, whatever sits at the path on disk
        rd, new = (up(k, cwd), up(k, cwd)) if 'drift' in S else (root, cwd)
        if rd == root and filt.get(path) is not None:
            v = filt[path]
            if v == 'raise': return ('raise' if 'filterraise' in S else None), new
            return v, new
        return snap.get(tuple(rd + comps(path))), new
    for e in f['name_status']:
        a, cwd2 = side(ra, e['a'], cwd)
        if a == 'raise': exc = 'FileNotFoundError'; cwd = cwd2; break
        if a == 'notnb' and ('mixed' in S or not e['b'].endswith(NB)):
            cwd = cwd2; continue
        b, cwd3 = side(rb, e['b'], cwd2, deleted=e['status'].startswith('D'))
        cwd = cwd3
        if b == 'raise': exc = 'FileNotFoundError'; break
        if b == 'notnb':
            if 'mixed' in S: continue
            b = None
        if a == 'notnb': a = None
        pairs.append((a, b)); ycwd.append(cwd)
        if q['mode'] == 'cli' and a is None and b is None:
            exc = 'AssertionError'; break       # nbdiffapp._handle_diff refuses to diff the null file against itself
    return {'pairs': pairs, 'ycwd': ycwd, 'cwd1': cwd, 'exc': exc}


def observed(res):
    base = res['base']; o = res['obs']
    return {'pairs': [cid_pair(y) for y in o['yields']], 'ycwd': [canon_abs(y[2], base) for y in o['yields']],
            'cwd1': canon_abs(o['cwd1'], base), 'exc': (o['exc'] or {}).get('type') if o['exc'] else None}


def judge(sc, res):
    """-> list of (signature, detail); empty when the property holds on this scenario"""
    if 'err' in res:
        return [('harness:' + res['err'], {'msg': res.get('msg'), 'tb': res.get('tb')})]
    q = sc['query']; f = res['facts']; o = res['obs']; base = res['base']
    if f['name_status_rc'] != 0:
        return []                                   # git itself rejects the question (bad pathspec): nothing to compare
    if f.get('clean_oracles_disagree'):
        # `git hash-object --path` and the last value git lists for the driver, run by hand, give different content: the
        # scenario family (not nbdime) is at fault; no verdict is built on it
        return [('harness:clean-filter-oracles-disagree', {'path, by hand, by git': f['clean_oracles_disagree'], 'values': f.get('clean_values')})]
    if q['mode'] == 'cli':
        sr = spec_resolution(q['argv_pos'], res['reftable'])
        if sr is None or [sr[0], sr[1], sr[2]] != [q['ref_a'], q['ref_b'], q['paths']]:
            return [('harness:cli-scenario-ambiguous', {'spec': sr, 'intended': [q['ref_a'], q['ref_b'], q['paths']], 'reftable': res['reftable']})]
    strict = predict(sc, res, set())
    ob = observed(res)
    cwd0 = canon_abs(o['cwd0'], base)
    problems = []
    if ob['exc']: problems.append('raises:' + ob['exc'])
    if ob['cwd1'] != cwd0: problems.append('cwd-not-restored-afterwards')
    if any(c != cwd0 for c in ob['ycwd']): problems.append('cwd-changed-at-a-yield')
    key = lambda p: json.dumps(p)
    if sorted(map(key, ob['pairs'])) != sorted(map(key, strict['pairs'])): problems.append('pairs-differ-from-git')
    if q['mode'] == 'cli' and not ob['exc']:
        hp = [cid_pair([h['base'], h['remote']]) for h in o.get('handled', [])]
        if hp != ob['pairs']: problems.append('cli-handled-pairs-differ-from-yields')
        if any(h.get('status') != 0 for h in o.get('handled', [])) or o.get('status') != 0: problems.append('cli-nonzero-status')
    if not problems: return []
    detail = {'problems': problems, 'git_reports': f['name_status'], 'expected_pairs': strict['pairs'], 'observed_pairs': ob['pairs'],
              'cwd_before': cwd0, 'cwd_at_yields': ob['ycwd'], 'cwd_after': ob['cwd1'], 'exception': o['exc']}
    # classification: the smallest set of known deviations that reproduces the observation exactly
    root = canon_abs(res['root'], base)
    toggles = []
    if len(cwd0) > len(root): toggles.append('drift')
    if q['mode'] == 'cli' and any(c[0] is None for c in o.get('cn_calls', [])): toggles.append('clibase')
    if any(e['a'].endswith(NB) != e['b'].endswith(NB) for e in f['name_status']): toggles.append('mixed')
    if any(v == 'raise' for v in f['filter_at_root'].values()): toggles.append('filterraise')
    if 'cli-handled-pairs-differ-from-yields' not in problems and 'cli-nonzero-status' not in problems:
        for n in range(1, len(toggles) + 1):
            for S in itertools.combinations(toggles, n):
                p = predict(sc, res, set(S))
                if p == ob:
                    detail['explained_by'] = list(S)
                    return [(SIG[t], detail) for t in S]
    return [('unexplained:' + '+'.join(problems), detail)]

# ------------------------------------------------------------------ T1: the Gallina model on the same scenarios
_FACTS = {}
def src_facts_text():
    """the facts of the tree under test, generated privately (the shared coq/Gen file can be rewritten by a concurrent
    run against another tree) and inlined into the case files"""
    if 'text' not in _FACTS:
        p = subprocess.run([os.path.join(core.VERIF, 'tools', 'gen', 'gen_gitrefs.py'), '--stdout'], capture_output=True, text=True,
                           env=dict(os.environ, NBDIME_REPO=core.REPO))
        if p.returncode != 0:
            _FACTS['text'] = None; _FACTS['err'] = (p.stderr + p.stdout)[-1500:]
        else:
            _FACTS['text'] = p.stdout[p.stdout.index('Definition src_facts'):]
    return _FACTS['text']


PRELUDE = r'''From Coq Require Import List NArith Bool Arith.
From NB Require Import Base.Json Sys.GitRefs.
Import ListNotations.
(*FACTS*)
Fixpoint path_eqb (a b : path) : bool :=
  match a, b with [], [] => true | x :: xs, y :: ys => str_eqb x y && path_eqb xs ys | _, _ => false end.
Fixpoint paths_eqb (a b : list path) : bool :=
  match a, b with [], [] => true | x :: xs, y :: ys => path_eqb x y && paths_eqb xs ys | _, _ => false end.
Fixpoint strs_eqb (a b : list pystr) : bool :=
  match a, b with [], [] => true | x :: xs, y :: ys => str_eqb x y && strs_eqb xs ys | _, _ => false end.
Definition ref_eqb (a b : ref) : bool :=
  match a, b with RCommit x, RCommit y => str_eqb x y | RIndex, RIndex => true | RWorktree, RWorktree => true | _, _ => false end.
Definition stream_eqb (a b : stream) : bool :=
  match a, b with
  | SMissing, SMissing => true
  | SBlob c, SBlob d => N.eqb c d
  | SFile p c, SFile q d => path_eqb p q && N.eqb c d
  | SFiltered p c, SFiltered q d => path_eqb p q && N.eqb c d
  | _, _ => false
  end.
Definition yielded_eqb (a b : yielded) : bool :=
  stream_eqb (y_a a) (y_a b) && stream_eqb (y_b a) (y_b b) && path_eqb (y_cwd a) (y_cwd b).
Fixpoint ys_eqb (a b : list yielded) : bool :=
  match a, b with [], [] => true | x :: xs, y :: ys => yielded_eqb x y && ys_eqb xs ys | _, _ => false end.
Definition obs_eqb (r : result) (ys : list yielded) (cwd : path) (raised : bool) : bool :=
  ys_eqb (r_yields r) ys && path_eqb (r_cwd r) cwd && Bool.eqb (r_raised r) raised.
Fixpoint ys_prefix_eqb (a b : list yielded) : bool :=     (* a is a prefix of b *)
  match a, b with [], _ => true | x :: xs, y :: ys => yielded_eqb x y && ys_prefix_eqb xs ys | _ :: _, [] => false end.
Fixpoint lookup {A} (k : path) (l : list (path * A)) : option A :=
  match l with [] => None | (k', v) :: t => if path_eqb k k' then Some v else lookup k t end.
Fixpoint slookup (k : pystr) (l : list (pystr * bool)) : bool :=
  match l with [] => false | (k', v) :: t => if str_eqb k k' then v else slookup k t end.
Definition mk_world (fs : list (path * content)) (root : path) (ft : list (path * fres))
           (qb qr : ref) (qp : list path) (es : list entry) : world :=
  {| w_fs := fun p => lookup p fs;
     w_filter := fun cwd p => if path_eqb cwd root then match lookup p ft with Some x => x | None => FNone end else FNone;
     w_diff := fun b r ps => if ref_eqb b qb && ref_eqb r qr && paths_eqb ps qp then es else [] |}.
Definition mode_eqb (a b : mode) : bool :=
  match a, b with
  | GitMode x y p, GitMode x' y' p' => ref_eqb x x' && ref_eqb y y' && strs_eqb p p'
  | _, _ => false
  end.
Definition Y (a b : stream) (c : path) : yielded := {| y_a := a; y_b := b; y_cwd := c |}.
Definition E (a : path) (x : option content) (b : path) (y : option content) (d : bool) : entry :=
  {| a_path := a; a_blob := x; b_path := b; b_blob := y; e_deleted := d |}.
'''


def cs(s):
    return '(@nil N)' if not s else '[' + '; '.join(str(ord(c)) for c in s) + ']%N'
def cpath(cl):
    return '(@nil pystr)' if not cl else '[' + '; '.join(cs(c) for c in cl) + ']'
def cN(c):
    return '%d%%N' % (999999 if (c is None or not isinstance(c, int) or c < 0) else c)
def cref(r):
    return {'INDEX': 'RIndex', 'WORKTREE': 'RWorktree'}.get(r) or '(RCommit %s)' % cs(r)
def cstream(d):
    if d['kind'] == 'missing': return 'SMissing'
    if d['kind'] == 'blob': return '(SBlob %s)' % cN(d['cid'])
    if d['kind'] == 'file': return '(SFile %s %s)' % (cpath(comps(d['name'])), cN(d['cid']))
    if d['kind'] == 'filtered': return '(SFiltered %s %s)' % (cpath(comps(d['name'])), cN(d['cid']))
    return None


def model_terms(sc, res):
    """Coq boolean terms (label, term) that must evaluate to true for this scenario; None if not expressible"""
    q = sc['query']; f = res['facts']; o = res['obs']; base = res['base']
    if sc.get('exotic') or f['raw_rc'] != 0: return None
    absf = any(is_abs_filter(p) for p in ([q['paths']] if isinstance(q['paths'], str) else (q['paths'] or [])))
    if absf and q['mode'] != 'cli': return None     # absolute filters are outside the model's paths (components below the invocation directory)
    root = canon_abs(res['root'], base); cwd = canon_abs(res['cwd'], base); popped = cwd[len(root):]
    terms = []
    ra, rb, paths = q['ref_a'], q['ref_b'], q['paths']
    if isinstance(paths, str): paths = [paths]
    if q['mode'] == 'cli':
        calls = o.get('cn_calls', [])
        if len(calls) != 1: return [('cli-mode', 'false', None)]
        b0, r0, p0 = calls[0]
        if not all(x is None or isinstance(x, str) for x in (b0, r0)): return [('cli-mode', 'false', None)]
        p0 = [] if p0 is None else ([p0] if isinstance(p0, str) else p0)
        tab = '[' + '; '.join('(%s, %s)' % (cs(w), 'true' if v['isref'] else 'false') for w, v in sorted(res['reftable'].items())) + ']'
        isref = '(fun o => match o with None => %s | Some s => slookup s %s end)' % ('true' if res['reftable']['HEAD']['valid'] else 'false', tab)
        if p0:
            obs_mode = 'GitMode %s %s [%s]' % (cref(b0 if b0 is not None else 'WORKTREE'), cref(r0 if r0 is not None else 'WORKTREE'), '; '.join(cs(p) for p in p0))
        else:
            obs_mode = 'GitMode %s %s (@nil pystr)' % (cref(b0 if b0 is not None else 'WORKTREE'), cref(r0 if r0 is not None else 'WORKTREE'))
        argv = '[' + '; '.join(cs(w) for w in q['argv_pos']) + ']' if q['argv_pos'] else '(@nil pystr)'
        terms.append(('cli-mode', 'mode_eqb (main_mode src_facts %s %s) (%s)' % (isref, argv, obs_mode), None))
        # what changed_notebooks was really called with
        ra = b0 if b0 is not None else 'WORKTREE'; rb = r0 if r0 is not None else 'WORKTREE'
        if [ra if b0 is not None else 'HEAD', rb] != [q['ref_a'], q['ref_b']] or (p0 or None) != (paths or None):
            return terms            # the git facts were gathered for another question; the mode term already covers it
        if absf: return terms       # only the ref-vs-path reading of the words is modelled for absolute filters
    ys = []
    for y in o['yields']:
        a, b = cstream(y[0]), cstream(y[1])
        if a is None or b is None: return terms + [('streams', 'false', None)]
        ys.append('Y %s %s %s' % (a, b, cpath(canon_abs(y[2], base))))
    fs = '[' + '; '.join('(%s, %s)' % (cpath(canon_abs(p, base)), cN(c)) for p, c in f['snapshot']) + ']'
    ft = '[' + '; '.join('(%s, %s)' % (cpath(comps(p)), 'FRaiseIO' if v == 'raise' else '(FSome %s)' % cN(v)) for p, v in sorted(f['filter_at_root'].items()) if v is not None) + ']'
    def blob(h): return 'None' if h == '0' * 40 else '(Some %s)' % cN(f['blobs'].get(h))
    es = '[' + '; '.join('E %s %s %s %s %s' % (cpath(comps(e['a'])), blob(e['asha']), cpath(comps(e['b'])), blob(e['bsha']),
                                               'true' if e['status'].startswith('D') else 'false') for e in f['raw']) + ']'
    qp = '[' + '; '.join(cpath(comps(p)) for p in f['prefixed_paths']) + ']'
    qb = cref('HEAD' if ra == 'WORKTREE' else ra)
    W = 'mk_world %s %s %s %s %s %s %s' % (fs or '[]', cpath(root), ft, qb, cref(rb), qp, es)
    mp = '[' + '; '.join(cpath(comps(p)) for p in (paths or [])) + ']'
    call = 'changed_notebooks src_facts (%s) %s %s %s %s %s' % (W, cpath(root), cpath(popped), cref(ra), cref(rb), mp)
    consumer_raised = q['mode'] == 'cli' and o['exc'] and any('exc' in h for h in o.get('handled', []))
    if consumer_raised:
        # nbdiffapp._handle_diff raised while the generator was suspended at its last yield: the yields seen are a prefix
        terms.append(('changed_notebooks', 'ys_prefix_eqb [%s] (r_yields (%s))' % ('; '.join(ys), call), call))
    else:
        terms.append(('changed_notebooks', 'obs_eqb (%s) [%s] %s %s' % (call, '; '.join(ys), cpath(canon_abs(o['cwd1'], base)),
                                                                       'true' if o['exc'] else 'false'), call))
    return terms


def run_model(term_list, chunk=200, workers=8):
    """term_list: [(key, term)] -> (set of keys whose term is not true, error text or None).
    The terms are evaluated by vm_compute under coqc, in chunks run in parallel."""
    if not term_list: return set(), None
    from concurrent.futures import ThreadPoolExecutor
    d = tempfile.mkdtemp(prefix='nbv_c17_coq_')
    pre = PRELUDE.replace('(*FACTS*)', src_facts_text())
    chunks = [term_list[i:i + chunk] for i in range(0, len(term_list), chunk)]
    def one(k):
        sub = os.path.join(d, 'c%d' % k); os.makedirs(sub)
        src = pre + 'Definition cases : list (nat * bool) := [\n' + ';\n'.join('(%d, %s)' % (i, t) for i, (_, t) in enumerate(chunks[k])) + '].\n'
        src += 'Definition bad := map fst (filter (fun p => negb (snd p)) cases).\nEval vm_compute in bad.\n'
        open(os.path.join(sub, 'cases.v'), 'w').write(src)
        p = subprocess.run(['timeout', '900', 'coqc', '-Q', core.COQ, 'NB', 'cases.v'], cwd=sub, capture_output=True, text=True)
        if p.returncode != 0: return None, (p.stderr + p.stdout)[-1500:]
        m = re.search(r'=\s*(\[[^\]]*\]|nil)', p.stdout.replace('\n', ' '))
        if not m: return None, 'unparsable coqc output: ' + p.stdout[-500:]
        return {chunks[k][int(x)][0] for x in re.findall(r'\d+', m.group(1))}, None
    try:
        with ThreadPoolExecutor(max_workers=workers) as ex:
            outs = list(ex.map(one, range(len(chunks))))
    finally:
        shutil.rmtree(d, ignore_errors=True)
    bad = set()
    for b_, err in outs:
        if b_ is None: return None, err
        bad |= b_
    return bad, None


def model_value(call):
    """for a mismatch report: what the model computes (text)"""
    if not call: return None
    d = tempfile.mkdtemp(prefix='nbv_c17_coq_')
    try:
        open(os.path.join(d, 'one.v'), 'w').write(PRELUDE.replace('(*FACTS*)', src_facts_text()) + 'Definition r := %s.\nEval vm_compute in (r_yields r, r_cwd r, r_raised r).\n' % call)
        p = subprocess.run(['timeout', '120', 'coqc', '-Q', core.COQ, 'NB', 'one.v'], cwd=d, capture_output=True, text=True)
        return (p.stdout + p.stderr)[-1500:]
    finally:
        shutil.rmtree(d, ignore_errors=True)

# ------------------------------------------------------------------ shrinking
def shrink_case(sc, sig):
    def fails(c):
        r = run_scenarios([c], shards=1)[0]
        return any(s == sig for s, _ in judge(c, r))
    def cands(c):
        for i in range(len(c['ops']) - 1, -1, -1):
            if c['ops'][i][0] in ('commit', 'tag'): continue
            d = dict(c); d['ops'] = c['ops'][:i] + c['ops'][i + 1:]; yield d
        if c['decoys']:
            d = dict(c); d['decoys'] = []; yield d
        if c['filter']:
            d = dict(c); d['filter'] = None; yield d
        if c.get('filter') and len(c.get('filter_config') or []) > 1:
            for i in range(len(c['filter_config'])):
                d = dict(c); d['filter_config'] = c['filter_config'][:i] + c['filter_config'][i + 1:]; yield d
        if c['query']['mode'] == 'api' and c['query']['paths']:
            d = dict(c); d['query'] = dict(c['query'], paths=None); yield d
        if c['query']['mode'] == 'api' and isinstance(c['query']['paths'], list) and len(c['query']['paths']) > 1:
            for i in range(len(c['query']['paths'])):
                d = dict(c); d['query'] = dict(c['query'], paths=c['query']['paths'][:i] + c['query']['paths'][i + 1:]); yield d
    return core.shrink(sc, fails, cands, budget=40)

# ------------------------------------------------------------------ the check
def strip(sc):
    return {k: sc[k] for k in ('root_rel', 'ops', 'query', 'decoys', 'filter', 'filter_config') if k in sc}


OWN_CLOSURE = ['Base/Json.v', 'Sys/GitRefs.v', 'Gen/GitRefsFacts.v', 'Sys/GitRefsProofs.v', 'Props/C17.v']


def isolated_build():
    """C17_ISOLATED=1 (development aid, used for the mutation experiments while other members' builds hold the shared
    lock): compile this property's closure in a private copy of the five files, with facts generated from NBDIME_REPO, and
    point the proof accounting at it.  Nothing in the shared tree is read after the copy or written at all."""
    d = tempfile.mkdtemp(prefix='nbv_c17_iso_')
    b = core.BuildResult(); b.model_ok = True
    for f in OWN_CLOSURE:
        os.makedirs(os.path.join(d, os.path.dirname(f)), exist_ok=True)
        if not f.startswith('Gen/'): shutil.copy(os.path.join(core.COQ, f), os.path.join(d, f))
    p = subprocess.run([os.path.join(core.VERIF, 'tools', 'gen', 'gen_gitrefs.py'), '--stdout'], capture_output=True, text=True,
                       env=dict(os.environ, NBDIME_REPO=core.REPO))
    core.COQ = d
    if p.returncode != 0:
        b.ok = False; b.gen_error = (p.stderr + p.stdout)[-2000:]; return b, d
    open(os.path.join(d, 'Gen', 'GitRefsFacts.v'), 'w').write(p.stdout)
    for f in OWN_CLOSURE:
        q = subprocess.run(['timeout', '600', 'coqc', '-Q', '.', 'NB', '-w', '-notation-overridden,-deprecated-hint-without-locality', f],
                           cwd=d, capture_output=True, text=True)
        if q.returncode != 0:
            b.ok = False; b.failed_file = f; b.log = (q.stdout + q.stderr)[-3000:]
            os.utime(os.path.join(d, f))            # make the closure count as stale
            break
    return b, d


def run(tier, seed):
    chk = core.Check(PROP, tier, seed)
    iso = None
    if os.environ.get('C17_ISOLATED') == '1':
        b, iso = isolated_build()
        core.build_targets = lambda targets, locked=False: b      # the private closure is already compiled (or failed)
        chk.notes.append('C17_ISOLATED=1: proof obligations checked in a private copy of the closure')
    else:
        b = core.build()        # regenerates Gen/*.v; the closure of Props/C17.v is built by proof_obligations below
    try:
        return run_checked(chk, b, tier)
    finally:
        if iso: shutil.rmtree(iso, ignore_errors=True)


def coqchk(chk):
    """thorough tier: re-check the compiled closure of Props/C17.vo with the independent checker"""
    p = subprocess.run(['timeout', '900', 'coqchk', '-silent', '-o', '-Q', '.', 'NB', 'NB.Props.C17'], cwd=core.COQ, capture_output=True, text=True)
    out = p.stdout + p.stderr
    ok = p.returncode == 0 and re.search(r'Axioms:\s*<none>', out) is not None
    chk.cov['trusted_base'].append('coqchk -o NB.Props.C17: ' + ('ok, axioms <none>' if ok else 'FAILED'))
    if not ok: chk.broken_obligation('coqchk', out[-800:])


def run_checked(chk, b, tier):
    if chk.proof_obligations('Props/C17.v', b) and tier == 'thorough': coqchk(chk)
    cases = gen_cases(chk, tier)
    results = run_scenarios(cases)
    hist = {}; nontrivial = set(); shrunk = set()
    for sc, res in zip(cases, results):
        q = sc['query']
        kind = '%s->%s' % ('commit' if q['ref_a'] not in ('INDEX', 'WORKTREE') else q['ref_a'].lower(),
                           'commit' if q['ref_b'] not in ('INDEX', 'WORKTREE') else q['ref_b'].lower())
        key = '%s %s depth%d %s%s' % (q['mode'], kind, len(comps(q['cwd'])),
                                      ('abspaths' if any(is_abs_filter(p) for p in ([q['paths']] if isinstance(q['paths'], str) else q['paths'])) else 'paths') if q['paths'] else 'nopaths', ' filter' if sc.get('filter') else '')
        if str(sc.get('src', '')).split(':')[0] in ('rand-del', 'fixed-del'): key += ' deleted-with-something-on-disk'
        if sc.get('filter') and sc.get('filter_config'):
            key += ' clean-filter-configuration'
            vals = [v for _, v in res.get('facts', {}).get('clean_values', [])]
            k2 = '(clean filter driver: %s)' % ('not configured' if not vals else 'one value' if len(vals) == 1 else
                                                '%s values, first %s last' % ('two' if len(vals) == 2 else 'three or more', '=' if vals[0] == vals[-1] else '!='))
            hist[k2] = hist.get(k2, 0) + 1
        if 'facts' in res and q['ref_b'] == 'WORKTREE':
            root_ = res['root']; onp = {p for p, _ in res['facts']['snapshot']}
            if any(e['status'].startswith('D') and e['b'].endswith(NB) and (root_ + '/' + e['b']) in onp for e in res['facts']['name_status']):
                hist['(entries git reports as deleted with a file at the path)'] = hist.get('(entries git reports as deleted with a file at the path)', 0) + 1
        hist[key] = hist.get(key, 0) + 1
        if 'facts' in res and any(e['a'].endswith(NB) or e['b'].endswith(NB) for e in res['facts']['name_status']):
            nontrivial.add(json.dumps(strip(sc), sort_keys=True))
        for sig, detail in judge(sc, res):
            case = strip(sc)
            known = any(f.get('status') == 'known' and f.get('signature') == sig for f in chk.findings)
            if not known and not sig.startswith('harness:') and sig not in shrunk and len(shrunk) < 3:
                shrunk.add(sig)
                try:
                    small = shrink_case(dict(case, exotic=sc.get('exotic')), sig)
                    again = [d for s2, d in judge(small, run_scenarios([small], shards=1)[0]) if s2 == sig]
                    if again: case, detail = strip(small), again[0]
                except Exception: pass
            chk.violation(sig, case, detail)
    # T1
    terms = []; t1 = 0; calls = {}
    for i, (sc, res) in enumerate(zip(cases, results)):
        if 'err' in res: continue
        ts = model_terms(sc, res)
        if ts is None: continue
        t1 += 1
        for lab, t, call in ts: terms.append(((i, lab), t)); calls[(i, lab)] = call
    mism = 0
    vo = os.path.join(core.COQ, 'Sys', 'GitRefs.vo')
    if not os.path.exists(vo) or src_facts_text() is None:
        chk.broken_obligation('model-build', 'Sys/GitRefs.vo or the generated facts missing: ' + str(_FACTS.get('err') or b.log or '')[-600:]); t1 = 0
    else:
        bad, err = run_model(terms)
        if bad is None:
            chk.broken_obligation('model-run', err); t1 = 0
        else:
            mism = len({i for i, _ in bad})
            tdict = dict(terms)
            for (i, lab) in sorted(bad)[:3]:
                chk.broken_obligation('correspondence:' + lab, {'scenario': strip(cases[i]), 'observed': results[i].get('obs'),
                                                                 'model': model_value(calls.get((i, lab))) or tdict[(i, lab)][:600]})
    chk.cov.update({
        'evaluations': len(cases), 'distinct_nontrivial': len(nontrivial),
        'rule': 'scenario = script of write/rm/mv/add/commit/tag operations run with the real git (1-4 commits, staged and unstaged changes, '
                'renames within and across the .ipynb suffix, nested directories, optional clean filter, optional decoy files above the repository) '
                '+ one query (ref pair of kind commit/commit, commit/index, commit/worktree, index/worktree; invocation directory; path filters; '
                'Python API or nbdiff command line); fixed witness scenarios first, then seeded random ones, then the absolute-filter family: the same '
                'random histories queried from a subdirectory (80%) or the root with 1-3 path filters of which at least one is an ABSOLUTE path '
                '(of a file that exists / was deleted / was never there, inside or outside the invocation directory; of a directory with or without '
                'trailing slash; of the repository root; sometimes with a redundant "." component; sometimes mixed with relative filters), all ref '
                'pair kinds, API and command line ("abspaths" in the histogram; judged by T2 against git asked the same question from the same '
                'directory, T1 covers only the ref-vs-path reading of the words for them); last the deleted-with-something-on-disk family: 13 fixed '
                'scenarios, then random histories in which 1-3 notebooks of the last commit are `git rm --cached` (file left, edited or not), or removed + '
                'removal staged + re-created untracked (same or new content), or replaced by a directory of the same name, or plainly deleted (control), '
                'queried commit/worktree (70%; HEAD or an older ref), index/worktree, commit/index, commit/commit, from the root / the victim\'s directory / '
                'an ancestor / elsewhere, with or without path filters, API and command line, sometimes with a clean filter or a decoy; the judge takes the '
                'null file for the remote side of every entry git reports as D; then the clean-filter-configuration family: 46 fixed scenarios (20 named '
                'shapes from the root and a subdirectory + 6 other queries), then random histories with 1-3 further unstaged notebook edits in a repository whose '
                '.gitattributes sets filter=nbv on *.ipynb / sub/*.ipynb / * and whose filter.nbv.clean is defined by a random sequence of 1-4 steps: place '
                '(repository config, global config, system config, a file pulled in by [include] from the repository or the global config, GIT_CONFIG_COUNT '
                'environment) x manner (`git config --add`, `--replace-all`, a further section, another letter case) x driver (four distinguishable commands, '
                'the same again, the empty command); queried commit/worktree (55%), index/worktree, commit/index, commit/commit, any directory, with or without '
                'path filters, API and command line; for them the expected working-tree side is the blob `git hash-object --path` makes of the file (what git '
                'itself cleans with the value in force, the last one it reads), cross-checked against the last listed value run by hand ("clean filter '
                'driver: ..." in the histogram counts the values git lists); non-trivial = git reports at least one '
                'changed notebook for the query, distinct by canonical JSON of the scenario',
        'input_distribution': hist, 'traces_validated_against_impl': t1, 'model_impl_mismatches': mism,
        'model_terms_evaluated': len(terms), 'exhaustive': False,
    })
    for sc in cases[:2] + cases[-2:]: chk.sample(strip(sc))
    return chk.finish('proof', ASSUME)


def replay(path):
    body = json.load(open(path))
    if body.get('kind') == 'broken-obligation':
        print(json.dumps(body['obligations'], indent=1, default=str)[:3000])
        scs = [o['detail']['scenario'] for o in body['obligations'] if isinstance(o.get('detail'), dict) and 'scenario' in o['detail']]
        if not scs: return 1
        sc = scs[0]
    else:
        sc = body['case']
    res = run_scenarios([sc], shards=1)[0]
    sigs = judge(sc, res)
    print(json.dumps({'signatures': [s for s, _ in sigs], 'detail': sigs[0][1] if sigs else None,
                      'observed': res.get('obs'), 'git_reports': res.get('facts', {}).get('name_status')}, indent=1, default=str)[:4000])
    ts = model_terms(sc, res) if 'err' not in res else None
    if ts:
        bad, err = run_model([((0, l), t) for l, t, _ in ts])
        print('model agrees with implementation:', (not bad) if bad is not None else err)
    known = {f.get('signature') for f in core.load_findings() if f.get('property') == PROP and f.get('status') == 'known'}
    for sg, _ in sigs:
        if sg in known: print('KNOWN-FINDING: property=%s %s' % (PROP, sg))
    if any(sg not in known for sg, _ in sigs):
        print('VIOLATION property=%s replay=%s' % (PROP, path)); return 1
    return 0
