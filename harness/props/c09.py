"""C09 -- merge decisions losslessly describe the merge and follow the published schema."""
import os, sys, json, copy
import core, pyspec, gennb
import c04_coq, c04_valcorr, c04_cases, c09_spec, c09_model, c09_cases
from props import c04 as c04mod

PROP = 'C09'
ASSUME = [
    'the published schema is nbdime/merge_format.schema.json (+ diff_format.schema.json it refers to), regenerated into coq/Gen/NbSchemas.v on every run; conformance means jsonschema.Draft4Validator, mirrored by the Coq validator (compared on every decision list)',
    '"choosing side s for every decision" = set every action to s and read an absent s_diff as the empty diff (how the web merge tool builds its panes)',
    'the choose-local / choose-remote clause is evaluated for the mergetool strategy (conflicts left open), the apply-equals-merged, schema, plain-JSON and ordering clauses for every strategy, as the property quantifies',
    'in addition the choose-local / choose-remote clause is evaluated where a strategy re-collects both sides\' diffs into one bundled decision per output (effective outputs strategy inline-outputs, remove, clear-all) on the triples made for it: one output with a conflicting and a separate one-sided change (the mechanism "strategy bundling re-collects local/remote diffs" of the property)',
    'merges that raise an exception are outside this property (C03) and are only counted',
]


# outputs strategies (after defaulting to the merge strategy) that replace every decision touching one output by a single one
BUNDLING_OUTPUT_STRATEGIES = ('inline', 'remove', 'clear-all')
DEFAULT_CLI = {'merge_strategy': 'inline', 'input_strategy': None, 'output_strategy': None, 'ignore_transients': True}


def eq(a, b): return pyspec.strict_eq(a, b)


def judge(ref, t, res):
    """-> list of (signature, detail)"""
    out = []
    decs = res['decisions']; merged = res['merged']; cfg = t['args']
    if not res.get('plain', False):
        out.append(('decisions-not-plain-json', {'error': res.get('plain_err')}))
    # schema
    if not ref.is_valid('merge', decs):
        enum = ref.merge['definitions']['decision']['properties']['action']['enum']
        bad = sorted(set(d.get('action') for d in decs if isinstance(d, dict) and d.get('action') not in enum), key=str)
        patched = [dict(d, action='custom') if isinstance(d, dict) and d.get('action') in bad else d for d in decs]
        if bad and ref.is_valid('merge', patched):
            for a in bad:
                out.append(('action-%s-not-in-schema-enum' % a, {'action': a, 'schema_enum': enum,
                            'decision': [d for d in decs if d.get('action') == a][0]}))
        else:
            errs = ref.errors('merge', decs, 3)
            where = errs[0].split(':')[0] if errs else ''
            where = '/'.join(p for p in where.split('/') if not p.isdigit())
            out.append(('decisions-not-schema-valid-at:' + where, {'errors': errs}))
    # ordering
    probs = c09_spec.order_problems(decs)
    if probs:
        i, j = probs[0]
        out.append(('decision-on-enclosing-path-precedes-deeper-decision', {'i': i, 'j': j, 'path_i': decs[i]['common_path'], 'path_j': decs[j]['common_path']}))
    # apply == merged (nbdime's applier and the independent one)
    a = res.get('applied', {})
    if 'err' in a: out.append(('nbdime-apply-raises:' + a['err'], {'msg': a.get('msg')}))
    elif not eq(a['ok'], merged): out.append(('nbdime-apply-differs-from-merged', {'applied': a['ok'], 'merged': merged}))
    # a key-relative action ('clear') sitting on a sequence has no reading in the documented diff format (sequences have no
    # `replace`); such decisions come from re-levelling (push_patch_decision keeps the action) -- own signature
    def on_list(d):
        try:
            obj = t['base']
            for k in c09_spec.split_path(t['base'], d.get('common_path') or [])[0]: obj = obj[k]
            return isinstance(obj, list)
        except Exception:
            return False
    clear_on_list = [d for d in decs if d.get('action') == 'clear' and on_list(d)]
    try:
        mine = c09_spec.apply_decisions(t['base'], decs)
        if not eq(mine, merged):
            if clear_on_list: out.append(('clear-decision-relevelled-onto-sequence', {'decision': clear_on_list[0]}))
            else: out.append(('independent-apply-differs-from-merged', {'applied': mine, 'merged': merged}))
    except Exception as e:
        if clear_on_list: out.append(('clear-decision-relevelled-onto-sequence', {'decision': clear_on_list[0], 'msg': str(e)[:200]}))
        else: out.append(('independent-apply-fails:' + type(e).__name__, {'msg': str(e)[:300]}))
    # choose a side (mergetool; and the tasks marked 'sides': one output carrying a conflicting and a one-sided change under a
    # strategy that bundles the decisions of an output, build_tasks)
    if cfg.get('merge_strategy') == 'mergetool' or t.get('sides'):
        for side in ('local', 'remote'):
            x = res.get('as_' + side, {})
            if 'err' in x: out.append(('choose-%s-raises:%s' % (side, x['err']), {'msg': x.get('msg')}))
            elif not eq(x['ok'], t[side]): out.append(('choose-%s-does-not-reproduce-%s' % (side, side), {'got': x['ok']}))
            try:
                mine = c09_spec.apply_decisions(t['base'], c09_spec.relabel(decs, side))
                if not eq(mine, t[side]): out.append(('independent-choose-%s-does-not-reproduce-%s' % (side, side), {'got': mine}))
            except Exception as e:
                out.append(('independent-choose-%s-fails:%s' % (side, type(e).__name__), {'msg': str(e)[:300]}))
    return out


def build_tasks(chk, tier, ref):
    r = chk.rng
    ntri = 140 if tier == 'quick' else 800
    triples = c04_cases.gen_triples(r, ntri, core.REPO, minors_mix=0.3)
    # triples whose minors differ on all three sides, including 4 -> 5 upgrades of one side
    for k in range(8 if tier == 'quick' else 40):
        b, l, rm = gennb.gen_triple(r, conflict_bias=0.5, minor=r.choice([0, 2, 4]), ncells=r.choice([0, 1, 2, 3]))
        b, l, rm = c04_cases.vary_minors(r, b, l, rm)
        triples.append(('minors%d%d%d' % (b['nbformat_minor'], l['nbformat_minor'], rm['nbformat_minor']), b, l, rm))
    # concurrent inserts at one position (identical / one run extending the other / unrelated) with a trailing removal by
    # nobody, local, remote or both, in every sequence of a notebook (c09_cases)
    triples += c09_cases.agreed_insert_triples(r, tier)
    good = []; skipped = 0
    for name, b, l, rm in triples:
        ks = [c04mod.declared_key(x) for x in (b, l, rm)]
        if all(ks) and all(ref.is_valid(k, x) for k, x in zip(ks, (b, l, rm))): good.append((name, b, l, rm))
        else: skipped += 1
    mt = [{'merge_strategy': 'mergetool', 'ignore_transients': True}, {'merge_strategy': 'mergetool', 'ignore_transients': False}]
    cli = c04_cases.cli_configs()
    tasks = []; meta = []
    for ti, (name, b, l, rm) in enumerate(good):
        cfgs = [mt[ti % 2]]
        if name.startswith(('hand:', 'corpus:')) or ':' in name: cfgs = [mt[0], mt[1]]      # both transient settings for the targeted families
        if name.startswith('agreedins:') and tier == 'quick': cfgs += [r.choice(cli)] if ti % 2 == 0 else []
        elif tier == 'quick': cfgs += [cli[0]] + [r.choice(cli) for _ in range(2)]
        else: cfgs += [mt[(ti + 1) % 2]] + [cli[(ti * 3 + j) % len(cli)] for j in range(3)] + [r.choice(cli)]
        for c in cfgs:
            tasks.append({'op': 'merge', 'base': b, 'local': l, 'remote': rm, 'args': c, 'c09': True}); meta.append((name, c))
    # one side deletes a mapping key / a cell / an output, the other side only makes transient edits to it (c09_cases, family 2);
    # generated after everything above so that the random streams of the earlier families are what they were
    for ti, (name, b, l, rm) in enumerate(c09_cases.transient_vs_delete_triples(r, tier)):
        ks = [c04mod.declared_key(x) for x in (b, l, rm)]
        if not (all(ks) and all(ref.is_valid(k, x) for k, x in zip(ks, (b, l, rm)))):
            skipped += 1; continue
        cfgs = [mt[0], mt[1]]
        if tier != 'quick': cfgs += [cli[(ti * 3 + j) % len(cli)] for j in range(2)] + [r.choice(cli)]
        elif ti % 2 == 0: cfgs += [r.choice(cli)]
        for c in cfgs:
            tasks.append({'op': 'merge', 'base': b, 'local': l, 'remote': rm, 'args': c, 'c09': True}); meta.append((name, c))
    # one output (or cell) carrying BOTH a conflicting change and a separate non-conflicting one-sided change (c09_cases, family
    # 3), under mergetool and under the strategies that replace all decisions of an output by one bundled decision (effective
    # outputs strategy inline / remove / clear-all, one configuration of each per triple): there the bundled decision has to
    # carry the one-sided edits as well, so the choose-a-side clause is judged for these tasks too ('sides'); generated last
    bundling = {}
    for c in cli: bundling.setdefault(c['output_strategy'] or c['merge_strategy'], []).append(c)
    for ti, (name, b, l, rm) in enumerate(c09_cases.mixed_change_triples(r, tier)):
        ks = [c04mod.declared_key(x) for x in (b, l, rm)]
        if not (all(ks) and all(ref.is_valid(k, x) for k, x in zip(ks, (b, l, rm)))):
            skipped += 1; continue
        for c in [mt[0], mt[1]]:
            tasks.append({'op': 'merge', 'base': b, 'local': l, 'remote': rm, 'args': c, 'c09': True}); meta.append((name, c))
        for eff in BUNDLING_OUTPUT_STRATEGIES:
            pool = bundling[eff]
            cfgs = [pool[(ti * 7) % len(pool)]] if tier == 'quick' else [pool[(ti * 7 + 3 * j) % len(pool)] for j in range(2)] + [r.choice(pool)]
            if eff == 'inline' and ti % 3 == 0: cfgs.append(DEFAULT_CLI)          # the command-line default
            for c in cfgs:
                tasks.append({'op': 'merge', 'base': b, 'local': l, 'remote': rm, 'args': c, 'c09': True, 'sides': True}); meta.append((name, c))
    return tasks, meta, skipped


def run(tier, seed):
    chk = core.Check(PROP, tier, seed)
    b = core.build()
    chk.proof_obligations('Props/C09.v', b)
    ref = c04_valcorr.Ref(core.REPO)
    # translator tie: emitted action vocabulary / schema enum, sort-key model against the implementation's ordering
    mc = c09_model.run(chk, tier)
    tasks, meta, skipped = build_tasks(chk, tier, ref)
    results = c04mod.run_tasks(tasks)
    hist = {}; nontrivial = set(); raised = {}; judged = 0; coq_cases = []; coq_expect = []
    mixed_stat = {'triples': 0, 'conflict_and_one_sided_in_one_output': 0}
    for t, (name, cfg), res in zip(tasks, meta, results):
        kind = ('mergetool' if cfg['merge_strategy'] == 'mergetool' else 'cli') + ':' + name.split(':')[0].split('@')[0].rstrip('0123456789')
        hist[kind] = hist.get(kind, 0) + 1
        if 'err' in res:
            raised[res['err']] = raised.get(res['err'], 0) + 1; continue
        judged += 1
        decs = res['decisions']
        if name.startswith('mixed:') and cfg['merge_strategy'] == 'mergetool':
            # did the triple get what it was made for: decisions with and without a conflict inside one output
            per = {}
            for d in decs:
                p = d.get('common_path') or []
                if len(p) >= 4 and p[0] == 'cells' and p[2] == 'outputs': per.setdefault((p[1], p[3]), set()).add(bool(d.get('conflict')))
            mixed_stat['triples'] += 1; mixed_stat['conflict_and_one_sided_in_one_output'] += any(len(v) == 2 for v in per.values())
        if len(decs) >= 2 or any(d.get('conflict') for d in decs):
            nontrivial.add(pyspec.canon([t['base'], t['local'], t['remote'], t['args']]))
        if len(coq_cases) < (500 if tier == 'quick' else 3000):
            coq_cases.append(('merge', decs)); coq_expect.append(ref.is_valid('merge', decs))
        for sig, detail in judge(ref, t, res):
            case = {k: t[k] for k in ('op', 'base', 'local', 'remote', 'args', 'c09', 'sides') if k in t}
            chk.violation(sig, case, dict(detail, triple=name, config=c04_cases.cfg_name(cfg)))
    # every observed action must be one the translator found in the sources (Gen/Actions.v py_emitted)
    emitted = c09_model.py_emitted()
    observed = sorted(set(d.get('action') for res in results if 'decisions' in res for d in res['decisions'] if isinstance(d.get('action'), str)))
    if emitted is None: chk.broken_obligation('translator:Gen/Actions.v', 'py_emitted not found')
    else:
        extra = [a for a in observed if a not in emitted]
        if extra: chk.broken_obligation('correspondence:action-vocabulary', {'observed_but_not_in_py_emitted': extra, 'py_emitted': emitted})
    mc['observed_actions'] = observed
    # the Coq validator on the implementation's decision lists
    t1 = 0; mism = 0
    try:
        verdicts = c04_coq.coq_validate(coq_cases)
        for (k, d), e, v in zip(coq_cases, coq_expect, verdicts):
            t1 += 1
            if v is not e:
                mism += 1
                if mism <= 3: chk.broken_obligation('correspondence:validator-on-decisions', {'decisions': d, 'jsonschema_valid': e, 'coq': v})
    except RuntimeError as e:
        chk.broken_obligation('correspondence:validator-run', str(e)[-800:])
    vc = c04_valcorr.run(chk, core.REPO, 600 if tier == 'quick' else 4000, 100 if tier == 'quick' else 500)
    chk.cov.update({
        'evaluations': judged, 'distinct_nontrivial': len(nontrivial),
        'rule': 'merge_notebooks on valid notebook triples (hand-made per conflict kind at every minor, fixture triples, gennb.gen_triple with forced conflicts, triples whose three minors are pairwise different, concurrent inserts at one position of each notebook sequence -- identical, extending, unrelated -- followed by a removal on no / one / both sides; deletion of a transient cell-metadata flag / a cell / an execute_result output on one side against transient-only edits of it on the other side -- every flag, either side deleting, several flags incl. crossed roles, unrelated one-sided edits next to it, equal / pairwise different / upgraded minors, non-transient controls; one output (stream / display_data / execute_result / error) carrying both a conflicting change -- line of its text rewritten by both, rewritten vs deleted, output-metadata key, evalue, or a source line of its cell -- and a separate one-sided change by local / remote / each side -- another line rewritten, inserted or deleted, the other mime type, output metadata, the result\'s execution_count, ename, the cell\'s source or metadata, control: a sibling output --, at every position among 1-3 outputs, distance 1-5 lines, all minor mixes, additionally under one configuration per bundling outputs strategy (inline-outputs, remove, clear-all) and the CLI default with the choose-a-side clause judged there too) under mergetool (both transient settings) and sampled CLI configurations; every clause of the property judged on the returned decisions with nbdime\'s applier and an independent applier (pyspec.spec_patch, grouping by path); non-trivial = at least two decisions or a conflict, distinct by canonical JSON of (triple, configuration)',
        'input_distribution': hist, 'mixed_change_family_(mergetool_runs)': mixed_stat, 'merges_that_raised_(C03)': raised, 'invalid_input_triples_skipped': skipped,
        'traces_validated_against_impl': t1 + vc.get('validator_cases', 0) + mc.get('sortkey_cases', 0),
        'validator_on_decision_lists': t1, 'validator_on_decisions_mismatches': mism,
        'validator_correspondence': vc, 'model_correspondence': mc, 'exhaustive': False,
    })
    for t in tasks[:1] + tasks[len(tasks) // 2: len(tasks) // 2 + 1]:
        chk.sample({'args': t['args'], 'base': t['base'], 'local': t['local'], 'remote': t['remote']}, limit=3)
    return chk.finish('proof', ASSUME)


def replay(path):
    body = json.load(open(path))
    if body.get('kind') != 'failing-input':
        print(json.dumps(body, indent=1)[:3000]); return 1
    case = body['case']
    ref = c04_valcorr.Ref(core.REPO)
    res = c04mod.run_tasks([case])[0]
    if 'err' in res:
        print(json.dumps(res, indent=1)[:2000]); return 0
    found = judge(ref, case, res)
    print(json.dumps({'signatures': [s for s, _ in found], 'details': [d for _, d in found], 'decisions': res['decisions']}, indent=1, default=str)[:5000])
    if found:
        print('VIOLATION property=%s replay=%s' % (PROP, path)); return 1
    return 0
