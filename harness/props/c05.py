"""C05 -- merge obeys identity, one-sided adoption, agreement and side symmetry."""
import os, sys, json, copy, itertools
import core, genjson, gennb, pyspec, wire
import c05_merge as M

PROP = 'C05'

def jtask(b, l, r, strategies=None):
    t = {'op': 'merge_json', 'base': b, 'local': l, 'remote': r}
    if strategies: t['strategies'] = strategies
    return t

def ntask(b, l, r, args):
    return {'op': 'merge_nb', 'base': b, 'local': l, 'remote': r, 'args': args}

def law_items(b, x, src, mk):
    """the four laws for one (base, X); identity only once per base (when x is base)"""
    if x is None:
        return [{'judge': 'law', 'kind': 'id', 'tasks': [mk(b, b, b)], 'expected': b, 'src': src}]
    return [{'judge': 'law', 'kind': 'left', 'tasks': [mk(b, x, b)], 'expected': x, 'src': src},
            {'judge': 'law', 'kind': 'right', 'tasks': [mk(b, b, x)], 'expected': x, 'src': src},
            {'judge': 'law', 'kind': 'agree', 'tasks': [mk(b, x, x)], 'expected': x, 'src': src}]

def sym_item(b, l, r, src, mk):
    return {'judge': 'sym', 'kind': 'sym', 'tasks': [mk(b, l, r), mk(b, r, l)], 'src': src}

def nb_arg_sets(chk, cli, tier):
    """every merge strategy accepted by the CLI, alone; plus input/output overrides (all of them in thorough)"""
    sets = [{'merge_strategy': ms} for ms in cli['merge']]
    combos = [{'merge_strategy': ms, 'input_strategy': i, 'output_strategy': o}
              for ms in cli['merge'] for i in [None] + cli['input'] for o in [None] + cli['output']]
    for c in combos: c['ignore_transients'] = True
    extra = [dict(c, ignore_transients=False) for c in combos]
    return sets, combos + extra

# ---------------------------------------------------------------------------------------------------------------
# Both sides change the SAME leaf to different values and a strategy settles it without reporting a conflict.
# The settling strategies that treat the sides alike (take-max, clear, use-base) must give the same merged document
# in both role orders; the one-sided / agreement arms never reach them, so only two-sided triples exercise them.
SYMMETRIC_LEAF_STRATEGIES = ('take-max', 'clear', 'use-base')

def autoresolve_json_items(r, quick):
    """generic JSON: every (base, local, remote) value triple over a small integer range at a leaf governed by a
    side-symmetric auto-resolving strategy; the leaf sits in the root object or one / two objects below it;
    variants where each side additionally changes a key of its own (one-sided changes next to the settled one)"""
    out = []
    vals = [0, 1, 2, 3]
    shapes = [
        ('/v',   lambda v, e: dict({'v': v, 'k': 'keep'}, **e)),
        ('/w/v', lambda v, e: {'w': dict({'v': v}, **e), 'k': 'keep'}),
        ('/a/b/v', lambda v, e: {'a': {'b': dict({'v': v}, **e), 'v': 7}, 'v': 9}),
    ]
    for strat in SYMMETRIC_LEAF_STRATEGIES:
        for path, mk in shapes:
            st = {'table': {path: strat}, 'transients': []}
            T = (lambda st: lambda b_, l_, r_: jtask(b_, l_, r_, st))(st)
            for b in vals:
                for l in vals:
                    for x in vals:
                        own = r.random() < 0.4
                        # each side may also touch a key of its own (disjoint from the other side's)
                        el = {'p': 'base'}; er = {'p': 'base'}; eb = {'p': 'base'}
                        if own: el = {'p': 'local-edit'}
                        item = sym_item(mk(b, eb), mk(l, el), mk(x, er), 'autoresolve-json-sym', T)
                        out.append(item)
                        if own:
                            eb2 = {'p': 'base', 'q': 'base'}
                            out.append(sym_item(mk(b, eb2), mk(l, {'p': 'local-edit', 'q': 'base'}),
                                                mk(x, {'p': 'base', 'q': 'remote-edit'}), 'autoresolve-json-sym', T))
    return out

def union_line_items(r, quick):
    """a multi-line string whose lines the two sides edit IN PLACE (each side one line, different lines -- every ordered
    pair of line numbers, line 0 included), governed by the side-symmetric settling strategy 'union' (whole-diff
    local-then-remote, one decision carrying a patch of line i and a patch of line j): same verdict and same merged text in
    both role orders; the string sits at the root object, one level down, or in a list item"""
    out = []
    n = 4
    lines = ['alpha line %d of the text\n' % i for i in range(n)]
    text = ''.join(lines)
    def edit(i, w): ls = list(lines); ls[i] = ls[i].rstrip('\n') + ' ' + w + '\n'; return ''.join(ls)
    shapes = [('/s', lambda t: {'s': t, 'k': 1}), ('/w/s', lambda t: {'w': {'s': t}, 'k': 1}), ('/l/*/s', lambda t: {'l': [{'s': t}]})]
    for path, mk in shapes:
        st = {'table': {path: 'union'}, 'transients': []}
        T = (lambda st: lambda b_, l_, r_: jtask(b_, l_, r_, st))(st)
        for i in range(n):
            for j in range(n):
                if i == j: continue
                out.append(sym_item(mk(text), mk(edit(i, 'mine')), mk(edit(j, 'theirs')), 'union-lines-sym', T))
    return out

def digit_key_items(r, quick):
    """objects whose keys LOOK like integers ('1', '2016', '-3', '+7', '007') next to ordinary keys, with changes below both
    kinds of key in one merge (decision paths through both are then ordered against each other by _sort_key, which turns
    digit-like strings into numbers): the four laws and symmetry on generic documents, and notebooks whose metadata has
    such keys (years, version numbers, widget ids)"""
    out = []
    J = lambda b, l, rr: jtask(b, l, rr)
    dkeys = ['1', '2016', '-3', '+7', '007', '10']
    okeys = ['a', 'kernelspec', 'z']
    def doc(vals):
        return {k: ({'v': v, 'w': [v]} if i % 2 == 0 else [v, {'u': v}]) for i, (k, v) in enumerate(vals.items())}
    for dk in dkeys:
        for ok in okeys:
            for dk2 in (None, r.choice([x for x in dkeys if x != dk])):
                keys = [dk, ok] + ([dk2] if dk2 else [])
                base = doc({k: 0 for k in keys})
                x = doc({k: 1 for k in keys})                          # changes below every key
                y = doc({k: (2 if k == ok else 0) for k in keys})      # change below the ordinary key only
                z = doc({k: (3 if k == dk else 0) for k in keys})      # change below the digit-like key only
                out += law_items(base, x, 'digit-keys', J)
                out.append(sym_item(base, y, z, 'digit-keys-sym', J))
                out.append(sym_item({'m': base, 'n': 1}, {'m': y, 'n': 1}, {'m': z, 'n': 1}, 'digit-keys-sym', J))
    N = lambda b_, l_, r_: ntask(b_, l_, r_, None)
    for k in range(6 if quick else 40):
        nb = gennb.gen_notebook(r, rich=False)
        dk, ok = r.choice(dkeys), r.choice(['kernelspec_note', 'author', 'zeta'])
        nb['metadata'][dk] = {'released': 'no', 'n': [1, 2]}; nb['metadata'][ok] = {'name': 'x', 'tags': ['t']}
        l = copy.deepcopy(nb); x = copy.deepcopy(nb)
        l['metadata'][dk]['released'] = 'yes'; x['metadata'][ok]['name'] = 'y'
        both = copy.deepcopy(l); both['metadata'][ok]['name'] = 'y'
        out.append(sym_item(nb, l, x, 'digit-keys-nb-sym', N))
        out += law_items(nb, both, 'digit-keys-nb-law', N)
    return out

def _strip_ids(nb):
    for c in nb['cells']: c.pop('id', None)

def minor_triple(r, bm, lm, xm, rich):
    """(base, local, remote) valid notebooks saved with minor versions bm, lm, xm (0..5): the cells come from one
    generated triple (no edits / each side edits cells of its own / independent random edit scripts); cell ids are
    present exactly in the notebooks whose minor is 5 (the same base cell keeps the same id on both sides, or, when both
    sides upgraded independently from an id-less base, sometimes fresh ids on each side)"""
    g = 5 if 5 in (bm, lm, xm) else 4
    for _try in range(8):
        c = r.random()
        if c < 0.25:
            base = gennb.gen_notebook(r, minor=g, ncells=r.choice([0, 1, 2, 3]), rich=rich)
            local, remote = copy.deepcopy(base), copy.deepcopy(base); how = 'minor-only'
        elif c < 0.65:
            base, local, remote, _ = gennb.gen_disjoint_triple(r, minor=g, rich=rich, p_insert=0.0)
            how = 'own-cells'
        else:
            base, local, remote = gennb.gen_triple(r, conflict_bias=0.3, minor=g, rich=rich)
            how = 'random-edits'
        base, local, remote = copy.deepcopy(base), copy.deepcopy(local), copy.deepcopy(remote)
        if g == 5 and bm < 5 and lm == 5 and xm == 5 and r.random() < 0.3:
            used = gennb.used_ids(base, local, remote)      # two independent upgrades: unrelated ids
            for cell in remote['cells']: cell['id'] = gennb.gen_id(r, used)
            how += '+independent-ids'
        for nb, m in ((base, bm), (local, lm), (remote, xm)):
            nb['nbformat_minor'] = m
            if m < 5: _strip_ids(nb)
        if not (gennb.validate(base) or gennb.validate(local) or gennb.validate(remote)):
            return base, local, remote, how
        rich = False
    return None

def minor_items(r, quick):
    """notebooks: the whole cube of (base, local, remote) minor versions 0..5 -- /nbformat_minor is settled by take-max
    in every notebook merge -- with the four laws for X = local (X differs from base at least in the minor version)"""
    out = []; dropped = 0
    N = lambda b_, l_, r_: ntask(b_, l_, r_, None)
    U = lambda b_, l_, r_: ntask(b_, l_, r_, {'merge_strategy': 'use-base'})
    minors = range(6)
    for rnd in range(1 if quick else 6):
        for bm in minors:
            for lm in minors:
                for xm in minors:
                    t = minor_triple(r, bm, lm, xm, rich=r.random() < 0.5)
                    if t is None: dropped += 1; continue
                    b, l, x, how = t
                    src = 'nb-minor-sym'
                    out.append(sym_item(b, l, x, src, N))
                    if r.random() < (0.25 if quick else 0.5): out.append(sym_item(b, l, x, src, U))
                    if lm != bm and (xm == bm or not quick):
                        out += law_items(b, l, 'nb-minor-law', N)
    return out, dropped

def gen_items(chk, tier, cli):
    r = chk.rng
    items = []
    quick = tier == 'quick'
    # corpus of minimised failures first
    cdir = os.path.join(core.VERIF, 'corpus', PROP)
    if os.path.isdir(cdir):
        for f in sorted(os.listdir(cdir)):
            it = json.load(open(os.path.join(cdir, f))); it['src'] = 'corpus:' + f; items.append(it)
    J = lambda b, l, rr: jtask(b, l, rr)
    # --- exhaustive small scope, generic JSON: laws on all pairs
    groups = [('exh-list', M.small_lists(3)), ('exh-str', M.small_strings(3)), ('exh-obj', M.small_objects()),
              ('exh-nested', M.nested_small())]
    for name, docs in groups:
        for b in docs:
            items += law_items(b, None, name, J)
            for x in docs:
                if type(x) is type(b) and not pyspec.strict_eq(x, b): items += law_items(b, x, name, J)
    # --- exhaustive small scope: symmetry on all triples
    n = 2 if quick else 3
    tl = M.small_lists(n); ts = M.small_strings(2); to = [o for o in M.small_objects() if 'z' not in o]
    trip = [(b, l, x) for docs in (tl, ts, to) for b in docs for l in docs for x in docs]
    if not quick and len(trip) > 40000:
        head = [t for t in trip if len(t[0]) <= 2 and len(t[1]) <= 2 and len(t[2]) <= 2] if False else []
        r.shuffle(trip); trip = trip[:40000]
    for b, l, x in trip: items.append(sym_item(b, l, x, 'exh-sym', J))
    # values equal under Python == but different JSON values (0/False, 1/True/1.0) on the two sides
    ro = [dict(([('x', vx)] if vx is not None else []) + ([('y', vy)] if vy is not None else []))
          for vx in [None, 0, 1, True, 1.0] for vy in [None, 0, 1]]
    for b in ro:
        for l in ro:
            for x in ro: items.append(sym_item(b, l, x, 'exh-retype-sym', J))
    # same-position inserts of longer runs (excluded from the symmetry judgement, but part of T1)
    t3 = M.small_lists(3)
    for _ in range(1500 if quick else 0):
        items.append(sym_item(r.choice(t3), r.choice(t3), r.choice(t3), 'rand-sym-list3', J))
    # one side removes a key, the other edits only a transient leaf below it (needs a transients table)
    for _ in range(200 if quick else 2000):
        inner = {k: r.choice([1, 2, 'v', True]) for k in r.sample(['collapsed', 'scrolled', 'k', 'name'], r.choice([2, 3]))}
        key = r.choice(['m', 'meta', 'a'])
        base = {key: inner, 'other': r.choice([1, 'x'])}
        removed = {k: v for k, v in base.items() if k != key}
        leaf = r.choice(sorted(inner))
        edited = copy.deepcopy(base); edited[key][leaf] = ['changed', inner[leaf]]
        if r.random() < 0.3:
            leaf2 = r.choice(sorted(inner)); edited[key][leaf2] = ['changed', inner[leaf2]]
        trans = ['/%s/%s' % (key, l) for l in sorted(inner) if l in ('collapsed', 'scrolled') or r.random() < 0.3]
        st = {'table': {}, 'transients': trans}
        T = (lambda st: lambda b_, l_, r_: jtask(b_, l_, r_, st))(st)
        items.append(sym_item(base, removed, edited, 'transient-sym', T))
        wrapped = [base, 0]
        items.append(sym_item(wrapped, [removed, 0], [edited, 0], 'transient-sym', T) if False else
                     sym_item({'w': base}, {'w': removed}, {'w': edited}, 'transient-sym',
                              (lambda st2: lambda b_, l_, r_: jtask(b_, l_, r_, st2))({'table': {}, 'transients': ['/w' + t for t in trans]})))
    # --- random generic JSON
    for _ in range(400 if quick else 4000):
        b = genjson.gen_container(r, depth=r.choice([2, 3, 3, 4]))
        x = genjson.mutate(r, b, 3)
        items += law_items(b, None, 'rand-json', J) + law_items(b, x, 'rand-json', J)
    for _ in range(600 if quick else 6000):
        b = genjson.gen_container(r, depth=r.choice([2, 3, 3, 4]))
        items.append(sym_item(b, genjson.mutate(r, b, 3), genjson.mutate(r, b, 3), 'rand-json-sym', J))
    # --- notebooks: the four laws under every CLI strategy
    base_sets, combos = nb_arg_sets(chk, cli, tier)
    for k in range(40 if quick else 300):
        a, b = gennb.gen_pair(r, rich=(k % 3 != 0))
        argsets = list(base_sets) + [r.choice(combos) for _ in range(3 if quick else 12)]
        for args in argsets:
            N = (lambda args: lambda b_, l_, r_: ntask(b_, l_, r_, args))(args)
            items += law_items(a, None, 'nb-law', N) + law_items(a, b, 'nb-law', N)
    if not quick:      # every combination of the three CLI options on a few pairs
        for k in range(6):
            a, b = gennb.gen_pair(r, rich=False)
            for args in combos:
                N = (lambda args: lambda b_, l_, r_: ntask(b_, l_, r_, args))(args)
                items += law_items(a, b, 'nb-law-allcombos', N)
    # --- notebooks: symmetry (default strategy = inline, and use-base: both treat the sides alike)
    sym_args = [None, {'merge_strategy': 'use-base'}] if 'use-base' in cli['merge'] else [None]
    for k in range(120 if quick else 1500):
        b, l, x = gennb.gen_triple(r, rich=(k % 3 != 0))
        for args in sym_args:
            N = (lambda args: lambda b_, l_, r_: ntask(b_, l_, r_, args))(args)
            items.append(sym_item(b, l, x, 'nb-sym', N))
    small = list(gennb.small_notebooks(1))
    for _ in range(500 if quick else 8000):
        b, l, x = r.choice(small), r.choice(small), r.choice(small)
        items.append(sym_item(b, l, x, 'nb-small-sym', lambda b_, l_, r_: ntask(b_, l_, r_, None)))
    # --- two-sided changes of one leaf settled by a side-symmetric strategy (drawn last: the streams above are unchanged)
    items += autoresolve_json_items(r, quick)
    mi, dropped = minor_items(r, quick)
    items += mi
    chk.cov['minor_triples_dropped_invalid'] = dropped
    items += union_line_items(r, quick)
    items += digit_key_items(r, quick)
    return items

def judge_item(it, results):
    if it['judge'] == 'law':
        sig, detail = M.judge_law(it['kind'], it['tasks'][0]['base'], it['expected'], results[0])
        return sig, detail, None
    return M.judge_symmetry(results[0], results[1])

def case_of(it):
    c = {'judge': it['judge'], 'kind': it['kind'], 'tasks': it['tasks'], 'src': it.get('src')}
    if 'expected' in it: c['expected'] = it['expected']
    return c

def nontrivial_key(it, results):
    """distinct non-trivial: at least one side has a non-empty diff; distinct by canonical JSON of the task inputs"""
    for x in results:
        if isinstance(x, dict) and (x.get('ld') or x.get('rd')):
            t = it['tasks'][0]
            return pyspec.canon([it['kind'], t['base'], t['local'], t['remote'], t.get('args'), t.get('strategies')])
    return None

def minimise(it, sig):
    """cheap shrinking for generic-JSON law cases"""
    t = it['tasks'][0]
    if it['judge'] != 'law' or t['op'] != 'merge_json' or it['kind'] == 'id': return it
    b, x = t['base'], it['expected']
    def build(b_, x_):
        return law_items(b_, x_, it.get('src'), lambda p, q, s: jtask(p, q, s))[{'left': 0, 'right': 1, 'agree': 2}[it['kind']]]
    def fails(c):
        cand = build(c[0], c[1])
        res = M.run_impl(cand['tasks'], shards=1)
        return judge_item(cand, res)[0] == sig
    try:
        b2, x2 = M.shrink_json_pair(b, x, fails, budget=25)
        return build(b2, x2)
    except Exception:
        return it

def run(tier, seed):
    chk = core.Check(PROP, tier, seed)
    b = M.build_and_snapshot(chk)
    chk.proof_obligations('Props/C05.v', b)
    cli = M.cli_strategies()
    items = gen_items(chk, tier, cli)
    tasks = [t for it in items for t in it['tasks']]
    results = M.run_impl(tasks)
    # --- the property itself, judged on the implementation's results
    pos = 0; hist = {}; nontriv = set(); excluded = {}; shrunk = set(); diff_fail = 0
    for it in items:
        res = results[pos:pos + len(it['tasks'])]; pos += len(it['tasks'])
        hist[it['src'] + ':' + it['kind']] = hist.get(it['src'] + ':' + it['kind'], 0) + 1
        k = nontrivial_key(it, res)
        if k: nontriv.add(k)
        if any(M.diff_failed(x) for x in res): diff_fail += 1
        sig, detail, excl = judge_item(it, res)
        if excl: excluded[excl] = excluded.get(excl, 0) + 1
        if sig:
            rep = it
            if sig not in shrunk and not any(f.get('signature') == sig and f.get('status') == 'known' for f in chk.findings):
                shrunk.add(sig); rep = minimise(it, sig)
            chk.violation(sig, case_of(rep), detail)
    # --- T1: model = implementation (decisions and merged documents), on every task of the run
    # (round-robin over the case families, so that the per-tier line budget never starves one of them)
    fam = [it['src'] for it in items for _ in it['tasks']]
    seen = {}; rank = []
    for f in fam:
        seen[f] = seen.get(f, 0) + 1; rank.append(seen[f])
    order = sorted(range(len(tasks)), key=lambda i: (rank[i], fam[i]))
    st = M.t1(chk, [tasks[i] for i in order], [results[i] for i in order], b, limit=(30000 if tier == 'quick' else 150000))
    chk.cov.update({
        'evaluations': len(tasks), 'distinct_nontrivial': len(nontriv),
        'rule': 'merges judged against the four laws (expected result known: base or X) and side symmetry (two merges per triple); '
                'cases: exhaustive pairs/triples of lists (len<=3 / <=2), multi-line strings, objects over a 3-symbol alphabet, '
                'small nested documents, random generic JSON edits, generated notebooks under every CLI merge strategy plus '
                'input/output strategy overrides; two-sided changes of one leaf settled by a side-symmetric strategy '
                '(take-max / clear / use-base): all integer triples 0..3 at three depths, and notebooks over the whole cube of '
                '(base, local, remote) nbformat_minor 0..5 with and without cell edits; non-trivial = at least one side has a non-empty diff, distinct by canonical JSON of '
                '(law, base, local, remote, strategy arguments)',
        'input_distribution': hist, 'traces_validated_against_impl': st['validated'], 'model_impl_mismatches': st['mismatches'],
        'outside_model_hook_reached': st['outside_model'], 'oracle_misses': st['oracle_misses'], 'model_lines': st['lines'],
        'symmetry_excluded': excluded, 'differ_failed_before_merge': diff_fail, 'cli_strategies': cli, 'exhaustive': False,
    })
    for it in items[:1] + items[len(items) // 2: len(items) // 2 + 1] + items[-1:]:
        chk.sample({'kind': it['kind'], 'src': it['src'], 'task': {k: v for k, v in it['tasks'][0].items()}}, limit=4)
    M.drop_snapshot()
    return chk.finish('proof', M.ASSUME)

def replay(path):
    body = json.load(open(path))
    if body.get('kind') == 'broken-obligation':
        print(json.dumps(body['obligations'], indent=1, default=str)[:4000]); return 1
    it = body['case']
    res = M.run_impl(it['tasks'], shards=1)
    sig, detail, excl = judge_item(it, res)
    print(json.dumps({'signature': sig, 'excluded': excl, 'detail': detail}, indent=1, default=str)[:4000])
    if sig:
        print('VIOLATION property=%s replay=%s' % (PROP, path)); return 1
    return 0
