"""C19 -- option resolution follows flag > most specific config section > default.

Proof side : coq/Props/C19.v (theorems about the Gallina model coq/Sys/Config.v instantiated with the tables that
             tools/gen/gen_configclasses.py regenerates from /repo on every run).
T1         : the model (build_config with and without include_none, the parser namespace, the installed Ignore map) is
             evaluated by vm_compute under coqc on the very cases the real nbdime was run on; exact comparison of
             canonical forms.
T2         : an oracle written from docs/source/config.rst and the property statement (no nbdime code, no Coq) judges
             every result of the real code; discrepancies are re-run in a fresh interpreter, shrunk and reported with a
             signature computed from the minimal case.
"""
import os, sys, json, re, subprocess, tempfile, shutil, copy, itertools, time
from concurrent.futures import ThreadPoolExecutor
import core

PROP = 'C19'
RUNNER = 'c19_runner.py'
ROLES = ['cwd', 'envpath', 'user', 'system']          # descending priority, as documented
EXPECTED_ORDER = ['cwd', 'envpath', 'user', 'env', 'system']
# the property statement: own section, then git-specific, diff or merge, web-tool, web, global
SPECIFICITY = ['GitDiff', 'GitMerge', 'Diff', 'Merge', 'WebTool', 'Web', 'Global']
# the documented entry points and the section named after each (docs/source/config.rst, `nbdime --config` listing)
EP_CLASS = {'nbdiff': 'NbDiff', 'nbdiff-web': 'NbDiffWeb', 'nbmerge': 'NbMerge', 'nbmerge-web': 'NbMergeWeb',
            'nbshow': 'NbShow', 'server': 'Server', 'extension': 'Extension', 'git-nbdiffdriver': 'NbDiffDriver',
            'git-nbdifftool': 'NbDiffTool', 'git-nbmergedriver': 'NbMergeDriver', 'git-nbmergetool': 'NbMergeTool'}
NO_PARSER = {'extension'}

ASSUME = [
    'jupyter_core.paths.jupyter_config_path() lists $JUPYTER_CONFIG_PATH, then $JUPYTER_CONFIG_DIR, then the environment and system directories (observed order checked on every case)',
    'traitlets JSONFileConfigLoader returns the parsed JSON object of <dir>/nbdime_config.json as a dict (nested dicts are dict subclasses)',
    'argparse: set_defaults values override add_argument defaults and are overridden by options present on the command line; sub-parser namespaces are copied over the parent namespace',
    'the entry point name is taken from argv[0] (console scripts); `python -m nbdime <sub>` aliases are outside the quantifier',
    'input space of the theorems: files are JSON objects {section: {option: non-dict value | null, "Ignore": {path: non-dict value | null}}} over documented/entry-point sections and the options those sections have',
]

# ------------------------------------------------------------------ documented tables (independent of nbdime and of Gen)
def documented_sections():
    txt = open(os.path.join(core.REPO, 'docs', 'source', 'config.rst')).read()
    i = txt.index('\nSections\n'); j = txt.index('.. note::', i)
    buf = {}; cur = None
    for line in txt[i:j].splitlines():
        if re.match(r'^[A-Z]\w*$', line): cur = line; buf[cur] = ''
        elif cur and line[:1] in (' ', '\t'): buf[cur] += ' ' + line.strip()
    out = {}
    for name, body in buf.items():
        if not body.strip(): continue
        m = re.search(r'\(([^)]*)\)', body)
        if m: out[name] = [x.strip() for x in m.group(1).split(',') if x.strip()]
        elif 'all commands' in body: out[name] = sorted(EP_CLASS.values())
        else: raise ValueError('cannot read documented entry points of section %s' % name)
    return out

class Spec:
    def __init__(self, docs): self.docs = docs
    def sections(self, ep):
        c = EP_CLASS[ep]
        return [c] + [s for s in SPECIFICITY if c in self.docs.get(s, [])]

def ordered_files(case):
    """The files of a case, highest priority first.  Ordinarily the working directory is a directory of its own (role
    'cwd').  With case['cwd_at'] = <role> the program is started FROM that Jupyter configuration directory: its file is
    then the working-directory file (first), and it is listed a second time at its Jupyter rank (where it can no longer
    change anything: every assignment in it has already been decided by the first occurrence)."""
    files = case['files']; at = case.get('cwd_at')
    if at is None: return [files[r] for r in ROLES if r in files]
    return [files[r] for r in [at] + ROLES[1:] if r in files]

def expected_order(case):
    at = case.get('cwd_at')
    return EXPECTED_ORDER if at is None else [at] + EXPECTED_ORDER[1:]

def body_of(case):
    b = {'ep': case['ep'], 'files': case['files'], 'flags': case.get('flags', {})}
    if case.get('cwd_at'): b['cwd_at'] = case['cwd_at']
    return b

def sec_value(files, sec, o):
    """('set', v) from the highest-priority file mentioning sec.o (null = unset -> None)"""
    for f in files:
        s = f.get(sec) if isinstance(f, dict) else None
        if isinstance(s, dict) and o in s:
            return None if s[o] is None else ('set', s[o])
    return None

def path_value(files, sec, p):
    for f in files:
        s = f.get(sec) if isinstance(f, dict) else None
        ign = s.get('Ignore') if isinstance(s, dict) else None
        if isinstance(ign, dict) and p in ign:
            return None if ign[p] is None else ('set', ign[p])
    return None

def spec_option(spec, ep, files, flags, o, default):
    if o in flags: return flags[o]
    for s in spec.sections(ep):
        r = sec_value(files, s, o)
        if r: return r[1]
    return default

def spec_ignore(spec, ep, files):
    paths = []
    for f in files:
        for s in spec.sections(ep):
            ign = f.get(s, {}).get('Ignore') if isinstance(f.get(s), dict) else None
            if isinstance(ign, dict): paths += [p for p in ign if p not in paths]
    out = {}
    for p in paths:
        for s in spec.sections(ep):
            r = path_value(files, s, p)
            if r: out[p] = r[1]; break
    return out

MISSING = '<absent>'
def canon(v): return json.dumps(v, sort_keys=True)

def judge(spec, case, res, base):
    """All discrepancies between the real code's result and the documented rule: [(kind, option/path, got, want)]"""
    ep = case['ep']; files = ordered_files(case); flags = case.get('flags', {})
    out = []
    if res.get('order') != expected_order(case):
        out.append(('search-order', '-', res.get('order'), expected_order(case)))
    cfg = res.get('cfg', {})
    if 'ok' not in cfg:
        return out + [('build_config-raises', '-', cfg.get('err'), None)]
    cfg = cfg['ok']; bcfg = base['cfg']
    assigned = set()
    for f in files:
        for s in spec.sections(ep):
            if isinstance(f.get(s), dict): assigned |= set(f[s])
    for o in sorted((set(cfg) | set(bcfg) | assigned) - {'Ignore'}):
        want = spec_option(spec, ep, files, {}, o, bcfg.get(o, MISSING))
        got = cfg.get(o, MISSING)
        if canon(got) != canon(want): out.append(('cfg-option', o, got, want))
    want_ign = spec_ignore(spec, ep, files)
    if canon(cfg.get('Ignore', {})) != canon(want_ign):
        out.append(('cfg-ignore', 'Ignore', cfg.get('Ignore', {}), want_ign))
    if ep in NO_PARSER: return out
    pr = res.get('parser', {})
    if 'ns' not in pr:
        return out + [('parser-fails', '-', pr.get('err'), pr.get('msg'))]
    ns = pr['ns']; bns = base['ns']
    for o in sorted((set(bns) | assigned | set(flags)) - {'Ignore', 'config'}):
        want = spec_option(spec, ep, files, flags, o, bns.get(o, MISSING))
        got = ns.get(o, MISSING)
        if canon(got) != canon(want): out.append(('option', o, got, want))
    if canon(pr.get('ignore') or {}) != canon(want_ign):
        out.append(('ignore', 'Ignore', pr.get('ignore') or {}, want_ign))
    return out

# ------------------------------------------------------------------ flags
STRATS = ['inline', 'use-base', 'use-local', 'use-remote']
BOOL_IGN = ['sources', 'outputs', 'attachments', 'metadata', 'id', 'details']
# --log-level lives on the top-level parser only for the two git drivers (their sub-parsers do not repeat it)
PRE_LOG = {'git-nbdiffdriver', 'git-nbmergedriver'}
def flag_argv(ep, o, v):
    """(pre, argv) realising dest o = v on the command line"""
    if o == 'log_level': return (['--log-level', v], []) if ep in PRE_LOG else ([], ['--log-level', v])
    if o in BOOL_IGN: return [], [('--' if v else '--ignore-') + o]
    if o == 'port': return [], ['--port', str(v)]
    if o in ('browser', 'ip', 'workdirectory'): return [], ['--' + o, v]
    if o == 'base_url': return [], ['--base-url', v]
    if o == 'persist': return [], ['--persist']
    if o == 'color_words': return [], ['--color-words']
    if o in ('merge_strategy', 'input_strategy', 'output_strategy'): return [], ['--' + o.replace('_', '-'), v]
    if o == 'ignore_transients': return [], ['--no-ignore-transients']
    if o == 'show_base': return [], ['--no-base']
    raise KeyError(o)

def flag_value(r, o):
    if o == 'log_level': return r.choice(['DEBUG', 'WARN', 'ERROR', 'CRITICAL'])
    if o in BOOL_IGN: return r.choice([True, False])
    if o == 'port': return r.choice([1, 8081, 40000])
    if o == 'browser': return r.choice(['lynx', 'w3m'])
    if o == 'ip': return r.choice(['10.0.0.1', '0.0.0.0'])
    if o == 'workdirectory': return r.choice(['/flag/wd', '/opt'])
    if o == 'base_url': return r.choice(['/flag/', '/f'])
    if o in ('persist', 'color_words'): return True
    if o == 'merge_strategy': return r.choice(STRATS)
    if o == 'input_strategy': return r.choice(STRATS)
    if o == 'output_strategy': return r.choice(STRATS + ['remove', 'clear-all'])
    if o in ('ignore_transients', 'show_base'): return False
    raise KeyError(o)

def file_value(r, o):
    if o == 'log_level': return r.choice(['DEBUG', 'INFO', 'WARN', 'ERROR', 'CRITICAL'])
    if o in BOOL_IGN or o in ('persist', 'color_words', 'ignore_transients', 'show_base'): return r.choice([True, False])
    if o == 'port': return r.choice([0, 1, 8080, 9000, 65535])
    if o == 'browser': return r.choice(['firefox', 'chrome', ''])
    if o == 'ip': return r.choice(['::1', 'localhost', '192.168.0.1'])
    if o == 'workdirectory': return r.choice(['/w', '/srv/nb'])
    if o == 'base_url': return r.choice(['/nb/', '/x', '/'])
    if o == 'merge_strategy': return r.choice(STRATS)
    if o == 'input_strategy': return r.choice(STRATS)
    if o == 'output_strategy': return r.choice(STRATS + ['remove', 'clear-all'])
    if o == 'Ignore':
        d = {}
        for p in r.sample(['/cells/*/outputs', '/cells/*/metadata', '/metadata', '/cells/*/attachments', '/cells/*'], r.choice([1, 1, 2, 3])):
            d[p] = r.choice([True, False, ['collapsed', 'tags'], ['x'], [], None, True])
        return d
    return r.choice([1, 'v', True])

def task_of(case):
    pre, argv = [], []
    for o, v in case.get('flags', {}).items():
        p, a = flag_argv(case['ep'], o, v); pre += p; argv += a
    t = {'op': 'resolve', 'ep': case['ep'], 'files': case['files'], 'pre': pre, 'argv': argv}
    if case.get('no_parser'): t['no_parser'] = True
    if case.get('cwd_at'): t['cwd_at'] = case['cwd_at']
    return t

# ------------------------------------------------------------------ case generation
def gen_files(r, tables, spec, ep, docs_sections):
    own = EP_CLASS[ep]
    relevant = spec.sections(ep)
    others = [s for s in list(docs_sections) + sorted(EP_CLASS.values()) if s not in relevant]
    files = {}
    for role in r.sample(ROLES, r.choice([1, 2, 2, 3, 3])):
        f = {}
        for _ in range(r.choice([1, 1, 2, 3])):
            s = r.choice(relevant) if r.random() < 0.85 else r.choice(others)
            if s == 'Global' and r.random() < 0.8: s = relevant[0]
            opts = tables['classes'].get(s, [])
            if not opts: continue
            sec = f.setdefault(s, {})
            for o in r.sample(opts, min(len(opts), r.choice([1, 1, 2, 3]))):
                sec[o] = None if (o != 'Ignore' and r.random() < 0.12) else file_value(r, o)
        if r.random() < 0.04: f = {}
        files[role] = f
    return files

def gen_case(r, tables, spec, docs_sections, pdefs):
    ep = r.choice(sorted(EP_CLASS))
    case = {'ep': ep, 'files': gen_files(r, tables, spec, ep, docs_sections), 'flags': {}}
    if ep not in NO_PARSER and r.random() < 0.6:
        flaggable = [o for o in pdefs[ep] if o not in ('Ignore',)]
        for o in r.sample(flaggable, min(len(flaggable), r.choice([1, 1, 2, 3]))):
            try: case['flags'][o] = flag_value(r, o)
            except KeyError: pass
    return case

def gen_illtyped(r, tables, spec, docs_sections):
    """cases outside the theorems' input space (T1 only): type clashes, undocumented classes as sections"""
    ep = r.choice(sorted(EP_CLASS))
    case = {'ep': ep, 'files': gen_files(r, tables, spec, ep, docs_sections), 'flags': {}, 'no_parser': True, 'illtyped': True}
    roles = list(case['files']) or ['cwd']
    for _ in range(r.choice([1, 2])):
        f = case['files'].setdefault(r.choice(roles), {})
        k = r.choice(['optdict', 'secatom', 'ignatom', 'hidden', 'emptydict', 'nested'])
        s = r.choice(spec.sections(ep))
        opts = [o for o in tables['classes'].get(s, []) if o != 'Ignore'] or ['x']
        if k == 'optdict':
            if isinstance(f.get(s, {}), dict): f.setdefault(s, {})[r.choice(opts)] = {'a': 1}
        elif k == 'secatom': f[s] = r.choice([5, 'x', None, [], True])
        elif k == 'ignatom' and isinstance(f.get(s, {}), dict): f.setdefault(s, {})['Ignore'] = r.choice([True, 0, 'p', None])
        elif k == 'hidden': f[r.choice(['_Ignorables', '_Diffing', 'Show', 'NbdimeConfigurable'])] = {'sources': r.choice([True, False]), 'color_words': True, 'Ignore': {'/h': True}}
        elif k == 'emptydict' and isinstance(f.get(s, {}), dict): f.setdefault(s, {})[r.choice(opts)] = {}
        elif k == 'nested' and isinstance(f.get(s, {}), dict): f.setdefault(s, {})['Ignore'] = {'/n': {'deep': r.choice([None, 1])}, '/m': None}
    return case

# ---- family: the working directory IS one of the Jupyter configuration directories (nbdiff run inside ~/.jupyter,
# /etc/jupyter, $JUPYTER_CONFIG_PATH ...).  That directory is then searched twice; "a configuration file in the working
# directory takes precedence over user-level and system-level files" must still hold, i.e. its file beats the
# higher-ranked Jupyter directories, option by option and Ignore path by Ignore path.
CWD_AT = ROLES[1:]
IGN_VALUES = [True, False, ['collapsed', 'tags'], ['x'], []]
def other_value(r, o, v):
    """a value for option o different from v (for Ignore: the same paths with other values, sometimes one path more/less)"""
    if o == 'Ignore':
        d = {}
        for p, x in v.items():
            if len(v) > 1 and r.random() < 0.2: continue
            d[p] = r.choice([y for y in IGN_VALUES + ([None] if r.random() < 0.15 else []) if canon(y) != canon(x)])
        if r.random() < 0.3: d.setdefault(r.choice(['/cells/*/outputs', '/metadata/kernelspec', '/cells/*/source']), r.choice(IGN_VALUES))
        return d
    for _ in range(12):
        w = file_value(r, o)
        if canon(w) != canon(v): return w
    return None

def gen_cwd_at(r, tables, spec, ep, at, pdefs, dense=True):
    """cwd = the Jupyter directory of role `at`; the same option(s) are (mostly) also set, to other values, in the
    Jupyter directories ranked above it (and sometimes below), in the same or in another section of the entry point."""
    relevant = spec.sections(ep)
    k = ROLES.index(at)
    higher, lower = ROLES[1:k], ROLES[k + 1:]
    rivals = (r.sample(higher, r.randint(1, len(higher))) if higher else []) + [x for x in lower if r.random() < (0.5 if not higher else 0.3)]
    files = {at: {}}
    for _ in range(r.choice([1, 1, 2, 3])):
        s = r.choice(relevant)
        opts = tables['classes'].get(s, [])
        if not opts: continue
        o = r.choice(opts)
        v = file_value(r, o)
        if o != 'Ignore' and r.random() < 0.08: v = None
        files[at].setdefault(s, {})[o] = v
        for role in rivals:
            if not dense and r.random() < 0.5: continue
            s2 = s if r.random() < 0.75 else r.choice(relevant)
            if o not in tables['classes'].get(s2, []): s2 = s
            w = file_value(r, o) if v is None else other_value(r, o, v)
            files.setdefault(role, {}).setdefault(s2, {})[o] = w
    case = {'ep': ep, 'files': files, 'flags': {}, 'cwd_at': at}
    if ep not in NO_PARSER and r.random() < 0.3:
        flaggable = [o for o in pdefs[ep] if o != 'Ignore']
        for o in r.sample(flaggable, min(len(flaggable), r.choice([1, 2]))):
            try: case['flags'][o] = flag_value(r, o)
            except KeyError: pass
    return case

def cwd_at_cases(r, tier, tables, spec, pdefs):
    out = []
    # systematic: every entry point x every Jupyter directory as cwd x one plain option and one Ignore map, each rival
    # directory setting the same thing in the same section
    for ep in sorted(EP_CLASS):
        secs = [s for s in spec.sections(ep) if tables['classes'].get(s)]
        for at in CWD_AT:
            rivals = [x for x in ROLES[1:] if x != at]
            for want_ign in (False, True):
                cands = [(s, o) for s in secs for o in tables['classes'][s] if (o == 'Ignore') == want_ign]
                if not cands: continue
                s, o = r.choice(cands)
                v = file_value(r, o)
                files = {at: {s: {o: v}}}
                for role in rivals: files[role] = {s: {o: other_value(r, o, v)}}
                out.append({'ep': ep, 'files': files, 'flags': {}, 'cwd_at': at, 'src': 'cwd-at:systematic'})
    n = 130 if tier == 'quick' else 1200
    for i in range(n):
        c = gen_cwd_at(r, tables, spec, r.choice(sorted(EP_CLASS)), r.choice(CWD_AT), pdefs, dense=(i % 3 != 2))
        c['src'] = 'cwd-at:rand'; out.append(c)
    return out

# ---- family: a flag whose VALUE coincides with another candidate of the resolution chain -- first of all with the
# built-in default of the option (`--merge-strategy inline`, `--port 0`, `--ip 127.0.0.1`, `--base-url /`,
# `--log-level INFO`, `--workdirectory $PWD`), while configuration sections set the same option to something else.
# "flag given" is a fact about the command line, not about the value: the flag must still win.  The defaults are the
# ones observed on the entry point's own parser without any configuration (bases), so the family follows the tree.
def expressible(o, d):
    """can a command-line flag give option o the value d?"""
    if d is None: return False
    if o in BOOL_IGN: return isinstance(d, bool)
    if o in ('persist', 'color_words'): return d is True            # store_true flags
    if o in ('ignore_transients', 'show_base'): return d is False   # store_false flags
    if o == 'port': return isinstance(d, int) and not isinstance(d, bool)
    if not isinstance(d, str): return False
    if o == 'log_level': return d in ('DEBUG', 'INFO', 'WARN', 'ERROR', 'CRITICAL')
    try: flag_argv('nbdiff', o, d)
    except KeyError: return False
    return True

def default_flags(ep, pdefs, bases):
    """{option: built-in default} for the options of ep whose default can be written as a flag"""
    ns = bases[ep]['ns']
    return {o: ns[o] for o in pdefs[ep] if o != 'Ignore' and o in ns and expressible(o, ns[o])}

def non_default(r, o, d):
    w = other_value(r, o, d)
    return w if w is not None else file_value(r, o)

def gen_flag_eq(r, tables, spec, ep, docs_sections, pdefs, dflags, first):
    """1-3 options given as flags with exactly their built-in default; every one of them is set to a non-default value
    in 1-3 sections x 1-3 directories (sometimes to null in one of them); sometimes further flags with ordinary values,
    one of which may repeat the value a section gives; sometimes unrelated assignments; 15% started from a Jupyter
    configuration directory."""
    relevant = spec.sections(ep)
    files = {}; flags = {}
    rest = [o for o in sorted(dflags) if o != first]
    for o in [first] + r.sample(rest, min(len(rest), r.choice([0, 0, 0, 1, 2]))):
        d = dflags[o]
        secs = [s for s in relevant if o in tables['classes'].get(s, [])]
        if not secs: continue
        for s in r.sample(secs, min(len(secs), r.choice([1, 1, 2, 3]))):
            for role in r.sample(ROLES, r.choice([1, 1, 2, 3])):
                files.setdefault(role, {}).setdefault(s, {})[o] = None if r.random() < 0.06 else non_default(r, o, d)
        flags[o] = d
    if r.random() < 0.4:        # unrelated assignments, flags with ordinary values (possibly equal to a section's value)
        extra = gen_files(r, tables, spec, ep, docs_sections)
        for role, f in extra.items():
            for s, sec in f.items():
                for o, v in sec.items(): files.setdefault(role, {}).setdefault(s, {}).setdefault(o, v)
    if r.random() < 0.4:
        flaggable = [o for o in pdefs[ep] if o != 'Ignore' and o not in flags]
        for o in r.sample(flaggable, min(len(flaggable), r.choice([1, 2]))):
            try: v = flag_value(r, o)
            except KeyError: continue
            set_here = [sec[o] for f in files.values() for s, sec in f.items() if s in relevant and sec.get(o) is not None]
            if set_here and r.random() < 0.5 and expressible(o, set_here[0]) and set_here[0] != '':
                v = set_here[0]
            flags[o] = v
    case = {'ep': ep, 'files': files, 'flags': flags}
    if r.random() < 0.15:       # started from the Jupyter directory `at`: the working-directory file is that directory's
        at = r.choice(CWD_AT)
        if 'cwd' in files:
            f = files.pop('cwd'); files.setdefault(at, f)
        case['cwd_at'] = at
    return case

def flag_eq_cases(r, tier, tables, spec, docs_sections, pdefs, bases):
    out = []
    eps = [ep for ep in sorted(EP_CLASS) if ep not in NO_PARSER and ep in bases]
    dfl = {ep: default_flags(ep, pdefs, bases) for ep in eps}
    # systematic: every entry point x every option whose default a flag can express x every section of the entry point
    # that has the option: that section alone (one directory) sets a non-default value, the flag gives the default
    for ep in eps:
        for o in sorted(dfl[ep]):
            for s in spec.sections(ep):
                if o not in tables['classes'].get(s, []): continue
                out.append({'ep': ep, 'files': {r.choice(ROLES): {s: {o: non_default(r, o, dfl[ep][o])}}},
                            'flags': {o: dfl[ep][o]}, 'src': 'flag-eq-default:systematic'})
    pairs = [(ep, o) for ep in eps for o in sorted(dfl[ep])]     # uniform over (entry point, option), not over entry points
    n = 120 if tier == 'quick' else 1500
    for _ in range(n if pairs else 0):
        ep, o = r.choice(pairs)
        c = gen_flag_eq(r, tables, spec, ep, docs_sections, pdefs, dfl[ep], o); c['src'] = 'flag-eq-default:rand'; out.append(c)
    return out

CORPUS = [
    {'ep': 'nbdiff', 'files': {'cwd': {'Global': {'log_level': 'DEBUG'}}}, 'flags': {}, 'src': 'witness:global_section_refuted'},
    {'ep': 'server', 'files': {'cwd': {'Web': {'port': 9000}}}, 'flags': {}, 'src': 'witness:server_port_refuted'},
    {'ep': 'nbdiff', 'files': {'cwd': {'Diff': {'details': False}}, 'system': {'NbDiff': {'details': True}}}, 'flags': {}, 'src': 'section-major'},
    {'ep': 'git-nbdiffdriver', 'flags': {}, 'src': 'docs-ignore-example', 'files': {'user': {
        'Diff': {'Ignore': {'/metadata': ['foo'], '/cells/*/metadata': ['tags']}},
        'GitDiff': {'Ignore': {'/cells/*/outputs': True, '/cells/*/metadata': ['collapsed', 'autoscroll', 'deletable', 'editable']}}}}},
    {'ep': 'nbmerge', 'flags': {'merge_strategy': 'use-local'}, 'src': 'three-dirs', 'files': {
        'cwd': {'NbMerge': {'output_strategy': 'use-remote'}, 'Merge': {'Ignore': {'/cells/*/outputs': True}}},
        'envpath': {'NbMerge': {'merge_strategy': 'use-base', 'output_strategy': 'use-base'}},
        'user': {'Merge': {'ignore_transients': False, 'Ignore': {'/metadata': ['foo'], '/cells/*/outputs': False}}, 'NbMerge': {'input_strategy': 'use-local'}}}},
    {'ep': 'nbdiff', 'cwd_at': 'system', 'flags': {}, 'src': 'cwd-is-system-dir', 'files': {
        'system': {'NbDiff': {'color_words': True, 'Ignore': {'/cells/*/outputs': True, '/metadata': ['foo']}}},
        'user': {'NbDiff': {'color_words': False, 'Ignore': {'/cells/*/outputs': False}}}}},
    {'ep': 'nbmerge', 'cwd_at': 'user', 'flags': {}, 'src': 'cwd-is-user-dir', 'files': {
        'user': {'NbMerge': {'merge_strategy': 'use-local'}, 'Merge': {'Ignore': {'/cells/*/metadata': ['tags']}}},
        'envpath': {'NbMerge': {'merge_strategy': 'use-remote'}, 'Merge': {'Ignore': {'/cells/*/metadata': ['collapsed']}}},
        'system': {'NbMerge': {'merge_strategy': 'use-base'}}}},
    {'ep': 'nbshow', 'files': {'cwd': {'Diff': {'Ignore': {'/cells/*/outputs': True}}, 'NbMerge': {'Ignore': {'/metadata': ['foo']}}}}, 'flags': {}, 'src': 'foreign-sections'},
]

def gen_cases(chk, tier, tables, spec, docs_sections, pdefs, bases=None):
    r = chk.rng
    cases = [dict(c) for c in CORPUS]
    # every (documented section, option, entry point) once on its own: the finite skeleton of the rule
    for ep in sorted(EP_CLASS):
        for s in spec.sections(ep):
            for o in tables['classes'].get(s, []):
                cases.append({'ep': ep, 'files': {r.choice(ROLES): {s: {o: file_value(r, o)}}}, 'flags': {}, 'src': 'single'})
    n = 700 if tier == 'quick' else 6000
    for _ in range(n):
        c = gen_case(r, tables, spec, docs_sections, pdefs); c['src'] = 'rand'; cases.append(c)
    for _ in range(n // 8):
        c = gen_illtyped(r, tables, spec, docs_sections); c['src'] = 'illtyped'; cases.append(c)
    # appended last so that the pre-existing families see the same random stream as before
    cases += cwd_at_cases(r, tier, tables, spec, pdefs)
    if bases is not None: cases += flag_eq_cases(r, tier, tables, spec, docs_sections, pdefs, bases)
    return cases

# ------------------------------------------------------------------ running the implementation
def run_shared(tasks, shards=12):
    return core.run_impl(tasks, shards=shards, script=RUNNER)

def run_fresh(tasks):
    if not tasks: return []
    with ThreadPoolExecutor(max_workers=12) as ex:
        return list(ex.map(lambda t: core.run_impl([t], script=RUNNER)[0], tasks))

def base_of(res):
    return {'cfg': res.get('cfg', {}).get('ok', {}), 'ns': res.get('parser', {}).get('ns', {})}

# ------------------------------------------------------------------ shrinking (all failing cases in lock-step rounds)
def candidates(case):
    out = []
    if case.get('cwd_at'):
        c = copy.deepcopy(case); del c['cwd_at']; out.append(c)
    for role in list(case['files']):
        c = copy.deepcopy(case); del c['files'][role]; out.append(c)
    for o in list(case.get('flags', {})):
        c = copy.deepcopy(case); del c['flags'][o]; out.append(c)
    for role, f in case['files'].items():
        for s in list(f):
            c = copy.deepcopy(case); del c['files'][role][s]; out.append(c)
            if isinstance(f[s], dict):
                for o in list(f[s]):
                    if len(f[s]) > 1:
                        c = copy.deepcopy(case); del c['files'][role][s][o]; out.append(c)
                    if o == 'Ignore' and isinstance(f[s][o], dict) and len(f[s][o]) > 1:
                        for p in list(f[s][o]):
                            c = copy.deepcopy(case); del c['files'][role][s][o][p]; out.append(c)
    return out

def shrink_all(spec, items, bases, rounds=14):
    """items: list of [case, (kind, o)]; returns the minimised list"""
    items = [[copy.deepcopy(c), d] for c, d in items]
    active = list(range(len(items)))
    for _ in range(rounds):
        if not active: break
        batch = []; owner = []
        for i in active:
            for c in candidates(items[i][0]):
                batch.append(task_of(c)); owner.append((i, c))
        if not batch: break
        results = run_shared(batch)
        nxt = []; done = set()
        for (i, c), res in zip(owner, results):
            if i in done: continue
            ds = judge(spec, c, res, bases[c['ep']])
            if any((k, o) == items[i][1] for k, o, _, _ in ds):
                items[i][0] = c; done.add(i); nxt.append(i)
        active = nxt
    return items

def assignments(case):
    return [(role, s, o) for role, f in case['files'].items() if isinstance(f, dict)
            for s, sec in f.items() if isinstance(sec, dict) for o in sec]

def signature(spec, case, disc, res, bases, cache):
    kind, o = disc
    asg = assignments(case)
    flags = case.get('flags', {})
    if kind in ('option', 'cfg-option') and o in flags:
        return 'flag-not-honoured:%s' % o
    if kind in ('option', 'cfg-option') and not flags and len(asg) == 1 and asg[0][2] == o:
        role, s, _ = asg[0]
        # is the same single assignment honoured for some entry point the section is documented for?
        ck = (kind, s, o)
        if ck not in cache:
            eps = [e for e in sorted(EP_CLASS) if EP_CLASS[e] in spec.docs.get(s, []) and not (kind == 'option' and e in NO_PARSER)]
            alt = lambda e: dict(body_of(case), ep=e, flags={})
            rs = run_shared([task_of(alt(e)) for e in eps])
            cache[ck] = {e for e, r in zip(eps, rs)
                         if not any(k2 == kind and o2 == o for k2, o2, _, _ in judge(spec, alt(e), r, bases[e]))}
        honoured = bool(cache[ck] - {case['ep']})
        return 'section-value-ignored:%s.%s%s' % (s, o, '@' + case['ep'] if honoured else '')
    if kind in ('ignore', 'cfg-ignore') and len(asg) == 1:
        return 'section-ignore-map-ignored:%s' % asg[0][1]
    secs = sorted({s for _, s, o2 in asg if o2 == o or kind in ('ignore', 'cfg-ignore')})
    return 'wrong-resolution:%s:%s:%s:sections=%s:files=%d%s' % (kind, case['ep'], o, ','.join(secs), len(case['files']),
                                                                 ':cwd-is-%s-dir' % case['cwd_at'] if case.get('cwd_at') else '')

# ------------------------------------------------------------------ T1: the Coq model on the same cases
def coq_str(s):
    if all(32 <= ord(c) < 127 and c != '"' for c in s): return '(of_ascii "%s")' % s
    return '[' + '; '.join('%d%%N' % ord(c) for c in s) + ']'

def coq_json(v, sort=False):
    if v is None: return 'JNull'
    if v is True: return '(JBool true)'
    if v is False: return '(JBool false)'
    if isinstance(v, int): return '(JInt (%d)%%Z)' % v
    if isinstance(v, str): return '(JStr %s)' % coq_str(v)
    if isinstance(v, list): return '(JArr [' + '; '.join(coq_json(x, sort) for x in v) + '])'
    if isinstance(v, dict):
        items = sorted(v.items()) if sort else list(v.items())
        return '(JObj [' + '; '.join('(%s, %s)' % (coq_str(k), coq_json(x, sort)) for k, x in items) + '])'
    raise ValueError(v)

def coq_res(r):
    return '(Ok %s)' % coq_json(r['ok'], True) if 'ok' in r else '(Err TypeError)'

def model_check(cases, results, tables):
    """Returns (compared, failing indices, log).  One boolean per case: build_config (both modes), every option of the
    entry point's namespace, the installed Ignore map."""
    lines = ['From Coq Require Import List NArith ZArith Bool String.',
             'From NB Require Import Base.Json Base.Res Diff.Codec Sys.Config.',
             'Import ListNotations.', 'Local Open Scope list_scope.', '']
    idx = []
    for i, (c, res) in enumerate(zip(cases, results)):
        if 'cfg' not in res: continue
        ep = c['ep']
        files = '[' + '; '.join(coq_json(f) for f in ordered_files(c)) + ']'
        t = 'check_cfg %s %s %s %s' % (coq_str(ep), files, coq_res(res['cfg']), coq_res(res['cfg_none']))
        pr = res.get('parser')
        if pr is not None and 'ns' in pr:
            opts = [o for o in tables['classes'][EP_CLASS[ep]] if o != 'Ignore'] + ['log_level']
            exp = '[' + '; '.join('(%s, %s)' % (coq_str(o), coq_json(pr['ns'].get(o), True)) for o in opts) + ']'
            flags = '[' + '; '.join('(%s, %s)' % (coq_str(o), coq_json(v)) for o, v in c.get('flags', {}).items()) + ']'
            t += ' && check_ns %s %s %s %s %s' % (coq_str(ep), files, flags, exp, coq_json(pr.get('ignore') or {}, True))
        lines.append('Definition k%d : bool := %s.' % (i, t)); idx.append(i)
    for j in range(0, len(idx), 200):
        lines.append('Eval vm_compute in (failing [' + '; '.join('(%d%%N, k%d)' % (i, i) for i in idx[j:j + 200]) + ']).')
    d = tempfile.mkdtemp(prefix='nbv_c19coq_')
    try:
        open(os.path.join(d, 'cases.v'), 'w').write('\n'.join(lines) + '\n')
        for attempt in range(2):
            p = subprocess.run(['timeout', '900', 'coqc', '-Q', core.COQ, 'NB', 'cases.v'], cwd=d, capture_output=True, text=True)
            if p.returncode == 0: break
        if p.returncode != 0:
            return 0, None, (p.stderr + p.stdout)[-1500:]
        bad = []
        for block in re.findall(r'=\s*\[(.*?)\]\s*:\s*list N', p.stdout, re.S):
            bad += [int(x) for x in re.findall(r'(\d+)%N', block)]
        nblocks = len(re.findall(r':\s*list N', p.stdout))
        if nblocks != (len(idx) + 199) // 200:
            return 0, None, 'unexpected coqc output: ' + p.stdout[-800:]
        return len(idx), bad, ''
    finally:
        shutil.rmtree(d, ignore_errors=True)

# ------------------------------------------------------------------ the check
def setup(chk):
    try:
        docs = documented_sections()
    except Exception as e:
        chk.broken_obligation('docs-table', 'docs/source/config.rst: %r' % e); docs = {}
    unknown = [s for s in docs if s not in SPECIFICITY]
    if unknown: chk.broken_obligation('docs-table', 'documented sections without a place in the specificity order: %r' % unknown)
    spec = Spec(docs)
    tables = core.run_impl([{'op': 'tables'}], script=RUNNER)[0]
    if 'classes' not in tables:
        chk.broken_obligation('introspection', tables); return None
    if tables['eps'] != EP_CLASS:
        chk.violation('entrypoint-table-differs-from-documentation', {'entrypoint_configurables': tables['eps']}, {'documented': EP_CLASS})
    base_res = run_fresh([task_of({'ep': ep, 'files': {}, 'flags': {}}) for ep in sorted(EP_CLASS)])
    bases = {ep: base_of(r) for ep, r in zip(sorted(EP_CLASS), base_res)}
    pdefs = {ep: [o for o in tables['parser_dests'].get(ep, []) if o in tables['classes'].get(EP_CLASS[ep], []) or o == 'log_level'] for ep in EP_CLASS}
    return spec, docs, tables, bases, pdefs

def run(tier, seed):
    chk = core.Check(PROP, tier, seed)
    b = core.build()
    chk.proof_obligations('Props/C19.v', b)
    st = setup(chk)
    if st is None: return chk.finish('proof', ASSUME)
    spec, docs, tables, bases, pdefs = st
    T = {'setup': time.time() - chk.t0}; t = time.time()
    cases = gen_cases(chk, tier, tables, spec, docs, pdefs, bases)
    results = run_shared([task_of(c) for c in cases])
    T['impl'] = time.time() - t; t = time.time()
    # ---- T2: the documented rule judged on the real code
    failing = []
    hist = {}; nontrivial = set()
    for i, (c, res) in enumerate(zip(cases, results)):
        hist[c['src']] = hist.get(c['src'], 0) + 1
        if 'cfg' not in res:
            chk.broken_obligation('runner', {'case': c, 'result': res}); continue
        if c.get('illtyped'): continue
        secs = spec.sections(c['ep'])
        if any(s in secs for _, s, _ in assignments(c)):
            nontrivial.add(canon([c['ep'], c['files'], c.get('flags', {}), c.get('cwd_at')]))
        for k, o, got, want in judge(spec, c, res, bases[c['ep']]):
            failing.append((i, (k, o), got, want))
    # shrink all discrepancies in lock-step (shared interpreters), group the minimal cases by structure, then confirm
    # one representative per group alone in a FRESH interpreter: if it no longer fails there, the result depended on
    # what the process did before, which is itself a violation
    CAP = 800 if tier == 'quick' else 5000
    for i, d, got, want in failing[CAP:]:     # a flood of discrepancies: the tail is reported unshrunk
        chk.violation('not-shrunk:%s:%s:%s' % (d[0], cases[i]['ep'], d[1]),
                      body_of(cases[i]),
                      {'discrepancy': d[0], 'option': d[1], 'implementation': got, 'documented_rule': want})
    failing_all, failing = failing, failing[:CAP]
    shrunk = shrink_all(spec, [(cases[i], d) for i, d, _, _ in failing], bases)
    T['shrink'] = time.time() - t; t = time.time()
    groups = {}
    for (case, d), (i, _, got, want) in zip(shrunk, failing):
        key = canon([case['ep'], d, sorted((s, o) for _, s, o in assignments(case)), sorted(case.get('flags', {})), case.get('cwd_at')])
        g = groups.setdefault(key, {'case': case, 'd': d, 'n': 0, 'orig': i, 'got': got, 'want': want})
        g['n'] += 1
    reps = list(groups.values())
    fres = run_fresh([task_of(g['case']) for g in reps])
    hon_cache = {}
    for g, res in zip(reps, fres):
        case, d = g['case'], g['d']
        ds = [x for x in judge(spec, case, res, bases[case['ep']]) if (x[0], x[1]) == d]
        if not ds:
            i = g['orig']
            sig = 'result-depends-on-process-history:%s' % d[0]
            body = dict(body_of(cases[i]),
                        after=[{k: v for k, v in body_of(cases[j]).items() if k != 'flags'} for j in range(i % 12, i, 12)][-6:])
            detail = {'discrepancy': d, 'in_shared_process': g['got'], 'documented_rule': g['want']}
        else:
            sig = signature(spec, case, d, res, bases, hon_cache)
            body = body_of(case)
            detail = {'discrepancy': d[0], 'option': d[1], 'implementation': ds[0][2], 'documented_rule': ds[0][3],
                      'sections_most_specific_first': spec.sections(case['ep'])}
            if case.get('cwd_at'):
                detail['working_directory'] = 'the %s-level Jupyter configuration directory itself (its file is the working-directory file)' % case['cwd_at']
        for _ in range(g['n']): chk.violation(sig, body, detail)
    T['signatures'] = time.time() - t; t = time.time()
    # ---- T1: model = implementation
    compared, bad, log = (0, None, 'model not built')
    if os.path.exists(os.path.join(core.COQ, 'Sys', 'Config.vo')):
        compared, bad, log = model_check(cases, results, tables)
    if bad is None:
        chk.broken_obligation('correspondence:model-run', log)
    else:
        for i in bad[:3]:
            chk.broken_obligation('correspondence:config-model', {'case': cases[i], 'implementation': {k: results[i].get(k) for k in ('cfg', 'cfg_none', 'parser')}})
    T['model'] = time.time() - t
    chk.notes.append('phase seconds: ' + ', '.join('%s=%.1f' % kv for kv in T.items()))
    chk.cov.update({
        'evaluations': len(cases), 'distinct_nontrivial': len(nontrivial),
        'rule': 'entry point x config files in <=3 of 4 sandboxed directories (cwd, JUPYTER_CONFIG_PATH, JUPYTER_CONFIG_DIR, system) x flag subsets: corpus (refutation witnesses first), every (entry point, documented section, option) alone, random well-typed assignments (12% nulls, 15% sections of other entry points), ill-typed cases for T1 only, and the family "working directory = one of the three Jupyter directories" (every entry point x directory systematically with rival values in the other directories, plus random dense conflicts, 30% with flags), and the family "flag whose value equals the built-in default of the option" (defaults observed on the configuration-free parser; every entry point x flag-expressible default (merge_strategy, port, ip, base_url, workdirectory, log_level) x section having the option systematically: the section sets a non-default value, the flag gives the default; plus random cases with 1-3 such flags against 1-3 sections x 1-3 directories, 40% with further ordinary flags (half of them repeating the value of a section), 40% with unrelated assignments, 15% started from a Jupyter directory); non-trivial = well-typed and at least one assignment in a section documented for the entry point, distinct by canonical JSON of (entry point, files, flags)',
        'input_distribution': hist, 'traces_validated_against_impl': compared,
        'model_impl_mismatches': len(bad) if bad is not None else None,
        'discrepancies_with_documented_rule': len(failing_all), 'distinct_minimal_discrepancies': len(reps), 'exhaustive': False,
    })
    for c in cases[:2] + cases[len(CORPUS) + 300:len(CORPUS) + 302] + cases[-1:]:
        chk.sample(body_of(c))
    return chk.finish('proof', ASSUME)

def replay(path):
    body = json.load(open(path))
    chk = core.Check(PROP, 'quick', 0)
    st = setup(chk)
    if st is None: print('setup failed'); return 1
    spec, docs, tables, bases, pdefs = st
    if body.get('kind') != 'failing-input':
        print(json.dumps(body.get('obligations'), indent=1)[:3000]); return 1
    case = body['case']
    if 'files' not in case:
        print(json.dumps(case, indent=1)[:2000]); return 1
    res = run_fresh([task_of(case)])[0]
    ds = judge(spec, case, res, bases[case['ep']])
    print(json.dumps({'case': case, 'discrepancies': ds, 'sections': spec.sections(case['ep'])}, indent=1, default=str)[:4000])
    if ds:
        print('VIOLATION property=%s replay=%s' % (PROP, path)); return 1
    return 0
