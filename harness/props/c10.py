"""C10 -- use-base / use-local / use-remote equal resolving every open conflict of the open ('mergetool') merge to that
side; no unresolved conflict; no fabricated source lines.

Proof side: Props/C10.v (leaf-level and resolver-level equivalence on the Gallina model of tryresolve /
resolve_strategy_generic; `_partial` where the merge core is not yet composed).
Implementation side (independent of the model): a differential on nbdime itself -- the strategy run versus the open run
with every conflicted decision governed by the use-X strategy relabelled to X and applied (a) by nbdime's
apply_decisions and (b) by an own applier built on the documented diff semantics (harness/c10_spec.py)."""
import os, sys, json, copy, hashlib
import core, gennb, pyspec
import c03_common as K
import c10_spec as S
import c10_gen

PROP = 'C10'
ASSUME = [
    "'resolving a conflicted decision to side X' = same decision with conflict := false and action := X, whatever action the open merge proposed (base / local_then_remote / remote_then_local / custom); see harness/c10_spec.py",
    "the open counterpart of a run with use-X in some position is the same configuration with 'mergetool' in that position (merge position: the web tool's configuration)",
    'which use-X governs a conflict is decided by the documented placement (root / source+attachments / outputs / metadata), not by nbdime code (c10_spec.spec_table, governor)',
    'tryresolve / resolve_strategy_generic model: Merge/Decisions.v + Merge/Strategies.v, tied to the source by the generated chains (Gen/Strategies.v) and the executed dispatcher correspondence',
]

USE = ['use-base', 'use-local', 'use-remote']


def plan(t):
    """[(kind, strategy cfg, open cfg)] for one transient setting"""
    out = []
    for x in USE:
        out.append(('merge', [x, None, None, t, 'cli'], ['mergetool', None, None, t, 'attr']))
        out.append(('input', ['inline', x, None, t, 'cli'], ['inline', 'mergetool', None, t, 'attr']))
        out.append(('output', ['inline', None, x, t, 'cli'], ['inline', None, 'mergetool', t, 'attr']))
    for m, i, o in (('use-local', 'use-remote', 'use-base'), ('use-remote', 'use-base', 'use-local'), ('use-base', 'use-local', 'use-remote'),
                    ('use-local', None, 'use-remote'), ('use-base', 'use-remote', None), ('use-remote', 'use-local', 'use-local')):
        out.append(('mixed', [m, i, o, t, 'cli'], ['mergetool', None, None, t, 'attr']))
    return out


def judge_pair(t, kind, scfg, sres, ores, applied, own):
    """-> (signature, detail) | (None, None).  sres / ores: strategy and open run results; applied: nbdime's apply_decisions on
    the relabelled open decisions; own: the own applier's result (or an exception text)"""
    if 'err' in sres: return 'strategy-run-raises:%s@%s' % (sres['err'], sres.get('frame')), {'msg': sres.get('msg')}
    if 'err' in ores: return 'open-run-raises:%s@%s' % (ores['err'], ores.get('frame')), {'msg': ores.get('msg')}
    T = S.spec_table(*scfg[:4])
    merged = sres['ok']['merged']; sdec = sres['ok']['decisions']
    left = [d for d in sdec if d.get('conflict') and (kind in ('merge', 'mixed') or S.governor(d, T) is not None)]
    if left:
        return 'unresolved-conflict-under-use-strategy', {'decisions': left[:3], 'count': len(left)}
    if 'err' in applied:
        return 'apply-relabelled-raises:%s' % applied['err'], {'msg': applied.get('msg')}
    # conflict-marker cells of the inline strategies get a fresh random id in every run (nbformat.v4.new_markdown_cell):
    # ids that occur in none of the three inputs are compared as a placeholder
    known = set(c.get('id') for k in 'blr' for c in t[k].get('cells', []) if isinstance(c.get('id'), str))
    merged = canon_ids(merged, known); applied = {'ok': canon_ids(applied['ok'], known)}
    if not isinstance(own, str): own = canon_ids(own, known)
    if not pyspec.strict_eq(applied['ok'], merged):
        return 'strategy-run-differs-from-relabelled-open-run', {'diff_paths': first_diffs(merged, applied['ok'])}
    if isinstance(own, str) and not own.startswith('NA:'):
        return 'own-applier-fails', {'error': own}
    if not isinstance(own, str) and not pyspec.strict_eq(own, merged):
        return 'strategy-run-differs-from-independently-applied-open-run', {'diff_paths': first_diffs(merged, own)}
    if kind in ('merge', 'mixed'):
        have = S.source_lines(t['b']) | S.source_lines(t['l']) | S.source_lines(t['r'])
        fab = sorted(S.source_lines(merged) - have)
        if fab: return 'fabricated-source-line', {'lines': fab[:5]}
    return None, None


def canon_ids(nb, known):
    nb = copy.deepcopy(nb)
    for c in nb.get('cells', []):
        if isinstance(c, dict) and isinstance(c.get('id'), str) and c['id'] not in known: c['id'] = '<generated>'
    return nb


def first_diffs(a, b, path='', out=None, limit=4):
    out = [] if out is None else out
    if len(out) >= limit: return out
    if type(a) is not type(b): out.append(path or '/')
    elif isinstance(a, dict):
        for k in sorted(set(a) | set(b)):
            if k not in a or k not in b: out.append(path + '/' + k + (' (missing)'))
            else: first_diffs(a[k], b[k], path + '/' + k, out, limit)
    elif isinstance(a, list):
        if len(a) != len(b): out.append('%s (lengths %d, %d)' % (path or '/', len(a), len(b)))
        else:
            for i, (x, y) in enumerate(zip(a, b)): first_diffs(x, y, '%s/%d' % (path, i), out, limit)
    elif a != b or not pyspec.strict_eq(a, b): out.append(path or '/')
    return out[:limit]


class AbortedHistory:
    """the same sandbox, but every implementation process first goes through one merge aborted by an exception (harness/prelude.py)"""
    def __init__(self, sb): self.sb = sb; self.dir = sb.dir
    def env(self, mode='git'): return dict(self.sb.env(mode), NBV_PRELUDE='abort')


def evaluate(sb, triples, tier, chk=None, stats=None, strategy_sb=None):
    """returns list of (triple index, kind, scfg, ocfg, signature, detail, n_relabelled); stats (a dict), if given, receives
    'id_conflicts': {triple index: largest number of conflicted cell-id decisions in one of its open runs}.
    strategy_sb: if given, the STRATEGY runs are taken from processes started in that sandbox (e.g. AbortedHistory), while
    the open runs they are compared with still come from sb"""
    plans = plan(True) + plan(False)
    cfgs = []
    for kind, s, o in plans:
        for c in (s, o):
            if c not in cfgs: cfgs.append(c)
    res = K.run_merge_tasks(sb, [(t, cfgs, 'git') for t in triples], op='merge_full')
    res_s = K.run_merge_tasks(strategy_sb, [(t, cfgs, 'git') for t in triples], op='merge_full') if strategy_sb is not None else res
    # phase 2: apply the relabelled open decisions with nbdime's applier
    jobs = []; meta = []
    for ti, (t, r) in enumerate(zip(triples, res)):
        if 'res' not in r or 'res' not in res_s[ti]:
            meta.append((ti, None, None, None, r if 'res' not in r else res_s[ti], None, None, 0)); continue
        by = {json.dumps(c): x for c, x in zip(cfgs, r['res'])}
        by_s = {json.dumps(c): x for c, x in zip(cfgs, res_s[ti]['res'])}
        for kind, s, o in plans:
            sres, ores = by_s[json.dumps(s)], by[json.dumps(o)]
            if 'ok' in sres and 'ok' in ores:
                T = S.spec_table(*s[:4])
                rel, n = S.relabel(ores['ok']['decisions'], T)
                if stats is not None:
                    ic = stats.setdefault('id_conflicts', {})
                    ic[ti] = max(ic.get(ti, 0), len(c10_gen.id_conflicts(ores['ok']['decisions'])))
                jobs.append({'op': 'apply', 'b': t['b'], 'decisions': rel})
                try:
                    own = S.spec_apply(copy.deepcopy(t['b']), rel)
                except S.NotApplicable as e:
                    own = 'NA: %s' % e
                except Exception as e:
                    own = '%s: %s' % (type(e).__name__, e)
                meta.append((ti, kind, s, o, sres, ores, own, n))
            else:
                meta.append((ti, kind, s, o, sres, ores, None, 0))
    applied = K.run(sb, jobs) if jobs else []
    out = []; ai = 0
    for (ti, kind, s, o, sres, ores, own, n) in meta:
        if kind is None:
            out.append((ti, None, None, None, 'runner-failure', sres, 0)); continue
        if 'ok' in sres and 'ok' in ores:
            ap = applied[ai]; ai += 1
        else: ap = {}
        sig, detail = judge_pair(triples[ti], kind, s, sres, ores, ap, own)
        out.append((ti, kind, s, o, sig, detail, n))
    return out


def run(tier, seed):
    chk = core.Check(PROP, tier, seed)
    b = core.build()
    chk.proof_obligations('Props/C10.v', b)
    sb = K.Sandbox()
    try:
        t1, t1_bad = K.dispatcher_correspondence(chk, sb)
        r = chk.rng
        triples = K.corpus_triples() + K.fixture_triples()[: (10 if tier == 'quick' else 10 ** 6)]
        cdir = os.path.join(core.VERIF, 'corpus', PROP)
        if os.path.isdir(cdir):
            for f in sorted(os.listdir(cdir)):
                cc = json.load(open(os.path.join(cdir, f)))
                triples.insert(0, {'b': cc['base'], 'l': cc['local'], 'r': cc['remote'], 'src': 'corpus:' + f})
        n = 150 if tier == 'quick' else 2500
        for i in range(n):
            t = gennb.gen_triple(r, conflict_bias=[0.9, 1.0, 0.7][i % 3])
            triples.append({'b': t[0], 'l': t[1], 'r': t[2], 'src': 'gen'})
        # conflicts on the cell id: the one leaf conflict whose table entry ('remove') the leaf resolution cannot apply, so the
        # use-X further out has to settle it (harness/c10_gen.py); drawn after the random triples so that those stay as they were
        fam = c10_gen.id_conflict_triples(r, 24 if tier == 'quick' else 240)
        fam0 = len(triples); triples += fam
        stats = {}
        results = evaluate(sb, triples, tier, stats=stats)
        fam_eff = sum(1 for ti in range(fam0, fam0 + len(fam)) if stats.get('id_conflicts', {}).get(ti, 0) > 0)
        if fam_eff < len(fam) // 2:
            chk.broken_obligation('id-conflict-family-effective', 'only %d of %d triples of the cell-id family produced a conflicted cell-id decision in an open run' % (fam_eff, len(fam)))
        evals = 0; nontrivial = set(); hist = {}; fails = {}
        for (ti, kind, s, o, sig, detail, nrel) in results:
            evals += 1
            hist[str(kind)] = hist.get(str(kind), 0) + 1
            if ti >= fam0: hist['family:id-conflict'] = hist.get('family:id-conflict', 0) + 1
            if nrel > 0:
                nontrivial.add((hashlib.sha1(pyspec.canon([triples[ti]['b'], triples[ti]['l'], triples[ti]['r']]).encode()).hexdigest(), json.dumps(s)))
            if sig:
                if sig.startswith('strategy-run-raises') or sig.startswith('open-run-raises'):
                    # completion is C03's subject; an aborted run gives C10 nothing to compare
                    hist['skipped:' + sig] = hist.get('skipped:' + sig, 0) + 1
                    continue
                sig = refine(sig, triples[ti], s, detail)       # root causes sharing a generic signature are kept apart
                fails.setdefault(sig, []).append((ti, kind, s, o, detail))
        # ---- the same comparison with the strategy runs made in a process that has seen a merge ABORTED by an exception:
        # a long-lived process must resolve to side X exactly as a fresh one does (open runs still from fresh processes)
        sub = [t for t in triples if K.has_text_conflict(t)][: (25 if tier == 'quick' else 250)]
        hres = evaluate(sb, sub, tier, strategy_sb=AbortedHistory(sb)) if sub else []
        hfails = {}
        for (ti, kind, s, o, sig, detail, nrel) in hres:
            if sig and not (sig.startswith('strategy-run-raises') or sig.startswith('open-run-raises')) and sig != 'runner-failure':
                hfails.setdefault('after-aborted-merge:' + sig, []).append((ti, kind, s, o, detail))
        base_sigs = set(fails)
        for sig, lst in sorted(hfails.items()):
            if sig[len('after-aborted-merge:'):] in base_sigs or refine(sig[len('after-aborted-merge:'):], sub[lst[0][0]], lst[0][2], lst[0][4]) in base_sigs:
                continue                    # the same failure shows without the history: reported once, above
            ti, kind, s, o, detail = min(lst, key=lambda x: len(pyspec.canon([sub[x[0]]['b'], sub[x[0]]['l'], sub[x[0]]['r']])))
            chk.violation(sig, {'base': sub[ti]['b'], 'local': sub[ti]['l'], 'remote': sub[ti]['r'], 'kind': kind, 'strategy_config': s, 'open_config': o,
                                'history': 'the strategy run was made after one generic merge under strategy "fail" had raised inside the line-wise string merge in the same process (harness/prelude.py); the open run comes from a fresh process',
                                'failing_cases_this_run': len(lst)}, detail)
        hist['after-aborted-merge'] = len(hres)
        for sig, lst in sorted(fails.items()):
            ti, kind, s, o, detail = min(lst, key=lambda x: len(pyspec.canon([triples[x[0]]['b'], triples[x[0]]['l'], triples[x[0]]['r']])))
            small = shrink(sb, triples[ti], kind, s, o, sig, 25 if tier == 'quick' else 80)
            case = {'base': small['b'], 'local': small['l'], 'remote': small['r'], 'kind': kind, 'strategy_config': s, 'open_config': o,
                    'failing_cases_this_run': len(lst)}
            chk.violation(sig, case, detail)
        chk.cov.update({
            'evaluations': evals, 'distinct_nontrivial': len(nontrivial),
            'rule': 'one evaluation = one (triple, placement of use-X, transients) comparison: strategy run vs open run relabelled and applied twice (nbdime apply_decisions, own applier) + conflict-flag and source-line checks. '
                    'Placements: use-X as --merge-strategy; as --input-strategy or --output-strategy under merge strategy inline; six mixed (merge,input,output) assignments; each with transients ignored and not. '
                    'Triples: corpus, repository fixtures, gennb.gen_triple with forced collisions, c10_gen.id_conflict_triples (both branches change / add / remove the id of the same cell: re-id on both, 4.x->4.5 upgrade on both, downgrade vs re-id; alone or with a source conflict on that cell, another forced collision, a one-sided edit). non-trivial = at least one conflicted decision of the open run was relabelled; distinct by canonical JSON of the triple + configuration',
            'input_distribution': hist, 'triples': len(triples), 'id_conflict_family': {'triples': len(fam), 'with_conflicted_id_decision_in_open_run': fam_eff}, 'traces_validated_against_impl': t1, 'model_impl_mismatches': t1_bad, 'exhaustive': False,
            'partial': 'the equivalence is proved for the leaf level (tryresolve) and for resolve_strategy_generic on arbitrary builders; its lifting through the merge recursion is explored on the implementation only',
        })
        for t in triples[:1] + triples[-2:]:
            chk.sample({'base': t['b'], 'local': t['l'], 'remote': t['r'], 'placements': '15 strategy/open pairs x transients on/off'})
    finally:
        sb.close()
    return chk.finish('proof', ASSUME)


def refine(sig, t, scfg, detail):
    """name the known root cause by a predicate over the minimised case"""
    if sig == 'fabricated-source-line':
        lines = (detail or {}).get('lines') or []
        have = S.source_lines(t['b']) | S.source_lines(t['l']) | S.source_lines(t['r'])
        tails = set()
        for k in 'blr':
            for c in t[k].get('cells', []):
                s = c.get('source', '')
                parts = pyspec.splitlines_keepends(s)
                if parts and parts[-1] and parts[-1][-1] not in pyspec.LINESEPS: tails.add(parts[-1])
        def glued(f, depth=0):
            # one or more unterminated last lines, then a line that exists (or another such tail)
            return any(f.startswith(x) and (f[len(x):] in have or (depth < 6 and glued(f[len(x):], depth + 1)))
                       for x in tails if x and len(f) > len(x))
        if lines and all(glued(f) for f in lines):
            return 'unterminated-inserted-line-glued-to-next-line'
    return sig


def shrink(sb, t, kind, s, o, sig, budget):
    def fails(c):
        tt = {'b': c['b'], 'l': c['l'], 'r': c['r'], 'src': 'shrink'}
        res = evaluate_one(sb, tt, kind, s, o)
        return res == sig
    def cands(c):
        n = [len(c[k]['cells']) for k in 'blr']
        for i in reversed(range(max(n))):
            d = copy.deepcopy(c)
            for k in 'blr':
                if i < len(d[k]['cells']): del d[k]['cells'][i]
            yield d
        for k in 'blr':
            for i in reversed(range(len(c[k]['cells']))):
                d = copy.deepcopy(c); del d[k]['cells'][i]; yield d
        for i in range(max(n)):
            for field, empty in (('outputs', []), ('metadata', {}), ('attachments', None)):
                d = copy.deepcopy(c); ch = False
                for k in 'blr':
                    if i < len(d[k]['cells']) and d[k]['cells'][i].get(field):
                        if empty is None: del d[k]['cells'][i][field]
                        else: d[k]['cells'][i][field] = copy.deepcopy(empty)
                        ch = True
                if ch: yield d
        d = copy.deepcopy(c); ch = False
        for k in 'blr':
            if d[k].get('metadata'): d[k]['metadata'] = {}; ch = True
        if ch: yield d
    c = {'b': t['b'], 'l': t['l'], 'r': t['r']}
    try:
        c = core.shrink(c, fails, cands, budget=budget)
    except Exception:
        pass
    return c


def evaluate_one(sb, t, kind, s, o):
    res = K.run_merge_tasks(sb, [(t, [s, o], 'git')], op='merge_full')[0]
    if 'res' not in res: return 'runner-failure'
    sres, ores = res['res']
    ap = {}; own = None
    if 'ok' in sres and 'ok' in ores:
        rel, n = S.relabel(ores['ok']['decisions'], S.spec_table(*s[:4]))
        ap = K.run(sb, [{'op': 'apply', 'b': t['b'], 'decisions': rel}], shards=1)[0]
        try: own = S.spec_apply(copy.deepcopy(t['b']), rel)
        except S.NotApplicable as e: own = 'NA: %s' % e
        except Exception as e: own = '%s: %s' % (type(e).__name__, e)
    sig, detail = judge_pair(t, kind, s, sres, ores, ap, own)
    return refine(sig, t, s, detail) if sig else sig


def replay(path):
    body = json.load(open(path))
    case = body['case']
    sb = K.Sandbox()
    try:
        t = {'b': case['base'], 'l': case['local'], 'r': case['remote'], 'src': 'replay'}
        sig = evaluate_one(sb, t, case['kind'], case['strategy_config'], case['open_config'])
        print(json.dumps({'signature': sig}, indent=1))
        if sig:
            print('VIOLATION property=%s replay=%s' % (PROP, path)); return 1
        return 0
    finally:
        sb.close()
