"""C16 -- terminal rendering of notebooks, diffs and merge decisions never fails; silent on the empty diff; speaks on
every diff that touches a shown location; no ANSI escape codes with colour disabled.

Proof side : coq/Props/C16.v (models Sys/RenderFilter.v + Gen/RenderFilter.v regenerated from prettyprint.py).
T1 (tie)   : (a) the model's should_ignore_string against PrettyPrintConfig.should_ignore_path on path strings x 64
             subsets, (b) the model's render skeleton (which headers print, which backend is spawned with which command
             line) against the real renderer on valid diffs, (c) the colour tables; all evaluated with vm_compute under coqc
             from a generated cases file.
T2 (search): the property itself, judged on the real renderer's output by an oracle that shares nothing with nbdime
             (own path/category walk over the diff)."""
import os, re, sys, json, copy, subprocess, tempfile, shutil, hashlib, time, codecs
import core, c16_gen as G

PROP = 'C16'
ESC = '\x1b'
ANSI = re.compile(r'\x1b\[[0-9;]*[A-Za-z]')
MARKER = '\\ No newline at end of file'
ASSUME = [
    'value formatters (pretty_print_value_at and below, pprint, pygments) write at least one character and do not raise: abstracted to EvValue in the model, explored on the implementation by the search',
    'string_patch_total: patching a string with a well-formed line diff succeeds (premise of render_wf_safe; totality half of C02/C11)',
    'tool contract: outside --color-words mode git/diff prefix every content line, so at most 2 output lines start with the "No newline" marker; in word-diff mode content lines are unprefixed and no marker is emitted (checked on git 2.39)',
    'r_is_int is modelled for ASCII digits only (keys with non-ASCII digits are outside the tie)',
    'notebooks are nbformat NotebookNode objects as produced by nbformat.read / from_dict (what nbdiff, nbshow and the git driver pass)',
]

# ------------------------------------------------------------------ independent reading of the property
def path_categories(p):
    """categories of a location (tuple of keys) in a v4 notebook, from the property text"""
    if len(p) >= 1 and p[0] == 'metadata': return {'metadata'}
    if p in (('nbformat',), ('nbformat_minor',)): return {'details'}
    if len(p) >= 3 and p[0] == 'cells' and isinstance(p[1], int):
        k = p[2]
        if k == 'source': return {'sources'}
        if k == 'attachments': return {'attachments'}
        if k == 'metadata': return {'metadata'}
        if k == 'id': return {'id'}
        if k == 'outputs':
            cats = {'outputs'}
            if len(p) >= 5 and p[4] == 'metadata': cats.add('metadata')
            if len(p) == 5 and p[4] == 'execution_count': cats.add('details')
            return cats
        return {'details'}
    return None      # root, /cells, /cells/i: structural, no category of their own

def diff_leaves(a, d, path=()):
    """(location, op) of every leaf operation of a notebook diff; a string diff is one leaf at the string's location"""
    out = []
    if isinstance(a, str):
        return [(path, 'modified')]
    for e in d:
        k = e['key']; op = e['op']
        if op == 'patch':
            try: sub = a[k]
            except Exception: sub = None
            out += diff_leaves(sub, e['diff'], path + (k,)) if sub is not None else []
        elif op in ('addrange', 'removerange'):
            out.append((path, op))       # judged at the container (the inserted/deleted items have no single category)
        else:
            out.append((path + (k,), op))
    return out

def shown_leaves(a, d, mask):
    """leaves whose location and all enclosing locations have only shown categories (clear-cut cases)"""
    shown = {c for i, c in enumerate(G.CATS) if not (mask >> i) & 1}
    res = []
    for loc, op in diff_leaves(a, d):
        ok = True; own = None
        for n in range(len(loc) + 1):
            cats = path_categories(loc[:n])
            if cats is not None:
                own = cats
                if not cats <= shown: ok = False; break
        if op in ('addrange', 'removerange') and own is None:
            # cells inserted / deleted: expected to print if sources are shown and some affected cell has a source
            continue
        if ok and own is not None: res.append((loc, op))
    return res

def loc_str(loc): return ''.join('/' + str(k) for k in loc)

def strip_ansi(s): return ANSI.sub('', s)

def texts_of(x):
    if isinstance(x, str): yield x
    elif isinstance(x, dict):
        for k, v in x.items():
            yield k
            yield from texts_of(v)
    elif isinstance(x, list):
        for v in x: yield from texts_of(v)

def has_marker_line(*docs):
    return any(any(l.startswith(MARKER) for l in t.split('\n')) for d in docs for t in texts_of(d))

def esc_outside_source_blocks(out):
    """True if some ESC sits on a line that is not inside a top-level cell's 'source:' block (F8 colours only those)"""
    in_src = False
    for line in out.split('\n'):
        plain = strip_ansi(line)
        if plain == '  source:' and ESC not in line: in_src = True; continue
        if not (in_src and (plain.startswith('    ') or plain == '')): in_src = False
        if ESC in line and not in_src: return True
    return False

HEADER_LEN = 3      # nbdiff a b / --- / +++

def judge_render(task, res, ci):
    """the property on one render.  Returns (signature, detail) or (None, None)"""
    c = task['configs'][ci]; rec = res['recs'][ci]
    op = task['op']
    docs = [task[k] for k in ('nb', 'a', 'b', 'base', 'local', 'remote') if k in task]
    if 'err' in rec:
        where = (rec.get('where') or ['?'])[-1]
        sig = 'render-raises:%s@%s' % (rec['err'], where)
        if (rec['err'] == 'AssertionError' and where.endswith('external_diff_render') and c['use_color'] and c['color_words']
                and any('--color-words' in t for t in rec.get('tools', [])) and has_marker_line(*docs)):
            sig = 'colorwords-marker-assert'
        return sig, {'error': rec['err'], 'msg': rec.get('msg'), 'where': rec.get('where'), 'tools': rec.get('tools')}
    out = res['outs'][rec['o']]
    if not c['use_color'] and ESC in out and not any(ESC in t for d in docs for t in texts_of(d)):
        sig = 'nocolor-ansi:' + op
        if op == 'show' and not esc_outside_source_blocks(out): sig = 'show-nocolor-ansi'
        i = out.index(ESC)
        return sig, {'around': out[max(0, i - 60): i + 40]}
    if op == 'diff':
        d = res['diff']
        if not d and out != '':
            return 'empty-diff-prints', {'out': out[:200]}
        if d:
            body = strip_ansi(out).split('\n', HEADER_LEN)
            body = body[HEADER_LEN] if len(body) > HEADER_LEN else ''
            leaves = shown_leaves(task['a'], d, c['ignore'])
            if leaves and body.strip() == '':
                return 'silent-on-shown-change', {'leaves': [loc_str(l) for l, _ in leaves[:5]]}
            for loc, lop in leaves:
                if loc_str(loc) not in body:
                    return 'shown-change-not-mentioned', {'location': loc_str(loc), 'op': lop}
    if op == 'decisions':
        if out == '': return 'decisions-silent', {}
    return None, None

# ------------------------------------------------------------------ case generation
def gen_tasks(chk, tier):
    r = chk.rng
    n = {'quick': 70, 'thorough': 500}[tier]
    tasks = []
    # pinned witnesses of the refuted theorems first
    nl = MARKER + '\n'
    wa = {'nbformat': 4, 'nbformat_minor': 4, 'metadata': {}, 'cells': [{'cell_type': 'markdown', 'metadata': {}, 'source': nl * 3 + 'x\n'}]}
    wb = copy.deepcopy(wa); wb['cells'][0]['source'] = nl * 3 + 'y\n'
    wcfg = [dict(ignore=0, use_color=uc, color_words=cw, **G.tools_for(rn)) for uc in (False, True) for cw in (False, True) for rn in G.RENDERERS]
    tasks.append({'op': 'diff', 'a': wa, 'b': wb, 'configs': wcfg, 'src': 'witness:colorwords-marker'})
    wn = {'nbformat': 4, 'nbformat_minor': 4, 'metadata': {}, 'cells': [{'cell_type': 'markdown', 'metadata': {}, 'source': '# Title\nsome *text*'}]}
    tasks.append({'op': 'show', 'nb': wn, 'configs': [dict(ignore=0, use_color=False, color_words=False, **G.tools_for('git'))], 'src': 'witness:show-nocolor'})
    cdir = os.path.join(core.VERIF, 'corpus', PROP)
    if os.path.isdir(cdir):
        for f in sorted(os.listdir(cdir)):
            t = json.load(open(os.path.join(cdir, f))); t['src'] = 'corpus:' + f; tasks.append(t)
    # the full 768-point grid on a few cases
    for i in range({'quick': 2, 'thorough': 8}[tier]):
        a = G.gen_notebook(r, ncells=r.choice([2, 3, 4])); b, _ = G.mutate(r, a, n=4)
        tasks.append({'op': 'diff', 'a': a, 'b': b, 'configs': G.config_grid_full(), 'src': 'fullgrid'})
    a = G.gen_notebook(r, ncells=3)
    tasks.append({'op': 'show', 'nb': a, 'configs': G.config_grid_full(), 'src': 'fullgrid'})
    l, _ = G.mutate(r, a, n=3); rm, _ = G.mutate(r, a, n=3)
    tasks.append({'op': 'decisions', 'base': a, 'local': l, 'remote': rm, 'configs': G.config_grid_full(), 'src': 'fullgrid'})
    # all 16 tool settings (use_git, use_diff, has_git, has_diff) x colour x colour-words on a source edit
    a = G.gen_notebook(r, ncells=2); a['cells'][0]['source'] = 'line one\nline two\nline three\n'
    b = copy.deepcopy(a); b['cells'][0]['source'] = 'line one\nline 2\nline three\n'
    tasks.append({'op': 'diff', 'a': a, 'b': b, 'src': 'toolgrid',
                  'configs': [dict(ignore=0, use_color=uc, color_words=cw, **t) for t in G.all_tool_settings() for uc in (False, True) for cw in (False, True)]})
    # the user's git configuration forces colour (color.ui = always): colour disabled must still mean no escape codes
    tasks.append({'op': 'diff', 'a': a, 'b': b, 'src': 'git-color-always',
                  'configs': [dict(ignore=0, use_color=uc, color_words=cw, git_color_always=True, **G.tools_for(rn))
                              for rn in G.RENDERERS for uc in (False, True) for cw in (False, True)]})
    # equal notebooks: the empty diff
    for i in range(3):
        a = G.gen_notebook(r)
        tasks.append({'op': 'diff', 'a': a, 'b': copy.deepcopy(a), 'configs': G.config_grid_light(r, i), 'src': 'empty'})
    # random cases, light grid (all 64 subsets, the 12 colour/renderer combinations in rotation)
    for i in range(n):
        ex = i % 6 == 0
        a = G.gen_notebook(r, exotic=ex)
        kinds = None if i % 3 else [r.choice(list(G.EDITS))]       # every third case edits one category only
        b, _ = G.mutate(r, a, kinds=kinds, exotic=ex)
        tasks.append({'op': 'diff', 'a': a, 'b': b, 'configs': G.config_grid_light(r, i), 'src': 'rand-exotic' if ex else 'rand'})
        tasks.append({'op': 'show', 'nb': b, 'configs': G.config_grid_light(r, i + 5), 'src': 'rand-exotic' if ex else 'rand'})
        if i % 2 == 0:
            l, _ = G.mutate(r, a, exotic=ex); rm, _ = G.mutate(r, a, exotic=ex)
            t = {'op': 'decisions', 'base': a, 'local': l, 'remote': rm, 'configs': G.config_grid_light(r, i + 7), 'src': 'rand-exotic' if ex else 'rand'}
            if i % 8 == 0: t['strategy'] = r.choice(['inline', 'use-base', 'use-local', 'use-remote', 'union'])
            tasks.append(t)
    return tasks

def gen_cli_tasks(chk, tier):
    r = chk.rng
    flagsets = [[], ['-s'], ['-o'], ['-m'], ['-a'], ['-i'], ['-d'], ['-s', '-o'], ['-S'], ['-O', '-M'], ['-D', '-I', '-A']]
    tasks = []
    for i in range({'quick': 4, 'thorough': 20}[tier]):
        a = G.gen_notebook(r, ncells=r.choice([1, 2, 3])); b, _ = G.mutate(r, a, n=3)
        argvs = []; tools = []
        for fl in flagsets:
            for extra, tl in (([], (True, True)), (['--no-color'], (True, True)), (['--color-words'], (True, True)),
                              (['--no-git'], (True, True)), (['--no-color', '--no-git', '--no-use-diff'], (True, True)), (['--no-color'], (False, False))):
                argvs.append(fl + extra); tools.append(list(tl))
        tasks.append({'op': 'cli', 'app': 'nbdiff', 'nbs': [a, b], 'argvs': argvs, 'tools': tools, 'src': 'cli'})
        tasks.append({'op': 'cli', 'app': 'diffdriver', 'nbs': [a, b], 'argvs': argvs[:18], 'tools': tools[:18], 'src': 'cli'})
        tasks.append({'op': 'cli', 'app': 'nbshow', 'nbs': [b], 'argvs': [fl for fl in flagsets[:8]], 'tools': [[True, True]] * 8, 'src': 'cli'})
    return tasks

def judge_cli(task, res):
    if task.get('op') == 'cli-enc': return judge_cli_enc(task, res)
    if task['app'] == 'nbmerge': return judge_cli_merge(task, res)
    out = []
    for k, (argv, rec) in enumerate(zip(task['argvs'], res.get('recs', []))):
        if 'err' in rec:
            out.append(('cli-raises:%s:%s@%s' % (task['app'], rec['err'], (rec.get('where') or ['?'])[-1]), {'argv': argv, 'k': k, 'msg': rec.get('msg'), 'printed_before': rec.get('partial')}))
        elif rec.get('rc') not in (0, None):
            out.append(('cli-exit-status:%s' % task['app'], {'argv': argv, 'k': k, 'rc': rec.get('rc'), 'out': rec.get('out', '')[-200:]}))
        elif '--no-color' in argv and ESC in rec.get('out', '') and not any(ESC in t for d in task['nbs'] for t in texts_of(d)):
            out.append(('nocolor-ansi:cli-' + task['app'], {'argv': argv, 'k': k}))
    if task['app'] == 'nbdiff-git': out += judge_cli_git(task, res)
    return out

# ------------------------------------------------------------------ nbdiff in git-revision mode (several notebooks per invocation)
# A scratch repository with a short history over a handful of notebooks; each commit (and the uncommitted working tree) edits
# some of them IN PLACE (same cells, same outputs), adds / deletes a notebook or touches a non-notebook file.  nbdiff is then
# run between two revisions (HEAD~k, tags, abbreviated object names, the working tree), optionally restricted to paths,
# under ignore flags x colour x renderer.  One invocation renders every changed notebook in turn.
GIT_NAMES = ['alpha.ipynb', 'sub/beta.ipynb', 'two words.ipynb', 'deep/er/delta.ipynb', 'gämma.ipynb', 'epsilon.ipynb']
GIT_FLAGSETS = [[], ['-s'], ['-o'], ['-m'], ['-d'], ['-s', '-o'], ['-s', '-m', '-d'], ['-S'], ['-O'], ['-M', '-D'], ['-O', '-M'], ['-D', '-I', '-A'], ['-a', '-i']]
GIT_EXTRAS = [([], (True, True)), (['--no-color'], (True, True)), (['--color-words'], (True, True)), (['--no-git'], (True, True)),
              (['--no-color', '--no-git', '--no-use-diff'], (True, True)), (['--no-color'], (True, False))]
GIT_EDIT_KINDS = ['sources', 'metadata', 'cell_metadata', 'outputs', 'details']
FLAG_CAT = {'s': 'sources', 'o': 'outputs', 'a': 'attachments', 'm': 'metadata', 'i': 'id', 'd': 'details'}

def git_base_notebook(r, tag):
    """a generated notebook whose first cell has a three-line source and whose last cell is a code cell with a stream output"""
    nb = G.gen_notebook(r, ncells=r.choice([1, 2, 3]))
    nb['metadata']['c16tag'] = tag
    nb['cells'][0]['source'] = 'first line of %s\nsecond line\nthird line hé\n' % tag
    last = {'cell_type': 'code', 'execution_count': 1, 'metadata': {}, 'source': 'print("%s")' % tag,
            'outputs': [{'output_type': 'stream', 'name': 'stdout', 'text': '%s\nout\n' % tag}]}
    if nb['nbformat_minor'] >= 5: last['id'] = G.cell_id(r)
    nb['cells'].append(last)
    return nb

def git_edit(r, nb, kinds, stamp):
    """in-place edits of the given kinds; cell and output counts never change"""
    b = copy.deepcopy(nb)
    for k in kinds:
        if k == 'sources':
            i = r.choice([0, 0, len(b['cells']) - 1]); c = b['cells'][i]
            c['source'] = c['source'] + ('' if c['source'].endswith('\n') or not c['source'] else '\n') + 'added in %s' % stamp + r.choice(['', '\n'])
        elif k == 'metadata': b['metadata']['c16tag'] = stamp
        elif k == 'cell_metadata': r.choice(b['cells'])['metadata']['c16'] = stamp
        elif k == 'outputs': b['cells'][-1]['outputs'][0]['text'] += 'more in %s\n' % stamp
        elif k == 'details': b['cells'][-1]['execution_count'] += 1
    return b

def gen_git_tasks(chk, tier):
    r = chk.rng
    tasks = []
    for i in range({'quick': 6, 'thorough': 30}[tier]):
        names = r.sample(GIT_NAMES, r.choice([2, 3, 3, 4]))
        tree = {nm: git_base_notebook(r, 'nb%d' % j) for j, nm in enumerate(names)}
        tree['notes.txt'] = 'plain text\n'
        commits = [tree]
        ncommits = r.choice([2, 2, 3])
        for k in range(1, ncommits + 1):          # the last "commit" becomes the working tree when wt is chosen
            prev = commits[-1]; cur = dict(prev)
            present = [nm for nm in names if nm in prev]
            # at least two notebooks change in the first step of every history; later steps vary from none to all
            nchg = min(len(present), r.choice([2, 2, 3]) if k == 1 else r.choice([0, 1, 2, 3]))
            for nm in r.sample(present, nchg):
                kinds = r.sample(GIT_EDIT_KINDS, r.choice([1, 1, 2, 3])) if (i + k) % 3 else ['sources'] + r.sample(GIT_EDIT_KINDS[1:], r.choice([0, 1]))
                cur[nm] = git_edit(r, prev[nm], kinds, 's%d' % k)
            c = r.random()
            if c < 0.2:
                gone = [nm for nm in present if cur[nm] is prev[nm]]
                if gone: del cur[r.choice(gone)]
            elif c < 0.4:
                free = [nm for nm in GIT_NAMES if nm not in cur]
                if free: cur[r.choice(free)] = git_base_notebook(r, 'new%d' % k)
            if r.random() < 0.5: cur['notes.txt'] = prev['notes.txt'] + 'step %d\n' % k
            commits.append(cur)
        wt = None
        if r.random() < 0.5: wt = commits.pop()
        last = len(commits) - 1
        # revision pairs: (refs, from, to) -- to = 'wt' is the working tree (equal to the last commit when nothing is uncommitted)
        revs = [(['HEAD~1', 'HEAD'], last - 1, last), (['t0', 'HEAD'], 0, last), (['t0', 't1'], 0, 1), (['SHA:0', 'SHA:%d' % last], 0, last),
                (['t%d' % last, 't0'], last, 0), (['HEAD~1'], last - 1, 'wt'), ([], last, 'wt'), (['t0', 'main'], 0, last)]
        allnames = sorted({nm for c in commits + ([wt] if wt else []) for nm in c if nm.endswith('.ipynb')})
        plans = []; argvs = []; tools = []
        j = 0
        for fl in GIT_FLAGSETS:
            for q in range(3):
                refs, frm, to = revs[(j + i) % len(revs)] if q else revs[2]      # t0..t1: at least two changed notebooks
                extra, tl = GIT_EXTRAS[(j + 2 * i) % len(GIT_EXTRAS)]
                paths = []
                if refs and j % 4 == 3:
                    paths = r.sample(allnames, r.choice([1, 2, 2])) if r.random() < 0.8 else [r.choice(['sub', 'deep', '.'])]
                j += 1
                plans.append({'flags': fl, 'refs': refs, 'from': frm, 'to': to, 'paths': paths})
                argvs.append(fl + extra + refs + paths); tools.append(list(tl))
        tasks.append({'op': 'cli', 'app': 'nbdiff-git', 'nbs': [], 'commits': commits, 'worktree': wt, 'plans': plans, 'argvs': argvs, 'tools': tools, 'src': 'cli-git'})
    return tasks

def shown_from_flags(flags):
    """the categories an nbdiff command line asks to see: lower-case flags = only these, upper-case flags = all but these"""
    only = {FLAG_CAT[f[1]] for f in flags if f[1].islower()}
    drop = {FLAG_CAT[f[1].lower()] for f in flags if f[1].isupper()}
    return only if only else set(G.CATS) - drop

def inplace_changes(a, b, path=()):
    """locations at which two documents of the same shape differ (dict keys unioned, lists index-wise when equally long)"""
    if isinstance(a, dict) and isinstance(b, dict):
        out = []
        for k in sorted(set(a) | set(b)):
            if k not in a or k not in b: out.append(path + (k,))
            else: out += inplace_changes(a[k], b[k], path + (k,))
        return out
    if isinstance(a, list) and isinstance(b, list) and len(a) == len(b):
        return [l for i, (x, y) in enumerate(zip(a, b)) for l in inplace_changes(x, y, path + (i,))]
    return [] if a == b and type(a) == type(b) else [path]

def under(path, filters):
    return not filters or any(f == '.' or path == f or path.startswith(f.rstrip('/') + '/') for f in filters)

def judge_cli_git(task, res):
    """per invocation: every notebook changed between the two revisions in a shown category gets a section that mentions the
    changed cell / top-level key; an unchanged notebook, a notebook outside the path filter and a non-notebook file get none.
    (A notebook changed in ignored categories only is not judged: nbdime may still align its cells differently.)"""
    out = []
    for k, (plan, argv, rec) in enumerate(zip(task['plans'], task['argvs'], res.get('recs', []))):
        if 'err' in rec or rec.get('rc') not in (0, None): continue          # judge_cli reports these
        snap = lambda x: (task['worktree'] if task.get('worktree') is not None else task['commits'][-1]) if x == 'wt' else task['commits'][x]
        A, B = snap(plan['from']), snap(plan['to'])
        shown = shown_from_flags(plan['flags'])
        sections = []
        for line in strip_ansi(rec.get('out', '')).split('\n'):
            if line.startswith('nbdiff '): sections.append([line[7:], []])
            elif sections: sections[-1][1].append(line)
        for nm in sorted(set(A) | set(B)):
            mine = [s for s in sections if nm in s[0]]
            a, b = A.get(nm), B.get(nm)
            if plan['to'] == 'wt' and nm not in task['commits'][-1] and nm in B: continue      # untracked file: not git's business, not judged
            if not nm.endswith('.ipynb') or not under(nm, plan['paths']) or (a is not None and a == b):
                if mine: out.append(('git-unchanged-file-rendered', {'argv': argv, 'k': k, 'file': nm, 'header': mine[0][0]}))
                continue
            if a is None or b is None:
                if 'sources' in shown and not mine:
                    out.append(('git-added-or-deleted-notebook-not-rendered', {'argv': argv, 'k': k, 'file': nm, 'out': rec.get('out', '')[-300:]}))
                continue
            want = []
            for loc in inplace_changes(a, b):
                cats = [c for c in (path_categories(loc[:n]) for n in range(len(loc) + 1)) if c is not None]
                if cats and all(c <= shown for c in cats): want.append(loc)          # clear-cut: shown at every level
            if want and not mine:
                out.append(('git-changed-notebook-not-rendered', {'argv': argv, 'k': k, 'file': nm, 'locations': [loc_str(l) for l in want[:4]], 'out': rec.get('out', '')[-300:]}))
                continue
            body = '\n'.join(l for s in mine for l in s[1][HEADER_LEN - 1:])
            for loc in want:
                needle = loc_str(loc[:2] if loc[0] == 'cells' else loc[:1])
                if needle not in body:
                    out.append(('git-shown-change-not-mentioned', {'argv': argv, 'k': k, 'file': nm, 'location': loc_str(loc)})); break
    return out

# ------------------------------------------------------------------ nbmerge --decisions on the command line (file presence patterns)
# The decision summary of the nbmerge entry point, which builds its renderer configuration from the command line on two separate
# code paths: the ordinary three-way merge and the "deleted on both branches" shortcut (local == remote == the null file).
# A side that is None is the null file (/dev/null), as git passes it for a notebook that does not exist on that side.
MERGE_PATTERNS = {            # name -> which of (base, local, remote) exist
    'both-deleted': (True, False, False), 'local-deleted': (True, False, True), 'remote-deleted': (True, True, False),
    'both-added': (False, True, True), 'ordinary': (True, True, True), 'unchanged': (True, True, True)}
MERGE_FLAGSETS = [[], ['-s'], ['-o'], ['-m'], ['-a'], ['-i'], ['-d'], ['-s', '-o'], ['-S'], ['-O', '-M'], ['-D', '-I', '-A'], ['-s', '-m', '-d']]
MERGE_EXTRAS = [([], (True, True)), (['--no-color'], (True, True)), (['--no-git'], (True, True)), (['--no-color', '--no-git'], (True, True)),
                (['--no-color', '--no-git', '--no-use-diff'], (True, True)), (['--no-color'], (False, False)), (['--no-color'], (False, True)),
                (['--no-git', '--no-use-diff'], (True, True))]
MERGE_STRATEGIES = ['inline', 'use-base', 'use-local', 'use-remote']      # the choices the command line accepts

def merge_base_notebook(r, i):
    """a generated notebook that certainly has a cell with a non-empty, escape-free source (so that deleting it is a shown change
    whenever sources are shown)"""
    nb = G.gen_notebook(r, ncells=r.choice([1, 2, 3]), exotic=(i % 4 == 3))
    first = {'cell_type': 'markdown', 'metadata': {}, 'source': '# Title %d\nsome *text* with non-ASCII: æøå →' % i + r.choice(['', '\n'])}
    if nb['nbformat_minor'] >= 5: first['id'] = G.cell_id(r)
    nb['cells'].insert(r.randrange(len(nb['cells']) + 1), first)
    return nb

def gen_merge_cli_tasks(chk, tier):
    r = chk.rng
    tasks = []
    others = ['local-deleted', 'remote-deleted', 'both-added', 'ordinary', 'unchanged']
    for i in range({'quick': 4, 'thorough': 16}[tier]):
        base = merge_base_notebook(r, i)
        local, _ = G.mutate(r, base, n=r.choice([1, 2, 3]), exotic=(i % 4 == 3))
        remote, _ = G.mutate(r, base, n=r.choice([1, 2, 3]), exotic=(i % 4 == 3))
        # the both-deleted shortcut under every ignore-flag set x colour / tool setting; one other pattern in rotation on a third of the grid
        for pat, stride in (('both-deleted', 1), (others[i % len(others)], 3), (others[(i + 3) % len(others)], 3)):
            if pat == 'unchanged': docs = [base, copy.deepcopy(base), copy.deepcopy(base)]
            else: docs = [d if keep else None for d, keep in zip((base, local, remote), MERGE_PATTERNS[pat])]
            argvs = []; tools = []; j = 0
            for fl in MERGE_FLAGSETS:
                for extra, tl in MERGE_EXTRAS:
                    j += 1
                    if (j + i) % stride: continue
                    strat = ['--merge-strategy', MERGE_STRATEGIES[(j // 4) % len(MERGE_STRATEGIES)]] if j % 4 == 0 else []
                    argvs.append(fl + extra + strat); tools.append(list(tl))
            tasks.append({'op': 'cli', 'app': 'nbmerge', 'pattern': pat, 'nbs': docs, 'argvs': argvs, 'tools': tools, 'src': 'cli-merge'})
    return tasks

def judge_cli_merge(task, res):
    """nbmerge --decisions: never fails (exit status 0, or 1 = conflicts, only when the two sides differ from each other),
    no escape codes with --no-color (stdout and the logged summary), and a summary that says something when a shown change is
    certain: both sides deleted a notebook holding a non-empty source while sources are shown, or, with no ignore flag at all,
    some side differs from the base."""
    out = []
    base, local, remote = task['nbs']
    clean_inputs = not any(ESC in t for d in task['nbs'] if d is not None for t in texts_of(d))
    for k, (argv, rec) in enumerate(zip(task['argvs'], res.get('recs', []))):
        flags = [a for a in argv if len(a) == 2 and a[0] == '-' and a[1].lower() in FLAG_CAT]
        if 'err' in rec:
            out.append(('cli-raises:nbmerge:%s@%s' % (rec['err'], (rec.get('where') or ['?'])[-1]), {'argv': argv, 'k': k, 'msg': rec.get('msg'), 'printed_before': rec.get('partial')}))
            continue
        text = rec.get('out', '') + rec.get('log', '')
        may_conflict = local != remote           # also: deleted on one side, changed on the other
        if rec.get('rc') not in ((0, None, 1) if may_conflict else (0, None)) or rec.get('exit'):
            out.append(('cli-exit-status:nbmerge', {'argv': argv, 'k': k, 'rc': rec.get('rc'), 'out': text[-200:]}))
            continue
        if '--no-color' in argv and ESC in text and clean_inputs:
            i = text.index(ESC)
            out.append(('nocolor-ansi:cli-nbmerge:' + task.get('pattern', '?'), {'argv': argv, 'k': k, 'escapes': text.count(ESC), 'around': text[max(0, i - 60): i + 40]}))
            continue
        summary = strip_ansi(rec.get('log', ''))
        summary = summary.split('Decisions:\n', 1)[1] if 'Decisions:\n' in summary else ''
        certain = None
        if base is not None and local is None and remote is None:
            if 'sources' in shown_from_flags(flags) and any(c.get('source') for c in base['cells']): certain = 'a cell with a source was deleted on both sides and sources are shown'
        elif not flags and any(d is not None and base is not None and d != base for d in (local, remote)):
            certain = 'a side differs from the base and nothing is ignored'
        if certain and summary.strip() == '':
            out.append(('decisions-silent:cli-nbmerge:' + task.get('pattern', '?'), {'argv': argv, 'k': k, 'why': certain, 'log': rec.get('log', '')[-200:]}))
    return out

# ------------------------------------------------------------------ boundary values at dictionary entries
# Entries of the free-form dictionaries of a notebook (notebook / cell / output metadata and dictionaries nested in them,
# kernelspec / language_info extras, MIME bundles of outputs and attachments) and the schema's string fields whose value is a
# boundary value of its type ('' and other blank / newline-only strings, 0, huge numbers, booleans, null, empty and nearly empty
# containers) appear, disappear, change type or change value: the value printers behind add / remove / replace entries see these
# values at top level.  Rendered as a diff, as the decision list of a three-way merge and as a notebook, and through the
# nbdiff / git diff driver / nbshow / nbmerge --decisions entry points.
BOUNDARY_CLI_ARGVS = [[], ['--no-color'], ['-m'], ['-o'], ['-M'], ['-s', '-a'], ['--no-color', '--no-git', '--no-use-diff'], ['--color-words'], ['-m', '--no-git']]
BOUNDARY_SHOW_ARGVS = [[], ['-s'], ['-o'], ['-m'], ['-a'], ['-s', '-o']]

def gen_boundary_tasks(chk, tier):
    """returns (render tasks, command-line tasks)"""
    r = chk.rng
    tasks = []; cli = []
    n = {'quick': 36, 'thorough': 360}[tier]
    for i in range(n):
        ex = i % 7 == 3
        base, local, remote, slots = G.boundary_triple(r, exotic=ex)
        src = 'boundary-exotic' if ex else 'boundary'
        tasks.append({'op': 'diff', 'a': base, 'b': local, 'configs': G.config_grid_light(r, i), 'src': src})
        if i % 3 == 0: tasks.append({'op': 'diff', 'a': local, 'b': remote, 'configs': G.config_grid_light(r, i + 3), 'src': src})
        if i % 2 == 0:
            t = {'op': 'decisions', 'base': base, 'local': local, 'remote': remote, 'configs': G.config_grid_light(r, i + 7), 'src': src}
            if i % 8 == 4: t['strategy'] = r.choice(['inline', 'use-base', 'use-local', 'use-remote', 'union'])
            tasks.append(t)
        if i % 4 == 1: tasks.append({'op': 'show', 'nb': local, 'configs': G.config_grid_light(r, i + 5), 'src': src})
        if i % 6 == 2:
            tl = [[True, True]] * len(BOUNDARY_CLI_ARGVS)
            cli.append({'op': 'cli', 'app': 'nbdiff', 'nbs': [base, local], 'argvs': BOUNDARY_CLI_ARGVS, 'tools': tl, 'src': 'cli-boundary'})
            cli.append({'op': 'cli', 'app': 'diffdriver', 'nbs': [local, base], 'argvs': BOUNDARY_CLI_ARGVS, 'tools': tl, 'src': 'cli-boundary'})
            cli.append({'op': 'cli', 'app': 'nbshow', 'nbs': [local], 'argvs': BOUNDARY_SHOW_ARGVS, 'tools': tl[:len(BOUNDARY_SHOW_ARGVS)], 'src': 'cli-boundary'})
            margv = [a for a in BOUNDARY_CLI_ARGVS if '--color-words' not in a and '-a' not in a]
            cli.append({'op': 'cli', 'app': 'nbmerge', 'pattern': 'boundary', 'nbs': [base, local, remote], 'argvs': margv, 'tools': [[True, True]] * len(margv), 'src': 'cli-boundary'})
    return tasks, cli

# ------------------------------------------------------------------ encodings of the standard streams
# Every entry point (nbdiff, nbshow incl. reading the notebook from stdin, nbmerge --decisions, nbmerge writing the merged
# notebook to stdout, the git diff driver and the git merge driver with the argument lists git passes) runs as a process of its
# own whose standard streams have the encoding its environment dictates (c16_gen.STREAM_ENVS: ASCII locales through LC_ALL /
# LC_CTYPE / LANG with PYTHONUTF8=0 and PYTHONCOERCECLOCALE=0, the several roads to UTF-8 as controls, Latin-1 / cp1252 / KOI8-R /
# ASCII through PYTHONIOENCODING with a replacing or, on text the codec can represent, a strict error handler), stdout being a
# pipe or a file.  The notebooks hold text the encoding cannot represent (Latin-1 letters, cp1252 punctuation, BMP scripts and
# symbols, combining marks, astral characters) in sources, stream / error / display outputs, inserted and deleted cells, metadata
# values, metadata KEYS, tags and attachment names, and have non-ASCII file names.  Every piece of such text sits next to an
# ASCII marker word (zq<n>x), so the judge can tell that a change was printed whatever the encoding did to the text itself.
ENC_APPS = ['diffdriver', 'nbdiff', 'nbshow', 'nbmerge-decisions', 'diffdriver', 'mergedriver', 'nbdiff', 'nbmerge-stdout', 'nbshow-stdin']
ENC_DIFF_ARGVS = [['--no-color'], [], ['--no-color', '--no-git'], ['--color-words'], ['--no-color', '--no-git', '--no-use-diff'], ['--no-git', '--no-use-diff'],
                  ['-s', '--no-color'], ['-m', '-o'], ['-S', '--no-color', '--no-git'], ['--color-words', '--no-color']]
ENC_SHOW_ARGVS = [[], ['-s'], ['-o', '-m'], ['-a', '-d'], ['-s', '-o', '-m', '-a']]
ENC_ARGVS = {'nbdiff': ENC_DIFF_ARGVS, 'diffdriver': ENC_DIFF_ARGVS, 'nbshow': ENC_SHOW_ARGVS, 'nbshow-stdin': ENC_SHOW_ARGVS,
             'nbmerge-decisions': [['--no-color'], [], ['--no-color', '--no-git', '--no-use-diff'], ['--no-git'], ['--merge-strategy', 'use-local'],
                                   ['-s', '--no-color'], ['--merge-strategy', 'use-base', '--no-color']],
             'nbmerge-stdout': [[], ['--merge-strategy', 'use-remote'], ['--merge-strategy', 'inline'], ['-s']],
             'mergedriver': [[], ['--merge-strategy', 'use-local'], ['-s'], ['--merge-strategy', 'use-base']]}
ENC_MARK = re.compile(r'zq\d+x')
ENC_CRASH = re.compile(r'^Traceback \(most recent call last\):\n  File "[^"\n]+\.py", line \d+', re.M)
ENC_EXC = re.compile(r'^([A-Za-z_][\w.]*(?:Error|Exception|Interrupt|Exit|Warning))\b', re.M)

def gen_stream_encoding_tasks(chk, tier):
    r = chk.rng
    loc, utf, lossy, strict = (G.stream_envs(k) for k in ('locale', 'utf8', 'io-lossy', 'io-strict'))
    tasks = []
    thorough = tier == 'thorough'
    for i in range({'quick': 18, 'thorough': 90}[tier]):
        app = ENC_APPS[i % len(ENC_APPS)]
        rep = G.ENC_REPERTOIRES[i % len(G.ENC_REPERTOIRES)]
        A = ENC_ARGVS[app]
        argvs = [A[0]] + [A[1 + (i + j) % (len(A) - 1)] for j in range(4 if thorough else 2)]
        if i % 6 == 5:
            # a strict codec asked for through PYTHONIOENCODING: text and file names the codec can represent
            se = strict[(i // 6) % len(strict)]
            docs = G.enc_documents(r, rep, codec=se['codec'])
            stems = ['n', 'n', 'n']
            plan = [(se, argvs), (utf[i % len(utf)], argvs[:1])]
        else:
            docs = G.enc_documents(r, rep)
            stems = [r.choice(G.ENC_FILE_STEMS) for _ in range(3)]
            plan = [(loc[i % len(loc)], argvs), (utf[i % len(utf)], argvs[:1]), (lossy[i % len(lossy)], argvs[:2])]
            # PYTHONIOENCODING governs stdin as well and its handlers are made for writing (xmlcharrefreplace cannot decode at
            # all): a notebook that arrives on stdin is read under the locale-made streams only
            if app == 'nbshow-stdin': plan[2] = (loc[(i + 1) % len(loc)], argvs[:2])
            if thorough: plan.append((loc[(i + 3) % len(loc)], argvs[1:3]))
        base, local, remote = docs
        if app in ('nbdiff', 'diffdriver'): nbs = [base, local] if i % 2 else [local, remote]
        elif app in ('nbshow', 'nbshow-stdin'): nbs = [local]
        else: nbs = [base, local, remote]
        runs = [{'argv': a, 'env': e, 'sink': 'file' if (i + j + q) % 3 == 0 else 'pipe'} for q, (e, av) in enumerate(plan) for j, a in enumerate(av)]
        tasks.append({'op': 'cli-enc', 'app': app, 'nbs': nbs, 'names': ['%s_%s.ipynb' % (st, 'abc'[j]) for j, st in enumerate(stems[:len(nbs)])],
                      'path': 'dir/%s.ipynb' % stems[0],
                      'ascii_json': (i % 2 == 1) != (app == 'nbshow-stdin') or (app == 'nbshow-stdin' and i % 6 == 5),      # backslash-u escapes or raw UTF-8 in the files
                      'repertoire': rep, 'runs': runs, 'src': 'cli-enc'})
    return tasks

def enc_markers(doc): return {m for t in texts_of(doc) for m in ENC_MARK.findall(t)}

def judge_cli_enc(task, res):
    """per run: the process neither dies of an exception nor reports one (traceback / logging error on stderr), exits with
    status 0 (nbmerge and the merge driver: 1 as well when the two sides differ = conflicts), writes no escape code with
    --no-color, and -- with no ignore flag -- prints the marker word of every change: nbdiff / diff driver on stdout for text
    present in exactly one of the two notebooks, nbshow for all text of the notebook, nbmerge --decisions on stderr for text a
    side added to or removed from the base; the merge driver leaves a UTF-8 JSON notebook in %A."""
    out = []
    app = task['app']; nbs = task['nbs']
    clean_inputs = not any(ESC in t for d in nbs for t in texts_of(d))
    ms = [enc_markers(d) for d in nbs]
    for k, (run, rec) in enumerate(zip(task['runs'], res.get('recs', []))):
        argv = run['argv']; env = run['env']
        where = {'k': k, 'argv': argv, 'environment': env['name'], 'variables': env['vars'], 'stdout_is': run.get('sink'), 'stream': rec.get('stream')}
        if rec.get('timeout'):
            out.append(('enc-cli-timeout:' + app, where)); continue
        err = rec.get('err', ''); text = rec.get('out', '')
        if ENC_CRASH.search(err) or 'UnicodeEncodeError' in err or 'UnicodeDecodeError' in err:
            names = ENC_EXC.findall(err)
            out.append(('enc-cli-raises:%s:%s' % (app, names[-1] if names else '?'),
                        dict(where, rc=rec.get('rc'), stderr=err[-700:], printed_before=text[-200:]))); continue
        merges = app in ('nbmerge-decisions', 'nbmerge-stdout', 'mergedriver')
        if rec.get('rc') not in ((0, 1) if merges and nbs[1] != nbs[2] else (0,)):
            out.append(('enc-cli-exit-status:' + app, dict(where, rc=rec.get('rc'), stderr=err[-400:], out=text[-200:]))); continue
        seen_text = text + (err if app == 'nbmerge-decisions' else '')
        if '--no-color' in argv and ESC in seen_text and clean_inputs:
            j = seen_text.index(ESC)
            out.append(('nocolor-ansi:enc-cli-' + app, dict(where, around=seen_text[max(0, j - 60): j + 40]))); continue
        if app == 'mergedriver' and not rec.get('merged_ok'):
            out.append(('enc-cli-merge-result-unreadable', dict(where, rc=rec.get('rc'), error=rec.get('merged_err')))); continue
        flags = [a for a in argv if len(a) == 2 and a[0] == '-' and a[1].lower() in FLAG_CAT]
        want = None
        if not flags:
            if app in ('nbdiff', 'diffdriver'): want = ms[0] ^ ms[1]
            elif app in ('nbshow', 'nbshow-stdin'): want = ms[0]
            elif app == 'nbmerge-decisions': want = (ms[0] ^ ms[1]) | (ms[0] ^ ms[2])
        if want:
            missing = sorted(want - set(ENC_MARK.findall(strip_ansi(seen_text))))
            if missing:
                out.append(('enc-cli-change-not-shown:' + app, dict(where, missing_markers=missing, out=seen_text[-300:])))
    return out

# ------------------------------------------------------------------ Coq terms for the generated cases file
def cstr(s):
    if all(32 <= ord(ch) < 127 and ch != '"' for ch in s): return '(of_ascii "%s")' % s
    return '[' + '; '.join('%d%%N' % ord(ch) for ch in s) + ']'

def cjson(x):
    if x is None: return 'JNull'
    if x is True: return '(JBool true)'
    if x is False: return '(JBool false)'
    if isinstance(x, int): return '(JInt (%d)%%Z)' % x
    if isinstance(x, float):
        num, den = x.as_integer_ratio(); e = -(den.bit_length() - 1); m = num
        if m == 0: return '(JFlt 0%Z 0%Z)'
        while m % 2 == 0: m //= 2; e += 1
        return '(JFlt (%d)%%Z (%d)%%Z)' % (m, e)
    if isinstance(x, str): return '(JStr %s)' % cstr(x)
    if isinstance(x, list): return '(JArr [' + '; '.join(cjson(v) for v in x) + '])'
    if isinstance(x, dict): return '(JObj [' + '; '.join('(%s, %s)' % (cstr(k), cjson(x[k])) for k in sorted(x)) + '])'
    raise TypeError(type(x))

def ckey(k): return '(KI %d)' % k if isinstance(k, int) else '(KS %s)' % cstr(k)

def cdiff(d):
    out = []
    for e in d:
        k = ckey(e['key']); op = e['op']
        if op == 'add': out.append('DAdd %s %s' % (k, cjson(e['value'])))
        elif op == 'remove': out.append('DRemove %s' % k)
        elif op == 'replace': out.append('DReplace %s %s' % (k, cjson(e['value'])))
        elif op == 'addrange':
            vl = e['valuelist']
            out.append('DAddRange %s %s' % (k, '(VStr %s)' % cstr(vl) if isinstance(vl, str) else '(VList [' + '; '.join(cjson(v) for v in vl) + '])'))
        elif op == 'removerange': out.append('DRemoveRange %s %d' % (k, e['length']))
        elif op == 'patch': out.append('DPatch %s %s' % (k, cdiff(e['diff'])))
        else: raise ValueError(op)
    return '[' + '; '.join(out) + ']'

def cbool(b): return 'true' if b else 'false'

def ccfg(c):
    inc = [not (c['ignore'] >> i) & 1 for i in range(6)]
    return '(Build_cfg %s)' % ' '.join(cbool(x) for x in inc + [c['use_color'], c['color_words'], c['use_git'], c['use_diff'], c['has_git'], c['has_diff']])

PRELUDE = r'''From Coq Require Import List NArith ZArith Bool String Ascii DecimalString.
From NB Require Import Base.Res Base.Json Diff.DiffFormat Diff.Codec Sys.RenderTypes Gen.RenderFilter Sys.RenderFilter Sys.RenderFilterProofs.
Import ListNotations.
Definition key_str (k : key) : pystr := match k with KI n => of_ascii (NilEmpty.string_of_uint (Nat.to_uint n)) | KS s => s end.
Definition path_str (p : list key) : pystr := flat_map (fun k => 47%N :: key_str k) p.
Fixpoint actions (l : list ev) : list (pystr * nat) :=
  match l with [] => [] | EvAction p n :: r => (path_str p, n) :: actions r | _ :: r => actions r end.
Fixpoint tools (l : list ev) : list (list pystr) :=
  match l with [] => [] | EvTool RDifflib _ :: r => tools r | EvTool _ argv :: r => argv :: tools r | _ :: r => tools r end.
Fixpoint list_eqb {A} (f : A -> A -> bool) (x y : list A) : bool :=
  match x, y with [] , [] => true | a :: x', b :: y' => f a b && list_eqb f x' y' | _, _ => false end.
Definition act_eqb (x y : pystr * nat) : bool := str_eqb (fst x) (fst y) && Nat.eqb (snd x) (snd y).
Definition same (r : res (list ev)) (ea : list (pystr * nat)) (et : list (list pystr)) : bool :=
  match r with
  | Ok evs => list_eqb act_eqb (actions evs) ea && list_eqb (list_eqb str_eqb) (tools evs) et
  | Err _ => false
  end.
Fixpoint mism (i : nat) (l : list bool) : list nat :=
  match l with [] => [] | b :: r => (if b then [] else [i]) ++ mism (S i) r end.
Definition masks : list cfg := map (fun m => Build_cfg (negb (N.testbit m 0)) (negb (N.testbit m 1)) (negb (N.testbit m 2))
   (negb (N.testbit m 3)) (negb (N.testbit m 4)) (negb (N.testbit m 5)) true true true true true true)
   (map N.of_nat (seq 0 64)).
Definition row (p : pystr) : list bool := map (fun c => should_ignore_string c p) masks.
'''

def run_coq_cases(text, timeout=600):
    d = tempfile.mkdtemp(prefix='nbv_c16coq_')
    try:
        f = os.path.join(d, 'cases.v'); open(f, 'w', encoding='utf8').write(text)
        p = subprocess.run(['timeout', str(timeout), 'coqc', '-Q', core.COQ, 'NB', f], capture_output=True, text=True, cwd=d)
        return p.returncode, p.stdout + p.stderr
    finally:
        shutil.rmtree(d, ignore_errors=True)

def parse_evals(out):
    """the values printed by successive `Eval vm_compute in` commands, as raw text"""
    return [m.group(1).strip() for m in re.finditer(r'^\s*=\s*(.*?)\n\s*:\s', out, re.S | re.M)]

def parse_natlist(s):
    s = s.strip()
    if s in ('[]', 'nil'): return []
    return [int(x) for x in re.findall(r'\d+', s)]

HDR = re.compile(r'^## (.*):$')

def impl_summary(out, tools_log):
    """headers printed by the real renderer: (path string, range length) in order; external command lines in order"""
    acts = []
    for line in strip_ansi(out).split('\n'):
        m = HDR.match(line)
        if m and ' /' in m.group(1):
            p = m.group(1)[m.group(1).index(' /') + 1:]; n = 1
            mm = re.match(r'^(.*/)(\d+)-(\d+)$', p)
            if mm and int(mm.group(3)) > int(mm.group(2)): p = mm.group(1) + mm.group(2); n = int(mm.group(3)) - int(mm.group(2)) + 1
            acts.append((p, n))
    return acts, [t.split(' ') for t in tools_log]

def t1_render_cases(chk, tier):
    """small valid notebook pairs whose texts never start a line with '## '"""
    r = chk.rng
    cases = []
    for i in range({'quick': 40, 'thorough': 160}[tier]):
        a = G.gen_notebook(r, ncells=r.choice([1, 2, 2, 3]))
        b, _ = G.mutate(r, a, n=r.choice([1, 2, 3, 4]))
        combos = [(c, w, rn) for c in (False, True) for w in (False, True) for rn in G.RENDERERS]
        cfgs = []
        for j in range(6):
            c, w, rn = combos[(i + 5 * j) % 12]
            cfgs.append(dict(ignore=r.choice([0, 0, r.randrange(64), 1 << r.randrange(6), 63 ^ (1 << r.randrange(6))]), use_color=c, color_words=w,
                             **G.tools_for(rn, i + j)))
        cases.append({'op': 'diff', 'a': a, 'b': b, 'configs': cfgs, 'src': 't1'})
    return cases

ADVERSARIAL_PATHS = ['', '/', '//', '/cells', '/cells/', '/cells/0', '/cells/12/source', '/cells/+1/source', '/cells/-7/id', '/cells/x/source',
                     '/cells/0/sourcery', '/cells/0/attachments/a.png/image/png', '/cells/0/metadata', '/cells/0/metadata/tags/0', '/metadata',
                     '/metadata/kernelspec/name', '/metadata_x', '/nbformat', '/nbformat_minor', '/nbformatx', '/cells/0/id', '/cells/0/identity',
                     '/cells/3/outputs', '/cells/3/outputs/0', '/cells/3/outputs/0/execution_count', '/cells/3/outputs/0/execution_count/x',
                     '/cells/3/outputs/k/execution_count', '/cells/3/outputs/0/metadata', '/cells/3/outputs/0/metadata/isolated', '/cells/3/outputs/0/data/text/plain',
                     '/cells/3/execution_count', '/cells/3/cell_type', '/cells/3/unknown', '/cells/*/source', '/cells/1a/source', '/cells/1/2/3', '/5/6',
                     '//cells/0/source', '/cells//0//source/', 'cells/0/source', '/cells/0/source/3', '/cells/0/outputs/1/text/0', '/cells/0/12/source',
                     '/cells/00/source', '/cells/0/source\n', '/cells/5\n/id', '/metadata/+', '/-/source', '/cells/ 1/source', '/cells/1 /source']

# ------------------------------------------------------------------ the check
def run(tier, seed):
    chk = core.Check(PROP, tier, seed)
    b = core.build()
    proofs_ok = chk.proof_obligations('Props/C16.v', b)

    # ---------------- implementation runs
    tasks = gen_tasks(chk, tier)
    t1cases = t1_render_cases(chk, tier)
    cli = gen_cli_tasks(chk, tier)
    cli += gen_git_tasks(chk, tier)          # drawn last: the cases above are the same as before this family existed
    cli += gen_merge_cli_tasks(chk, tier)    # drawn after the git family for the same reason
    btasks, bcli = gen_boundary_tasks(chk, tier)      # drawn last of all and appended behind every earlier family: tasks[:40], the samples
    tasks += btasks; cli += bcli                      # and all earlier random draws are as they were before this family existed
    cli += gen_stream_encoding_tasks(chk, tier)       # drawn after everything else, appended last: every earlier task and draw is unchanged
    results = core.run_impl(tasks + t1cases + cli, shards=14, script='c16_runner.py')
    res_main = results[:len(tasks)]; res_t1 = results[len(tasks):len(tasks) + len(t1cases)]; res_cli = results[len(tasks) + len(t1cases):]

    # ---------------- T2: the property on the implementation
    hist = {}; nrender = 0; nontrivial = set(); found = {}
    witness_seen = {'colorwords-marker-assert': False, 'show-nocolor-ansi': False}
    for t, res in zip(tasks + t1cases, res_main + res_t1):
        key = '%s:%s' % (t['op'], t.get('src', ''))
        hist[key] = hist.get(key, 0) + 1
        if 'task_err' in res:
            chk.broken_obligation('runner:' + res['task_err'], res.get('msg', '')[-600:]); continue
        if 'merge_err' in res:
            hist['merge-raised(not C16)'] = hist.get('merge-raised(not C16)', 0) + 1
            # an error of the runner itself (not of nbdime's merge) must not pass as "not our subject"
            if res['merge_err'] in ('AttributeError', 'NameError', 'ImportError') and ("'Args'" in res.get('msg', '') or 'runner' in res.get('msg', '')):
                chk.broken_obligation('harness:decisions-runner-error', res.get('msg', '')[:300])
            continue
        for ci in range(len(t['configs'])):
            nrender += 1
            sig, detail = judge_render(t, res, ci)
            rec = res['recs'][ci]
            if 'o' in rec and (t['op'] != 'diff' or res.get('diff')):
                nontrivial.add(hashlib.sha1((json.dumps(t['configs'][ci], sort_keys=True) + res['outs'][rec['o']]).encode()).hexdigest())
            if sig:
                if t.get('src', '').startswith('witness') and sig in witness_seen: witness_seen[sig] = True
                if sig not in found: found[sig] = (t, ci, detail)
                case = {k: t[k] for k in ('op', 'nb', 'a', 'b', 'base', 'local', 'remote', 'strategy') if k in t}
                case['configs'] = [t['configs'][ci]]
                chk.violation(sig, case, detail)
    ncli = 0; ngit = 0; nmerge = 0; nenc = 0
    for t, res in zip(cli, res_cli):
        if 'task_err' in res:
            chk.broken_obligation('runner-cli:' + res['task_err'], res.get('msg', '')[-600:]); continue
        ncli += len(res.get('recs', []))
        if t['op'] == 'cli-enc':
            recs = res.get('recs', [])
            nenc += len(recs); hist['cli-enc:' + t['app']] = hist.get('cli-enc:' + t['app'], 0) + len(recs)
            for run, rec in zip(t['runs'], recs):
                kk = 'cli-enc:streams:' + run['env']['kind']; hist[kk] = hist.get(kk, 0) + 1
                try: established = codecs.lookup(rec.get('stream', '?').split()[0]).name == codecs.lookup(run['env']['codec']).name
                except Exception: established = False
                if not established:
                    chk.broken_obligation('harness:stream-encoding-not-established', {'environment': run['env'], 'python_reports': rec.get('stream')})
                if rec.get('out') or rec.get('err'):
                    nontrivial.add(hashlib.sha1((json.dumps([run['argv'], run['env']['name']]) + rec.get('out', '') + rec.get('err', '')).encode('utf8', 'replace')).hexdigest())
            for sig, detail in judge_cli_enc(t, res):
                case = {kk: t[kk] for kk in ('op', 'app', 'nbs', 'names', 'path', 'ascii_json', 'repertoire') if kk in t}
                case['runs'] = [t['runs'][detail['k']]]
                chk.violation(sig, case, detail)
            continue
        if t['app'] == 'nbdiff-git':
            ngit += len(res.get('recs', [])); hist['cli:cli-git'] = hist.get('cli:cli-git', 0) + 1
        if t.get('src') == 'cli-boundary' and t['app'] != 'nbmerge': hist['cli:cli-boundary:' + t['app']] = hist.get('cli:cli-boundary:' + t['app'], 0) + 1
        if t['app'] == 'nbmerge':
            nmerge += len(res.get('recs', [])); hist['cli:cli-merge:' + t['pattern']] = hist.get('cli:cli-merge:' + t['pattern'], 0) + 1
            nontrivial.update(hashlib.sha1((json.dumps(a) + rec.get('out', '') + rec['log']).encode()).hexdigest() for a, rec in zip(t['argvs'], res.get('recs', [])) if rec.get('log'))
            nontrivial.update(hashlib.sha1((json.dumps(a) + rec['out']).encode()).hexdigest() for a, rec in zip(t['argvs'], res.get('recs', [])) if rec.get('out'))
        for sig, detail in judge_cli(t, res):
            if t['app'] == 'nbdiff-git':
                k = detail['k']
                chk.violation(sig, {'op': 'cli', 'app': t['app'], 'nbs': [], 'commits': t['commits'], 'worktree': t['worktree'], 'plans': [t['plans'][k]],
                                    'argvs': [t['argvs'][k]], 'tools': [t['tools'][k]]}, detail)
                continue
            if t['app'] == 'nbmerge':
                k = detail['k']
                chk.violation(sig, {'op': 'cli', 'app': 'nbmerge', 'pattern': t['pattern'], 'nbs': t['nbs'], 'argvs': [t['argvs'][k]], 'tools': [t['tools'][k]]}, detail)
                continue
            chk.violation(sig, {'op': 'cli', 'app': t['app'], 'nbs': t['nbs'], 'argvs': [detail['argv']], 'tools': [[True, True]]}, detail)

    # ---------------- T1: model against implementation, evaluated by coqc
    lines = [PRELUDE]
    # (a) facts that decide which half of the *_decided theorems holds
    lines.append('Eval vm_compute in (highlight_respects_nocolor, strip_safe_check).')
    # (b) filter on path strings
    paths = list(ADVERSARIAL_PATHS); seenp = set(paths)
    for t, res in zip(t1cases + tasks[:40], res_t1 + res_main[:40]):
        if t['op'] == 'diff' and res.get('diff'):
            for loc, _ in diff_leaves(t['a'], res['diff']):
                for n in range(1, len(loc) + 1):
                    p = loc_str(loc[:n])
                    if p not in seenp and ESC not in p and len(paths) < 400: seenp.add(p); paths.append(p)
    fres = core.run_impl([{'op': 'filter', 'paths': paths, 'masks': list(range(64))}, {'op': 'constants'}], shards=1, script='c16_runner.py')
    t1 = 0; t1_mismatch = 0
    if 'rows' not in fres[0] or 'constants' not in fres[1]:
        chk.broken_obligation('runner:filter', json.dumps(fres)[:600])
        frows = None
    else:
        frows = fres[0]['rows']      # [mask][path]
        exp = ['[' + '; '.join(cbool(frows[m][i]) for m in range(64)) + ']' for i in range(len(paths))]
        lines.append('Definition fpaths : list (pystr * list bool) := [%s].' % ';\n '.join('(%s, %s)' % (cstr(p), e) for p, e in zip(paths, exp)))
        lines.append('Eval vm_compute in (mism 0 (map (fun pe => list_eqb Bool.eqb (row (fst pe)) (snd pe)) fpaths)).')
        cs = fres[1]['constants']
        lines.append('Eval vm_compute in (list_eqb str_eqb col_nocolor [%s] && list_eqb str_eqb col_color [%s]).' % (
            '; '.join(cstr(x) for x in cs['False']), '; '.join(cstr(x) for x in cs['True'])))
    # (c) render skeleton on valid diffs
    rcases = []
    for t, res in zip(t1cases, res_t1):
        if 'diff' not in res or not res['diff']: continue
        if has_marker_line(t['a'], t['b']): continue
        for ci, c in enumerate(t['configs']):
            rec = res['recs'][ci]
            if 'o' not in rec: continue     # a failing render is T2's business
            acts, tl = impl_summary(res['outs'][rec['o']], rec['tools'])
            rcases.append((t, ci, acts, tl, res['diff']))
    defs = []; seen_nb = {}
    for i, (t, ci, acts, tl, d) in enumerate(rcases):
        key = id(t)
        if key not in seen_nb:
            seen_nb[key] = len(seen_nb)
            defs.append('Definition nb%d : json := %s.' % (seen_nb[key], cjson(t['a'])))
            defs.append('Definition df%d : list dentry := %s.' % (seen_nb[key], cdiff(d)))
        k = seen_nb[key]
        ea = '[' + '; '.join('(%s, %d)' % (cstr(p), n) for p, n in acts) + ']'
        et = '[' + '; '.join('[' + '; '.join(cstr(x) for x in argv) + ']' for argv in tl) + ']'
        defs.append('Definition r%d : bool := same (match render_notebook_diff 40 %s (fun _ => 0) nb%d df%d with Ok (EvHeader :: b) => Ok b | x => x end) %s %s.'
                    % (i, ccfg(t['configs'][ci]), k, k, ea, et))
    lines += defs
    lines.append('Eval vm_compute in (mism 0 [%s]).' % '; '.join('r%d' % i for i in range(len(rcases))))
    rc, out = run_coq_cases('\n'.join(lines) + '\n')
    facts = None
    if rc != 0:
        chk.broken_obligation('correspondence:cases-file-does-not-evaluate', out[-1500:])
    else:
        ev = parse_evals(out)
        want = 2 + (2 if frows is not None else 0)
        if len(ev) != want:
            chk.broken_obligation('correspondence:unexpected-coqc-output', out[-800:])
        else:
            facts = tuple(x.strip() == 'true' for x in ev[0].strip('() ').split(','))
            if frows is not None:
                bad = parse_natlist(ev[1]); t1 += len(paths) * 64
                for i in bad[:3]:
                    t1_mismatch += 1
                    chk.broken_obligation('correspondence:should_ignore_path', {'path': paths[i], 'impl_row_by_mask': [frows[m][i] for m in range(64)]})
                t1 += 1
                if ev[2].strip() != 'true':
                    t1_mismatch += 1
                    chk.broken_obligation('correspondence:colour-constants', fres[1]['constants'])
            bad = parse_natlist(ev[-1]); t1 += len(rcases)
            for i in bad[:3]:
                t, ci, acts, tl, d = rcases[i]
                t1_mismatch += 1
                chk.broken_obligation('correspondence:render-skeleton', {'a': t['a'], 'diff': d, 'config': t['configs'][ci], 'impl_headers': acts, 'impl_tools': tl})
            t1_mismatch += max(0, len(bad) - 3)

    # ---------------- refuted theorems must still be witnessed by the implementation, proved-clean ones must not be
    if facts is not None:
        hl_clean, strip_safe = facts
        if not hl_clean and not witness_seen['show-nocolor-ansi']:
            chk.broken_obligation('stale-refutation:show_nocolor_refuted', 'the model says pretty_print_source highlights with use_color=False but the implementation printed no ANSI escape on the witness notebook')
        if hl_clean and witness_seen['show-nocolor-ansi']:
            chk.broken_obligation('model-misses-defect:show_nocolor', 'the generated condition switches highlighting off without colour, yet the implementation printed ANSI escapes on the witness')
        if not strip_safe and not witness_seen['colorwords-marker-assert']:
            chk.broken_obligation('stale-refutation:tool_assert_refuted', 'the model says the No-newline assertion can fire in word-diff mode but the implementation rendered the witness pair without failing')
        if strip_safe and witness_seen['colorwords-marker-assert']:
            chk.broken_obligation('model-misses-defect:tool_assert', 'strip_safe_check holds, yet the implementation raised on the witness pair')
        chk.notes.append('source facts this run: highlight_respects_nocolor=%s strip_safe_check=%s' % facts)

    # ---------------- evidence
    chk.cov.update({
        'evaluations': nrender + ncli, 'distinct_nontrivial': len(nontrivial),
        'rule': 'one evaluation = one rendering (notebook / notebook diff from nbdime.diff_notebooks / decision list from decide_notebook_merge, or one nbdiff/nbshow/git-nbdiffdriver invocation, nbdiff also between two revisions of a scratch git history with several changed notebooks, or one nbmerge --decisions invocation over base/local/remote files any of which may be the null file) under one configuration; '
                'boundary family (src boundary / boundary-exotic / cli-boundary): notebook pairs and triples that differ in entries of free-form dictionaries (notebook, cell and output metadata and dictionaries nested in them, kernelspec / language_info extras, MIME bundles of outputs and attachments) or in a string field of the schema, where the entry appears, disappears, changes type or changes value and one side is a boundary value of its type (empty / blank / newline-only string, 0, huge number, boolean, null, empty or nearly empty container), rendered as diff, decision list, notebook and through nbdiff / diff driver / nbshow / nbmerge --decisions; '
                'stream-encoding family (src cli-enc): nbdiff / nbshow (file and stdin) / nbmerge --decisions / nbmerge to stdout / git diff driver / git merge driver, each as a process of its own whose standard streams are ASCII (LC_ALL / LC_CTYPE / LANG = C or POSIX or unset, PYTHONUTF8=0, PYTHONCOERCECLOCALE=0), UTF-8 (four ways, controls) or Latin-1 / cp1252 / KOI8-R / ASCII through PYTHONIOENCODING with a replacing handler (strict handler only on text the codec can represent), stdout a pipe or a file, on notebooks with non-ASCII file names whose sources, outputs, inserted / deleted cells, metadata values and keys, tags and attachment names hold text outside the encoding (Latin-1, cp1252, BMP, combining, astral), x renderer x colour x a few ignore flags; one evaluation = one process; '
                'configurations: all 64 ignore subsets x colour x colour-words x {git, diff, difflib} in full on a few cases and with the 12 colour/renderer combinations in rotation on the others, all 16 (use_git,use_diff,has_git,has_diff) settings on one case; '
                'non-trivial = rendering of a non-empty diff / notebook / decision list that produced output, distinct by sha1 of (configuration, output text)',
        'input_distribution': hist, 'traces_validated_against_impl': t1, 'model_impl_mismatches': t1_mismatch,
        'filter_paths_compared': len(paths), 'render_skeleton_cases_compared': len(rcases), 'cli_invocations': ncli, 'cli_git_revision_invocations': ngit, 'cli_nbmerge_decisions_invocations': nmerge, 'cli_stream_encoding_invocations': nenc,
        'exhaustive': False,
        'explanation': 'proved: filter vs categories, colour tables / command lines clean without colour, renderer selection, dispatch skeleton total on well-formed diffs (premises: string patch total, tool contract), silent on empty, speaks on visible leaves; explored only: value formatters, pprint, pygments, output of git/diff',
    })
    for t in (tasks[0], tasks[2] if len(tasks) > 2 else tasks[0], t1cases[0]):
        s = {k: t[k] for k in ('op', 'a', 'b', 'nb') if k in t}; s['configs'] = t['configs'][:2]
        chk.sample(s)
    return chk.finish('proof', ASSUME)

def replay(path):
    body = json.load(open(path))
    case = body['case']
    chk = core.Check(PROP, 'quick', 0)
    res = core.run_impl([case], shards=1, script='c16_runner.py')[0]
    if case.get('op') in ('cli', 'cli-enc'):
        sigs = judge_cli(case, res)
    else:
        if 'recs' not in res:
            print(json.dumps(res)[:2000]); print('VIOLATION property=%s replay=%s' % (PROP, path)); return 1
        sigs = [judge_render(case, res, ci) for ci in range(len(case['configs']))]
        sigs = [(s, d) for s, d in sigs if s]
    print(json.dumps({'signatures': [s for s, _ in sigs], 'details': [d for _, d in sigs][:3]}, indent=1, default=str)[:3000])
    if sigs:
        print('VIOLATION property=%s replay=%s' % (PROP, path)); return 1
    return 0
