"""C02 -- generic JSON diff/patch round trip is exact, including value types."""
import os, sys, json, itertools, copy
import core, genjson, pyspec, wire

PROP = 'C02'
ASSUME = [
    'difflib.SequenceMatcher(None,a,b,autojunk=False).get_opcodes() returns a valid edit script (hypothesis opcodes_valid of the theorems; validated on every recorded call)',
    'compare_strings_approximate is a deterministic function of its two arguments (oracle with no other hypothesis)',
    'str.splitlines(True) is modelled by Base/PyStr.v (compared on every string of every case)',
    'copy.deepcopy returns an equal value; dict iteration order is unobservable through canonical (sorted-key) serialisation',
]

def opcodes_valid(a, b, ops):
    """what the theorems assume about difflib: a contiguous cover of both strings, equal blocks equal"""
    ia = ib = 0
    for tag, a0, a1, b0, b1 in ops:
        if a0 != ia or b0 != ib or a1 < a0 or b1 < b0: return False
        if tag == 0 and a[a0:a1] != b[b0:b1]: return False
        if tag == 0 and (a1 - a0) != (b1 - b0): return False
        if tag == 2 and a1 != a0: return False
        if tag == 3 and b1 != b0: return False
        ia, ib = a1, b1
    return ia == len(a) and ib == len(b)

def judge_reuse(res, d, b):
    """the in-memory diff applied twice (fresh base each time) must give the target both times and be unchanged afterwards"""
    ru = res.get('reuse')
    if not ru: return None, None
    if 'err' in ru:
        return 'in-memory-diff-reuse-raises:' + ru['err'].get('err', '?'), {'msg': ru['err'].get('msg')}
    if not pyspec.strict_eq(ru['first'], b):
        return 'in-memory-diff-first-application-mismatch', {'diff': d}
    if not pyspec.strict_eq(ru['second'], b):
        return 'diff-not-reusable:second-application-differs', {'diff': d, 'diff_after_use': ru['diff_after']}
    if ru['diff_after'] != d:
        return 'patch-modifies-the-diff', {'diff': d, 'diff_after_use': ru['diff_after']}
    return None, None

def judge(chk, case, res):
    """Evaluate the property on one implementation result.  Returns signature or None."""
    a, b = case['a'], case['b']
    if 'err' in res:
        sig = 'diff-raises:' + res['err']
        if res['err'] == 'RuntimeError' and 'Found predicate' in res.get('msg', ''):
            sig = 'predicate-guard-fires-on-heterogeneous-list'
        return sig, {'error': res['err'], 'msg': res.get('msg')}
    d = res['ok']
    probs = pyspec.wf_problems(a, d)
    if probs:
        return 'diff-not-wellformed', {'diff': d, 'problems': probs[:5]}
    pr = res['patched']
    conf = pyspec.py_eq_confusions_deep(a, b)
    if 'err' in pr:
        return 'patch-raises:' + pr['err'], {'diff': d, 'msg': pr.get('msg')}
    if not pyspec.strict_eq(pr['ok'], b):
        if pr['ok'] == b and conf:
            return 'atom-type-confusion', {'diff': d, 'patched': pr['ok'], 'confusions': conf[:5]}
        return 'roundtrip-mismatch', {'diff': d, 'patched': pr['ok']}
    try:
        sp = pyspec.spec_patch(a, d)
    except Exception as e:
        return 'spec-patch-fails', {'diff': d, 'error': repr(e)}
    if not pyspec.strict_eq(sp, b):
        return 'documented-semantics-disagrees', {'diff': d, 'spec_patched': sp}
    if d == [] and not pyspec.strict_eq(a, b):
        return 'empty-diff-for-different-documents', {'diff': d}
    return judge_reuse(res, d, b)

def gen_cases(chk, tier):
    r = chk.rng
    cases = []
    # corpus of minimised failures first
    cdir = os.path.join(core.VERIF, 'corpus', PROP)
    if os.path.isdir(cdir):
        for f in sorted(os.listdir(cdir)):
            c = json.load(open(os.path.join(cdir, f)))
            cases.append({'a': c['a'], 'b': c['b'], 'src': 'corpus:' + f})
    # exhaustive small scope
    vals = [v for v in genjson.small_values(1)]
    conts = [v for v in vals if isinstance(v, (list, dict))]
    ex = []
    for a in conts:
        for b in conts:
            if type(a) is type(b): ex.append((a, b))
    deep = [v for v in genjson.small_values(2) if isinstance(v, (list, dict))]
    strs = list(genjson.small_strings(3 if tier == 'quick' else 4))
    spairs = [(x, y) for x in strs for y in strs]
    if tier == 'quick':
        r.shuffle(ex); ex = ex[:1500]
        dp = [(r.choice(deep), r.choice(deep)) for _ in range(1500)]
        dp = [(x, y) for x, y in dp if type(x) is type(y)]
        r.shuffle(spairs); spairs = spairs[:1500]
        nrand = 600
    else:
        dp = [(r.choice(deep), r.choice(deep)) for _ in range(40000)]
        dp = [(x, y) for x, y in dp if type(x) is type(y)]
        nrand = 20000
    for a, b in ex: cases.append({'a': a, 'b': b, 'src': 'exh1'})
    for a, b in dp: cases.append({'a': a, 'b': b, 'src': 'exh2'})
    for a, b in spairs: cases.append({'a': a, 'b': b, 'src': 'str'})
    for _ in range(nrand):
        a, b = genjson.gen_pair(r, depth=r.choice([2, 3, 3, 4]))
        cases.append({'a': a, 'b': b, 'src': 'rand'})
    return cases

def run(tier, seed):
    chk = core.Check(PROP, tier, seed)
    b = core.build()
    proofs_ok = chk.proof_obligations('Props/C02.v', b)
    cases = gen_cases(chk, tier)
    tasks = [{'op': 'diff_patch', 'a': c['a'], 'b': c['b']} for c in cases]
    results = core.run_impl(tasks, shards=14)
    # T2: judge the property on the implementation
    nontrivial = set(); hist = {}; nviol = 0
    opc_checked = 0
    for c, res in zip(cases, results):
        hist[c['src']] = hist.get(c['src'], 0) + 1
        sig, detail = judge(chk, c, res)
        if 'ok' in res and res['ok']:
            nontrivial.add(pyspec.canon([c['a'], c['b']]))
        for a_, b_, ops in res.get('oracles', {}).get('opcodes', []):
            opc_checked += 1
            if not opcodes_valid(a_, b_, ops):
                chk.broken_obligation('assumption:opcodes_valid', {'a': a_, 'b': b_, 'opcodes': ops})
        if sig:
            if chk.violation(sig, {'a': c['a'], 'b': c['b']}, detail): nviol += 1
    # T1: model vs implementation, and the proved checker on the implementation's diff
    mismatches = 0; t1 = 0
    if getattr(b, 'model_ok', False):
        lines = []; idx = []
        for i, (c, res) in enumerate(zip(cases, results)):
            if 'oracles' not in res and 'err' not in res: continue
            lines.append(('diff', [c['a'], c['b'], res.get('oracles', {})])); idx.append((i, 'diff'))
            if 'ok' in res:
                lines.append(('check', [c['a'], c['b'], res['ok']])); idx.append((i, 'check'))
        outs = wire.run_model(lines)
        for (i, kind), (val, misses) in zip(idx, outs):
            c, res = cases[i], results[i]
            if kind == 'diff':
                t1 += 1
                if 'ok' in res:
                    same = isinstance(val, dict) and 'ok' in val and pyspec.strict_eq(val['ok'], res['ok'])
                else:
                    same = isinstance(val, dict) and val.get('err') == res['err']
                    # a finding already known on the implementation side is not re-reported as model drift
                if not same:
                    known = any(s for s in chk.known_hits) and 'err' in res
                    mismatches += 1
                    if mismatches <= 3:
                        chk.broken_obligation('correspondence:diff', {'a': c['a'], 'b': c['b'], 'impl': res.get('ok', res.get('err')), 'model': val, 'oracle_misses': misses})
            else:
                sig, _ = judge(chk, c, res)
                py_ok = sig is None
                coq_ok = isinstance(val, list) and val[0] is True and val[1] is True
                if py_ok != coq_ok and not (sig in ('atom-type-confusion',) and coq_ok is False):
                    chk.broken_obligation('correspondence:checker', {'a': c['a'], 'b': c['b'], 'diff': res['ok'], 'python_verdict': sig, 'coq_checker': val[:2] if isinstance(val, list) else val})
    else:
        chk.broken_obligation('model-build', b.log[-800:])
    chk.cov.update({
        'evaluations': len(cases), 'distinct_nontrivial': len(nontrivial),
        'rule': 'document pairs of equal container kind: corpus, exhaustive small scope (atoms null/true/1/1.0/"a", containers of size<=2, depth<=2; strings over {a,b,LF,CR,U+2028}), random edit scripts; non-trivial = non-empty diff, distinct by canonical JSON of the pair',
        'input_distribution': hist, 'traces_validated_against_impl': t1, 'model_impl_mismatches': mismatches,
        'opcode_tables_validated': opc_checked, 'exhaustive': False,
    })
    for c in cases[:2] + cases[-2:]: chk.sample({'a': c['a'], 'b': c['b']})
    return chk.finish('proof', ASSUME)

def replay(path):
    body = json.load(open(path))
    case = body['case']
    res = core.run_impl([{'op': 'diff_patch', 'a': case['a'], 'b': case['b']}])[0]
    chk = core.Check(PROP, 'quick', 0)
    sig, detail = judge(chk, case, res)
    print(json.dumps({'signature': sig, 'detail': detail, 'impl': res.get('ok', res.get('err'))}, indent=1, default=str)[:3000])
    if sig:
        print('VIOLATION property=%s replay=%s' % (PROP, path)); return 1
    return 0
