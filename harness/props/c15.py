"""C15 -- browser-side (TypeScript) patch and decision application agree with the Python side.

T2 (the property itself, on the real code): every (base, diff) produced by the Python differ and every
(base, decisions) produced by the Python merger under the web tool's strategy is run through the Python routine and
through the unmodified TypeScript sources (Node >= 22.6); the canonical JSON of the two results must be equal and the
TypeScript side must not throw.  T1 (model tie): the Gallina models of both patchers and both line splitters are
evaluated on the same inputs (vm_compute under coqc) and must reproduce the implementations' results exactly."""
import os, sys, json, copy, itertools
import core, genjson, gennb, pyspec
import c15_node, c15_coq

PROP = 'C15'
EXOTIC = [chr(c) for c in (0x0b, 0x0c, 0x1c, 0x1d, 0x1e, 0x85, 0x2028, 0x2029)]
EXOTIC_SET = set(EXOTIC)
SAFE = 2 ** 53
ASSUME = [
    'Node >= 22.6 module.stripTypeScriptTypes executes the TypeScript sources faithfully; the import-list filter of harness/c15_loader.mjs and the two package stubs (@lumino/coreutils JSONExt.deepCopy, json-stable-stringify) are trusted',
    'JavaScript numbers are IEEE doubles: integral floats and integers are not distinguished and |n| >= 2^53 is outside the compared space (inputs are normalised before either side sees them)',
    'JavaScript strings are UTF-16: the models work on code-unit lists, equal to code-point lists for BMP text; astral text is explored by the differential run only',
    'object key order is not observable (canonical, sorted-key JSON on both sides)',
    'the key "__proto__" is inside the generated space and is compared implementation against implementation (the node runner serialises own properties only, through defineProperty, so an own "__proto__" key of a result is kept); the Gallina model of the TypeScript patcher (Ts/TsPatch.v) has no prototype chain and treats it as an ordinary key, so cases containing that key are left out of the TypeScript model-vs-implementation comparison and the theorems of Props/C15.v speak about documents without it; the disagreements it causes are the known findings proto-key:*; the @lumino/coreutils stub copies objects as lumino does (for-in, result[key] = copy)',
    'str.splitlines(True) is modelled by Base/PyStr.v and String.prototype.match(/^.*(\\r\\n|\\r|\\n|$)/gm) by Ts/TsSplit.v (both compared with the real functions on every string of the split corpus)',
    'decision application (applyDecisions vs apply_decisions) is compared differentially only; there is no Gallina model of it yet',
]

# ------------------------------------------------------------------ helpers
def norm_numbers(v):
    """make every number survive a trip through JavaScript unchanged"""
    if isinstance(v, bool) or v is None or isinstance(v, str): return v
    if isinstance(v, int): return v if abs(v) < SAFE else v % 1000
    if isinstance(v, float):
        if v != v or v in (float('inf'), float('-inf')): return 0
        if abs(v) >= SAFE: return 0.5
        if v == int(v): return int(v)
        return v
    if isinstance(v, list): return [norm_numbers(x) for x in v]
    if isinstance(v, dict): return {k: norm_numbers(x) for k, x in v.items()}
    return v

def canon(v):
    return json.dumps(norm_numbers(v), sort_keys=True, ensure_ascii=True)

def strings_of(v, out=None):
    if out is None: out = []
    if isinstance(v, str): out.append(v)
    elif isinstance(v, list):
        for x in v: strings_of(x, out)
    elif isinstance(v, dict):
        for k, x in v.items(): out.append(k); strings_of(x, out)
    return out

def has_exotic(v): return any(c in EXOTIC_SET for s in strings_of(v) for c in s)
def has_astral(v): return any(ord(c) > 0xFFFF for s in strings_of(v) for c in s)

LS_PS = chr(0x2028) + chr(0x2029)
def js_split(s):
    """independent reading of /^.*(\\r\\n|\\r|\\n|$)/gm (used only to CLASSIFY a disagreement, never to decide one)"""
    out = []; cur = ''; i = 0; n = len(s)
    while i < n:
        c = s[i]
        if c == '\r' and i + 1 < n and s[i + 1] == '\n': out.append(cur + '\r\n'); cur = ''; i += 2; continue
        if c in '\r\n': out.append(cur + c); cur = ''; i += 1; continue
        if c in LS_PS: out.append(cur); cur = ''; i += 1; continue
        cur += c; i += 1
    out.append(cur)
    return out

def utf16(s):
    b = s.encode('utf-16-le', 'surrogatepass')
    return [int.from_bytes(b[i:i + 2], 'little') for i in range(0, len(b), 2)]
def from_utf16(u):
    return b''.join(x.to_bytes(2, 'little') for x in u).decode('utf-16-le', 'surrogatepass')

def predict_ts_string(s, d):
    """what a patcher using JavaScript's line table and UTF-16 offsets does with the line diff d:
    ('ok', string) | ('throw', 'RangeError') | None when the diff is outside the plain forms"""
    try:
        lines = [utf16(l) for l in js_split(s)]
        ltc = [0]
        for l in lines: ltc.append(ltc[-1] + len(l))
        def valid(n, e):
            k = e['key']
            if e['op'] == 'addrange': return 0 <= k <= n
            if e['op'] == 'removerange': return 0 <= k < n and k + e['length'] <= n
            if e['op'] == 'patch': return 0 <= k < n
            return None
        ops = []
        for e in d:
            v = valid(len(lines), e)
            if v is None: return None
            if not v: return ('throw', 'RangeError')
            off = ltc[e['key']]
            if e['op'] == 'patch':
                for p in e['diff']:
                    v = valid(len(lines[e['key']]), p)
                    if v is None or p['op'] == 'patch': return None
                    if not v: return ('throw', 'RangeError')
                    q = dict(p); q['key'] = p['key'] + off; ops.append(q)
            elif e['op'] == 'addrange':
                ops.append({'op': 'addrange', 'key': off, 'valuelist': ''.join(e['valuelist'])})
            else:
                ops.append({'op': 'removerange', 'key': off, 'length': ltc[e['key'] + e['length']] - off})
        ops.sort(key=lambda o: o['key'])
        base = utf16(s); take = 0; out = []
        for o in ops:
            out += base[take:o['key']] if o['key'] > take else []
            if o['op'] == 'addrange': out += utf16(o['valuelist']); skip = 0
            else: skip = o['length']
            take = max(take, o['key'] + skip)
        out += base[take:]
        return ('ok', from_utf16(out))
    except Exception:
        return None

def u16(v):
    """the same JSON value with every string re-read as its UTF-16 code units (what the TypeScript model works on)"""
    if isinstance(v, str): return ''.join(chr(x) for x in utf16(v))
    if isinstance(v, list): return [u16(x) for x in v]
    if isinstance(v, dict): return {u16(k): u16(x) for k, x in v.items()}
    return v

def leaves(base, diff, path=()):
    """string-level (path, base, diff) sub-cases reached through patch ops"""
    out = []
    if isinstance(base, str):
        return [(path, base, diff)]
    for e in diff or []:
        if e.get('op') == 'patch':
            k = e['key']
            try: sub = base[k]
            except Exception: continue
            out += leaves(sub, e['diff'], path + (k,))
    return out

def same(py, ts):
    return 'ok' in py and 'ok' in ts and canon(py['ok']) == canon(ts['ok'])

def classify_string(s, d, py, ts):
    """signature of a minimal (string-level) disagreement"""
    pred = predict_ts_string(s, d)
    explained = pred is not None and (('ok' in ts and pred == ('ok', ts['ok'])) or ('err' in ts and pred == ('throw', ts['err'])))
    if has_exotic(s) and explained:
        return 'ts-string-patch-differs:base-has-line-separator-js-splits-differently'
    if has_astral(s) and not has_exotic(s) and explained:
        return 'ts-string-patch-differs:astral-code-point-before-char-level-edit'
    if 'err' in ts: return 'ts-string-patch-throws:' + ts['err']
    return 'ts-string-patch-differs:other'

# ------------------------------------------------------------------ generators
def _inline_edit(r, line):
    """a small change INSIDE a line (the line stays similar to itself, so the merger recurses into it and emits a
    decision on .../source/<line> that carries a character-level diff)"""
    body = line.rstrip('\r\n'); tail = line[len(body):]
    if not body: return 'v' + tail
    c = r.random()
    if c < 0.3:    # append just before the line end
        new = body + r.choice([' + 1', '  # note', ')', '_2', ' '])
    elif c < 0.5:  # prepend
        new = r.choice(['# ', '    ', '_', '(']) + body
    elif c < 0.75: # insert in the middle
        j = r.randint(1, max(1, len(body) - 1)); new = body[:j] + r.choice(['x', '_v', '0', ' ', 'E' + chr(0xe9)]) + body[j:]
    elif c < 0.9:  # replace one character
        j = r.randrange(len(body)); new = body[:j] + r.choice(['X', 'q', '*', '7']) + body[j + 1:]
    else:          # drop one character
        j = r.randrange(len(body)); new = body[:j] + body[j + 1:]
    if new == body: new = body + '!'
    return new + tail

def gen_inline_vs_lines(r, n):
    """three-way merges in which, inside ONE multi-line string (a cell source), one side edits inside a line while the
    other side adds / removes WHOLE lines at, above or (control) below that line.  Both changes are unconflicted, so the
    server sends a decision on .../source/<line> (character-level diff) AND a decision on .../source (line-level diff)
    for the same string; the deeper one comes first although its key may be the larger.  The browser has to put the
    flattened pieces back into key order before patching the string.
    Variation: cell kind, position of the cell among ordinary generated cells, number of lines, which line is edited,
    kind of in-line edit, kind / size / position of the whole-line change, several in-line edits, a second whole-line
    change below, last line with or without newline, which side does what."""
    out = []
    for t in range(n):
        nb = gennb.gen_notebook(r, ncells=r.choice([1, 1, 2, 3, 4]), rich=False)
        ci = r.randrange(len(nb['cells']))
        cell = nb['cells'][ci]
        kind = cell['cell_type']
        pool = [l for l in gennb._pool(kind) if len(l) >= 4]
        nl = r.choice([2, 3, 4, 4, 5, 6, 8])
        lines = [l + '\n' for l in r.sample(pool, min(nl, len(pool)))]      # pairwise distinct lines: unambiguous alignment
        nl = len(lines)
        if r.random() < 0.25: lines[-1] = lines[-1][:-1]
        fresh = [l for l in pool if l + '\n' not in lines and l not in lines]
        # the in-line side
        j = r.randrange(nl) if t % 4 else nl - 1          # every fourth case: the last line, everything else is above it
        edited = list(lines); edited[j] = _inline_edit(r, lines[j])
        if nl > 2 and r.random() < 0.25:
            j2 = r.choice([x for x in range(nl) if x != j]); edited[j2] = _inline_edit(r, lines[j2])
        # the whole-line side
        whole = list(lines)
        mode = t % 5      # 0: insert above, 1: insert directly before the edited line, 2: delete above, 3: mixed, 4: control (below)
        def ins(at, k):
            for l in reversed(r.sample(fresh, min(k, len(fresh)))): whole.insert(at, l + '\n')
        if mode == 0: ins(r.randint(0, j), r.choice([1, 1, 2, 3]))
        elif mode == 1: ins(j, r.choice([1, 2]))
        elif mode == 2:
            if j == 0: ins(0, 1)
            else:
                a = r.randrange(j); k = r.randint(1, min(2, j - a))
                if a + k < j or r.random() < 0.5: del whole[a:a + k]        # not touching / touching the edited line
                else: del whole[a:a + 1]
        elif mode == 3:
            if j + 1 < nl and r.random() < 0.6:                               # something below as well
                if r.random() < 0.5 and j + 2 < nl: del whole[j + 2:j + 3]
                elif whole[-1].endswith('\n'): whole.append((r.choice(fresh) if fresh else 'tail') + '\n')
            if j > 0 and r.random() < 0.5: del whole[r.randrange(j)]
            ins(r.randint(0, min(j, len(whole))) if j else 0, 1)
        else:
            if j + 1 < nl and r.random() < 0.5: del whole[r.randint(j + 1, nl - 1)]
            elif whole[-1].endswith('\n'): ins(r.randint(j + 1, nl), 1)
            else: ins(j + 1, 1) if j + 1 < nl else ins(0, 1)
        base = copy.deepcopy(nb); one = copy.deepcopy(nb); two = copy.deepcopy(nb)
        base['cells'][ci]['source'] = ''.join(lines)
        one['cells'][ci]['source'] = ''.join(edited)
        two['cells'][ci]['source'] = ''.join(whole)
        if r.random() < 0.5: one, two = two, one
        out.append(('inline-vs-lines', base, one, two))
    return out

# key names that mean something to JavaScript although they are ordinary dict keys for Python: the members of
# Object.prototype (every object "has" them through the prototype chain), members of Array / Function / String prototypes
# and of Promise-likes, global names, integer-like keys (enumerated first by Object.keys), and the field names of diff
# entries and decisions themselves.  "__proto__" (assignment to it sets the prototype instead of creating a key) is drawn now
# and then by _jskey and is forced in a fixed share of the cases (force= of _jsk_plan).
JS_OBJECT_PROTO = ['constructor', 'toString', 'toLocaleString', 'valueOf', 'hasOwnProperty', 'isPrototypeOf', 'propertyIsEnumerable',
                   '__defineGetter__', '__defineSetter__', '__lookupGetter__', '__lookupSetter__']
JS_OTHER = ['length', 'prototype', 'name', 'keys', 'push', 'splice', 'indexOf', 'map', 'slice', 'toJSON', 'then', 'call', 'apply',
            'undefined', 'null', 'NaN', 'this', '0', '1', '10', '-1', 'op', 'key', 'value', 'diff', 'valuelist', 'action', 'common_path']
ORDINARY = ['note', 'k', 'extra', 'a', 'custom']
PROTO = '__proto__'

def _jskey(r, avoid=()):
    c = r.random()
    if c < 0.04 and PROTO not in avoid: return PROTO
    pool = JS_OBJECT_PROTO if c < 0.65 else (JS_OTHER if c < 0.9 else ORDINARY)
    cand = [k for k in pool if k not in avoid] or [k for k in JS_OBJECT_PROTO + JS_OTHER + ORDINARY if k not in avoid]
    return r.choice(cand)

def _jsk_value(r, depth=2):
    """value stored under such a key: atoms, one-line and multi-line strings, lists, dicts (again with such keys)"""
    c = r.random()
    if depth <= 0 or c < 0.35: return copy.deepcopy(r.choice([None, True, False, 0, 1, 2, 1.5, '', 'Widget', 'repr', 'Notebook']))
    if c < 0.5: return ''.join(w + '\n' for w in r.sample(genjson.WORDS[:14], r.choice([2, 3, 4])))
    if c < 0.7: return [_jsk_value(r, depth - 1) for _ in range(r.choice([0, 1, 2, 3]))]
    d = {}
    for _ in range(r.choice([0, 1, 2, 3])): d[_jskey(r, d)] = _jsk_value(r, depth - 1)
    return d

def _jsk_change(r, v):
    """a different value; containers and multi-line strings stay similar (the differ recurses: op patch), atoms change
    (op replace)"""
    if isinstance(v, dict):
        v = copy.deepcopy(v); c = r.random()
        if v and c < 0.3: del v[r.choice(sorted(v))]
        elif v and c < 0.5: k = r.choice(sorted(v)); v[k] = _jsk_change(r, v[k])
        else: v[_jskey(r, v)] = _jsk_value(r, 1)
        return v
    if isinstance(v, list):
        v = copy.deepcopy(v)
        if v and r.random() < 0.3: del v[r.randrange(len(v))]
        else: v.insert(r.randint(0, len(v)), r.choice(['new', 3, {'constructor': 1}, {'k': 1}]))
        return v
    if isinstance(v, str) and '\n' in v:
        lines = v.splitlines(True); c = r.random()
        if c < 0.4: lines.insert(r.randint(0, len(lines)), 'inserted line\n')
        elif c < 0.7 and len(lines) > 1: del lines[r.randrange(len(lines))]
        else: i = r.randrange(len(lines)); lines[i] = _inline_edit(r, lines[i])
        return ''.join(lines)
    return r.choice([x for x in (None, True, 0, 1, 2.5, 'other', 'Widget2', [], {}) if canon(x) != canon(v)])

JSK_HOW = ('add', 'add', 'add', 'remove', 'replace', 'patch', 'keep', 'swap', 'multi-add', 'add+ordinary', 'add-nested')

def _jsk_plan(r, d, how=None, avoid=(), force=None):
    """prepares the dict d (of the BASE document, in place) for one change of a JavaScript-significant key and returns
    the plan [(op, key, value)] that _jsk_apply carries out on a copy of d.  force: the key name the (first) change is
    about, instead of a drawn one"""
    how = how or r.choice(JSK_HOW)
    avoid = set(avoid)
    forced = [force] if force is not None and force not in avoid else []
    def fresh():
        k = forced.pop() if forced and forced[0] not in d else _jskey(r, set(d) | avoid)
        avoid.add(k); return k
    def present(container=False):
        k = forced.pop() if forced else _jskey(r, avoid)
        avoid.add(k)
        if k not in d or (container and not isinstance(d[k], (dict, list)) and not (isinstance(d[k], str) and '\n' in d[k])):
            v = _jsk_value(r)
            while container and not (isinstance(v, (dict, list)) or (isinstance(v, str) and '\n' in v)): v = _jsk_value(r)
            d[k] = v
        return k
    if how == 'add': return [('add', fresh(), _jsk_value(r))]
    if how == 'remove': return [('remove', present(), None)]
    if how == 'replace': k = present(); return [('set', k, _jsk_change(r, 7 if isinstance(d[k], (dict, list, str)) else d[k]))]
    if how == 'patch': k = present(True); return [('set', k, _jsk_change(r, d[k]))]
    if how == 'keep':                 # control: the key is there and stays, an ordinary key is added next to it
        present(); return [('add', r.choice([k for k in ORDINARY + ['zz', 'yy'] if k not in d and k not in avoid]), _jsk_value(r, 1))]
    if how == 'swap': return [('remove', present(), None), ('add', fresh(), _jsk_value(r))]
    if how == 'multi-add': return [('add', fresh(), _jsk_value(r, 1)) for _ in range(r.choice([2, 3, 4]))]
    if how == 'add+ordinary':
        plan = [('add', fresh(), _jsk_value(r))]
        ks = sorted(k for k in d if k not in avoid and k not in ('kernelspec', 'language_info', 'tags'))
        if ks and r.random() < 0.6: k = r.choice(ks); avoid.add(k); plan.append(('set', k, _jsk_change(r, d[k])))
        else: plan.append(('add', r.choice([k for k in ORDINARY + ['zz', 'yy'] if k not in d and k not in avoid]), 1))
        return plan
    # add-nested: the key is added to a dict that sits under an ordinary or a JavaScript-significant key
    outer = r.choice(['extra', 'nested', 'constructor', 'valueOf', 'prototype'])
    if forced and r.random() < 0.5: outer = forced.pop()          # the dict sits UNDER the forced key and gains a drawn key
    while outer in avoid: outer = outer + '_'
    avoid.add(outer)
    if not isinstance(d.get(outer), dict): d[outer] = {'x': 1} if r.random() < 0.5 else {}
    inner = dict(d[outer]); inner[forced.pop() if forced and forced[0] not in inner else _jskey(r, inner)] = _jsk_value(r, 1)
    return [('set', outer, inner)]

def _jsk_apply(d, plan):
    for op, k, v in plan:
        if op == 'remove': d.pop(k, None)
        else: d[k] = copy.deepcopy(v)

def _jsk_sites(nb):
    """paths of the dicts of a notebook that may carry free keys"""
    out = [('metadata',)]
    for i, c in enumerate(nb['cells']):
        out.append(('cells', i, 'metadata'))
        for j, o in enumerate(c.get('outputs', [])):
            if o['output_type'] in ('display_data', 'execute_result'): out.append(('cells', i, 'outputs', j, 'metadata'))
    return out

def _at(v, path):
    for k in path: v = v[k]
    return v

PROTO_HOW = ('add', 'remove', 'replace', 'patch', 'keep', 'swap', 'add-nested', 'add+ordinary')
def _proto_share(i):
    """every fourth case of each kind is about the key "__proto__": added, removed, replaced, patched, present and
    untouched while another key changes, swapped, nested (in turn)"""
    if i % 4 != 3: return {}
    return {'force': PROTO, 'how': PROTO_HOW[i // 4 % len(PROTO_HOW)]}

def gen_jskeys_pairs(r, n):
    """(a, b) pairs in which a dict key whose name means something to JavaScript -- above all the members of
    Object.prototype, which `in` and plain property reads see on every object -- is added, removed, replaced, patched or
    merely present.  Half are plain JSON objects (key at top level, inside a nested dict, inside a dict in a list), half are
    notebooks (notebook / cell / output metadata).  Variation: the name, the kind of change, the value kind (atom, string,
    multi-line string, list, dict with such keys again), several keys at once, ordinary keys changing alongside."""
    out = []
    for t in range(n):
        if t % 2 == 0:
            a = genjson.gen_container(r, kind='dict', depth=2)
            shape = t // 2 % 3
            if shape == 0: holder = a; wrap = lambda x: x
            elif shape == 1:
                a = {'outer': a, 'n': 1}; holder = a['outer']; wrap = lambda x: x['outer']
            else:
                a = {'items': [{'id': 1}, a, 'tail']}; holder = a['items'][1]; wrap = lambda x: x['items'][1]
            plan = _jsk_plan(r, holder, **_proto_share(t // 2))
            b = copy.deepcopy(a); _jsk_apply(wrap(b), plan)
            out.append(('jskeys-json', 'gdiff', a, b))
        else:
            a = gennb.gen_notebook(r, ncells=r.choice([1, 1, 2, 3]), rich=False)
            sites = _jsk_sites(a)
            site = r.choice(sites[1:]) if r.random() < 0.7 else sites[0]
            plan = _jsk_plan(r, _at(a, site), **_proto_share(t // 2))
            b = copy.deepcopy(a); _jsk_apply(_at(b, site), plan)
            if r.random() < 0.3:              # something ordinary changes as well
                c = b['cells'][r.randrange(len(b['cells']))]; c['source'] = c['source'] + ('' if c['source'].endswith('\n') or not c['source'] else '\n') + 'z = 0\n'
            out.append(('jskeys-nb', 'nbdiff', a, b))
    return out

def gen_jskeys_triples(r, n):
    """three-way merges around the same keys: one side changes such a key while the other side does something ordinary
    (edits a source, or nothing), both sides change different such keys of the same dict or of different dicts, both make
    the same addition, both add the same key with different values (conflict under mergetool)."""
    out = []
    for t in range(n):
        base = gennb.gen_notebook(r, ncells=r.choice([1, 2, 2, 3]), rich=False)
        sites = _jsk_sites(base)
        s1 = r.choice(sites[1:]) if r.random() < 0.7 else sites[0]
        mode = t % 6
        rnd = t // 6              # every other round of the six modes is about the key "__proto__", the kind of change taking turns
        ps = {'force': PROTO, 'how': PROTO_HOW[(rnd // 2 + mode) % len(PROTO_HOW)]} if rnd % 2 == 1 else {}
        if mode in (0, 1):        # one side only / other side edits a source
            p1 = _jsk_plan(r, _at(base, s1), **ps); s2 = None; p2 = []
        elif mode == 2:           # different keys, same dict
            p1 = _jsk_plan(r, _at(base, s1), **ps); used = {k for _, k, _ in p1}
            s2 = s1; p2 = _jsk_plan(r, _at(base, s2), how=r.choice(['add', 'add', 'remove', 'replace', 'patch', 'multi-add']), avoid=used)
        elif mode == 3:           # different dicts
            s2 = r.choice([s for s in sites if s != s1])
            p1 = _jsk_plan(r, _at(base, s1), **ps); p2 = _jsk_plan(r, _at(base, s2))
        elif mode == 4:           # the same change on both sides
            p1 = _jsk_plan(r, _at(base, s1), **ps); s2 = s1; p2 = p1
        else:                     # same key added with different values
            k = PROTO if ps and PROTO not in _at(base, s1) else _jskey(r, _at(base, s1)); v = _jsk_value(r, 1)
            p1 = [('add', k, v)]; s2 = s1; p2 = [('add', k, _jsk_change(r, v))]
        one = copy.deepcopy(base); two = copy.deepcopy(base)
        _jsk_apply(_at(one, s1), p1)
        if s2 is not None: _jsk_apply(_at(two, s2), p2)
        if mode == 1 or r.random() < 0.2:
            c = two['cells'][r.randrange(len(two['cells']))]; c['source'] = c['source'] + ('' if c['source'].endswith('\n') or not c['source'] else '\n') + 'z = 0\n'
        if r.random() < 0.5: one, two = two, one
        out.append(('jskeys-triple', base, one, two))
    return out

# ---- conflicts the merger answers with an action that is COMPUTED FROM THE BASE VALUE (clear: replace by the cleared
# value of the base value's type; take_max: the largest of base / local / remote), with base values of every JSON type.
# The strategies table of merging/notebooks.py names such actions for /cells/*/execution_count and
# /cells/*/outputs/*/execution_count (clear, when transients are ignored: the default, also under mergetool),
# /nbformat_minor (take-max) and /cells/*/id (remove: not resolved by the merger, the conflict stays open).
BV_KINDS = ('null', 'int', 'null', 'zero', 'str', 'null', 'float', 'list', 'bool', 'null', 'dict', 'text', 'int', 'emptystr',
            'emptylist', 'emptydict', 'false')
BV_DICT = {'a': None, 'b': 1, 'c': 0.5, 'd': True, 'e': 'x', 'f': [1, 'y'], 'g': {'h': 1}, 'i': '', 'j': [], 'k': {}, 'l': False, 'm': 'p\nq\n'}

BV_FRESH = ['omega', 'sigma = 3', 'zeta()', 'theta', 'kappa.k', 'lambda_ = 0']

def _bv_value(r, kind):
    if kind == 'null': return None
    if kind == 'int': return r.choice([1, 2, 3, 7, 12, 41, 60, -1])
    if kind == 'zero': return 0
    if kind == 'float': return r.choice([0.5, 2.5, -1.25])
    if kind == 'bool': return True
    if kind == 'false': return False
    if kind == 'emptystr': return ''
    if kind == 'str': return r.choice(['7', 'In [7]', '*', 'null', ' '])
    if kind == 'text': return ''.join(w + '\n' for w in r.sample(genjson.WORDS[:14], r.choice([2, 3, 4])))
    if kind == 'emptylist': return []
    if kind == 'list': return copy.deepcopy(r.choice([[1], [1, 2, 3], [None], ['a', 'b'], [[1], {'a': 1}], [0, None, 'x', 1.5, True]]))
    if kind == 'emptydict': return {}
    ks = r.sample(sorted(BV_DICT), r.choice([1, 2, 3, 5, len(BV_DICT)]))
    return {k: copy.deepcopy(BV_DICT[k]) for k in ks}

def _bv_other(r, avoid, kinds=None):
    """a value (of any JSON type, mostly a plain execution count) different from all of avoid"""
    seen = {canon(x) for x in avoid}
    for _ in range(50):
        k = r.choice(kinds or ('int', 'int', 'int', 'int', 'int', 'null', 'zero', 'str', 'float', 'bool', 'list', 'dict', 'emptystr', 'emptylist', 'emptydict'))
        v = _bv_value(r, k)
        if canon(v) not in seen: return v
    return 1000 + r.randint(0, 99)

def _bv_similar(r, v, avoid=(), at=None):
    """a changed container / multi-line string that stays similar to v (the differ answers with op patch); at: the member
    (dict key / list index / line number) to change, so that two sides can be made to touch the SAME member"""
    seen = {canon(x) for x in avoid}
    for _ in range(20):
        w = copy.deepcopy(v)
        if isinstance(w, dict) and w:
            ks = [at] if at in w else r.sample(sorted(w), r.choice([1, 1, 2, len(w)]) if len(w) > 1 else 1)
            for k in ks: w[k] = _bv_other(r, [w[k]])
        elif isinstance(w, dict): w['n'] = _bv_other(r, [])
        elif isinstance(w, list):
            if w and (at is not None or r.random() < 0.6):
                i = at if at is not None and at < len(w) else r.randrange(len(w)); w[i] = _bv_other(r, [w[i]], kinds=('int', 'null', 'str', 'float'))
            else: w.insert(r.randint(0, len(w)), r.choice([9, 'new', None]))
        elif isinstance(w, str) and '\n' in w:
            lines = w.splitlines(True); i = at if at is not None and at < len(lines) else r.randrange(len(lines))
            c = r.random()
            if c < 0.6: lines[i] = _inline_edit(r, lines[i])
            elif c < 0.8: lines[i] = r.choice(BV_FRESH) + '\n'
            else: lines.insert(i, 'inserted line\n')
            w = ''.join(lines)
        else: return _bv_other(r, [v] + list(avoid))
        if canon(w) not in seen and canon(w) != canon(v): return w
    return _bv_other(r, [v] + list(avoid))

def _bv_member(r, v):
    """a member of a container / a line of a multi-line string, or None"""
    if isinstance(v, dict) and v: return r.choice(sorted(v))
    if isinstance(v, list) and v: return r.randrange(len(v))
    if isinstance(v, str) and '\n' in v: return r.randrange(len(v.splitlines(True)))
    return None

BV_SITES = ('cell', 'output', 'both')
BV_CONTAINERS = ('text', 'dict', 'list')

def gen_basevalue_actions(r, n):
    """three-way merges that make decide_notebook_merge emit decisions whose action is computed from the base value,
    where that base value is of every JSON type in turn: null (a cell never executed in base), 0, other ints, non-integral
    numbers, true / false, empty / one-line / multi-line strings, empty / non-empty lists and dicts.
    Sites: the execution_count of a code cell, of an execute_result output, of both (the picture after a re-run); among
    the controls also nbformat_minor (take_max; numbers and booleans only -- Python's own max() refuses the rest, so
    there is no document to compare) and the cell id (strategy remove, which the merger leaves open).
    Cases come in rounds of four:
      0  both sides set different plain counts (replace/replace: the `clear` case), base kind taking turns, null first;
      1  the same with side values of any JSON type;
      2  in turn: one side keeps the type of the base value; one side changes a container / text a little while the other
         replaces it (patch/replace); both change a container / text a little (patch/patch: the merger recurses into the
         value and meets the strategy again on its lines / members); the same with both sides changing the SAME line / member;
      3  in turn: the same change on both sides, a one-sided change (controls: no such action expected), nbformat_minor, id.
    Variation besides: position and number of cells, another code cell re-run on one side, the same new output on both
    sides, an ordinary source edit on one side, which side is local."""
    out = []
    for t in range(n):
        nb = gennb.gen_notebook(r, ncells=r.choice([1, 2, 2, 3, 4]), rich=False)
        minor = nb.get('nbformat_minor', 4)
        code = [i for i, c in enumerate(nb['cells']) if c['cell_type'] == 'code']
        if not code:
            used = {c.get('id') for c in nb['cells']}
            nb['cells'].insert(r.randint(0, len(nb['cells'])), gennb.gen_cell(r, minor, used, rich=False, kind='code'))
            code = [i for i, c in enumerate(nb['cells']) if c['cell_type'] == 'code']
        ci = r.choice(code)
        rnd, leg = t // 4, t % 4
        site = BV_SITES[(rnd + leg) % 3]
        kind = BV_KINDS[(rnd + 5 * leg) % len(BV_KINDS)]
        at = None
        if leg < 2: mode = 'both-differ'
        elif leg == 2:
            mode = ('one-keeps-type', 'similar-vs-replace', 'similar-both', 'similar-both-same-member')[rnd % 4]
            if mode != 'one-keeps-type': kind = BV_CONTAINERS[(rnd // 4 + rnd) % 3]
        else:
            mode = ('same-change', 'one-sided', 'minor', 'id')[rnd % 4]
            if mode == 'id' and 'id' not in nb['cells'][ci]: mode = 'one-sided'
            if mode in ('minor', 'id'): site = mode
        if site == 'minor': kind = ('int', 'zero', 'float', 'bool', 'false', 'int')[rnd // 4 % 6]
        bv = _bv_value(r, kind) if site != 'id' else nb['cells'][ci]['id']
        container = isinstance(bv, (dict, list)) or (isinstance(bv, str) and '\n' in bv)
        # the two sides' values
        if site == 'minor':
            lo = int(bv)                           # both sides raise it / one raises, one lowers / both lower (base stays the largest)
            v1, v2 = r.choice([(lo + 1, lo + 2), (lo + 2, lo + 1), (lo + 3, lo + 1), (lo + 1, max(0, lo - 1)), (max(0, lo - 2), max(1, lo - 1) if lo > 1 else lo + 1)])
            if canon(v1) == canon(bv): v1 = lo + 4
            if canon(v2) in (canon(bv), canon(v1)): v2 = lo + 5
        elif site == 'id': v1 = bv + '-l'; v2 = bv + '-r'
        elif mode == 'both-differ':
            ks = ('int',) if leg == 0 else None
            v1 = _bv_other(r, [bv], kinds=ks); v2 = _bv_other(r, [bv, v1], kinds=ks if rnd % 3 else ('int',))
        elif mode == 'one-keeps-type':
            same = {'int': ('int',), 'zero': ('int',), 'float': ('float',), 'str': ('str',), 'emptystr': ('str',), 'bool': ('false',), 'false': ('bool',)}.get(kind, ('int',))
            v1 = _bv_similar(r, bv) if container else _bv_other(r, [bv], kinds=same)
            v2 = _bv_other(r, [bv, v1])
        elif mode == 'similar-vs-replace': v1 = _bv_similar(r, bv); v2 = _bv_other(r, [bv, v1])
        elif mode == 'similar-both': v1 = _bv_similar(r, bv); v2 = _bv_similar(r, bv, [v1])
        elif mode == 'similar-both-same-member':
            at = _bv_member(r, bv)
            if isinstance(bv, str) and rnd % 8 < 4:           # both sides put another whole line there
                lines = bv.splitlines(True); w1, w2 = r.sample(BV_FRESH, 2)
                v1 = ''.join(lines[:at] + [w1 + '\n'] + lines[at + 1:]); v2 = ''.join(lines[:at] + [w2 + ' ' + w1 + '\n'] + lines[at + 1:])
            else: v1 = _bv_similar(r, bv, at=at); v2 = _bv_similar(r, bv, [v1], at=at)
        elif mode == 'same-change': v1 = _bv_other(r, [bv]); v2 = copy.deepcopy(v1)
        else: v1 = _bv_other(r, [bv]); v2 = copy.deepcopy(bv)
        base = copy.deepcopy(nb); one = copy.deepcopy(nb); two = copy.deepcopy(nb)
        if site in ('output', 'both') and not any(o['output_type'] == 'execute_result' for o in nb['cells'][ci]['outputs']):
            o = gennb.gen_output(r, None, rich=False, kind='execute_result')
            for doc in (base, one, two): doc['cells'][ci]['outputs'].append(copy.deepcopy(o))
        for doc, v in ((base, bv), (one, v1), (two, v2)):
            c = doc['cells'][ci]
            if site == 'minor': doc['nbformat_minor'] = copy.deepcopy(v)
            elif site == 'id': c['id'] = v
            if site in ('cell', 'both'): c['execution_count'] = copy.deepcopy(v)
            if site in ('output', 'both'):
                for o in c['outputs']:
                    if o['output_type'] == 'execute_result': o['execution_count'] = copy.deepcopy(v)
        c = r.random()
        if c < 0.2 and site != 'output':          # both branches got the same new output
            o = gennb.gen_output(r, None, rich=False, kind='stream')
            for doc in (one, two): doc['cells'][ci]['outputs'].append(copy.deepcopy(o))
        elif c < 0.4:                             # an ordinary edit next to it
            cc = one['cells'][r.randrange(len(one['cells']))]
            cc['source'] = cc['source'] + ('' if cc['source'].endswith('\n') or not cc['source'] else '\n') + 'z = 0\n'
        elif c < 0.55 and len(code) > 1:          # another code cell is re-run on one side
            cj = r.choice([i for i in code if i != ci])
            two['cells'][cj]['execution_count'] = (two['cells'][cj]['execution_count'] or 0) + r.choice([1, 5])
        if r.random() < 0.5: one, two = two, one
        out.append(('basevalue-action', base, one, two))
    return out

def gen_cases(chk, tier):
    r = chk.rng
    k = 1 if tier == 'quick' else 6
    pairs = []       # (src, kind('gdiff'|'nbdiff'), a, b)
    # corpus first
    cdir = os.path.join(core.VERIF, 'corpus', PROP)
    if os.path.isdir(cdir):
        for f in sorted(os.listdir(cdir)):
            c = json.load(open(os.path.join(cdir, f)))
            if 'a' in c: pairs.append(('corpus', c.get('kind', 'gdiff'), c['a'], c['b']))
    # 1. small strings around each separator (exhaustive strings, sampled pairs)
    for X in ['\n', '\r'] + EXOTIC:
        alpha = ['a', 'b', '\n', X] if X != '\n' else ['a', 'b', '\n', '\r']
        strs = [''.join(c) for n in range(0, 5) for c in itertools.product(alpha, repeat=n)]
        for _ in range(60 * k):
            pairs.append(('sep-small', 'gdiff', r.choice(strs), r.choice(strs)))
    # 2. multi-line text whose lines end in one chosen separator, a later line edited
    for _ in range(300 * k):
        X = r.choice(EXOTIC)
        seps = r.choice([['\n'], ['\n'], ['\r\n'], ['\r'], ['\n', X], ['\n', X], [X], EXOTIC + ['\n']])
        a = genjson.gen_text(r, nlines=r.choice([2, 3, 4, 6, 9]), seps=seps)
        pairs.append(('sep-lines', 'gdiff', a, genjson.edit_text(r, a)))
    # 3. ordinary text
    for _ in range(300 * k):
        a = genjson.gen_text(r, seps=r.choice([['\n'], ['\n', '\r\n'], ['\n', '\r']]))
        pairs.append(('text', 'gdiff', a, genjson.edit_text(r, a)))
    # 4. astral characters in lines that get a character-level edit
    AST = [chr(0x1f600), chr(0x1d54f), chr(0x10348)]
    for _ in range(80 * k):
        lines = []
        for i in range(r.choice([1, 2, 3, 5])):
            l = genjson.gen_line(r) + ' ' + genjson.gen_line(r)
            if r.random() < 0.7:
                j = r.randrange(len(l) + 1); l = l[:j] + r.choice(AST) + l[j:]
            lines.append(l + '\n')
        a = ''.join(lines); bl = list(lines)
        i = r.randrange(len(bl)); l = bl[i]; j = r.randrange(len(l)); bl[i] = l[:j] + r.choice(['X', 'yy', '']) + l[j + r.choice([0, 1]):]
        pairs.append(('astral', 'gdiff', a, ''.join(bl)))
    # 5. JSON documents
    for _ in range(400 * k):
        a, b = genjson.gen_pair(r, depth=r.choice([2, 3, 3, 4]))
        pairs.append(('json', 'gdiff', a, b))
    # 6. notebooks
    for _ in range(90 * k):
        a, b = gennb.gen_pair(r)
        pairs.append(('nb', 'nbdiff', a, b))
    pairs = [(s, kd, norm_numbers(a), norm_numbers(b)) for s, kd, a, b in pairs]
    # merges under the web tool's strategy
    triples = []
    for _ in range(110 * k):
        b, l, rm = gennb.gen_triple(r)
        triples.append(('triple', b, l, rm))
    for _ in range(12 * k):                      # format-version conflicts
        b, l, rm = gennb.gen_triple(r, conflict_bias=0.2)
        b, l, rm = copy.deepcopy(b), copy.deepcopy(l), copy.deepcopy(rm)
        m = b.get('nbformat_minor', 4)
        lo = r.choice([0, 1, 2]); b['nbformat_minor'] = lo
        l['nbformat_minor'] = lo + r.choice([1, 2]); rm['nbformat_minor'] = l['nbformat_minor'] + r.choice([0, 1])
        # ids are only legal from 4.5 on: drop them so that every side validates
        for nb in (b, l, rm):
            for c in nb['cells']: c.pop('id', None)
        triples.append(('minor-conflict', b, l, rm))
    for _ in range(20 * k):                      # exotic separators inside conflicting sources
        b, l, rm = gennb.gen_triple(r, conflict_bias=0.8)
        triples.append(('triple-conflict', b, l, rm))
    triples = [(s, norm_numbers(b), norm_numbers(l), norm_numbers(rm)) for s, b, l, rm in triples]
    # split corpus: every string of length <= 3 over the separators (exhaustive), longer ones sampled
    alpha = ['a', '\n', '\r'] + EXOTIC
    splits = [''.join(c) for n in range(0, 4) for c in itertools.product(alpha, repeat=n)]
    for _ in range(300 * k):
        splits.append(''.join(r.choice(alpha + ['b', ' ', chr(0x1f600), chr(0xe9)]) for _ in range(r.randint(4, 12))))
    # generated last so that the draws of the families above are unchanged
    triples += [(s, norm_numbers(b), norm_numbers(l), norm_numbers(rm)) for s, b, l, rm in gen_inline_vs_lines(r, 60 * k)]
    pairs += [(s, kd, norm_numbers(a), norm_numbers(b)) for s, kd, a, b in gen_jskeys_pairs(r, 80 * k)]
    triples += [(s, norm_numbers(b), norm_numbers(l), norm_numbers(rm)) for s, b, l, rm in gen_jskeys_triples(r, 30 * k)]
    triples += [(s, norm_numbers(b), norm_numbers(l), norm_numbers(rm)) for s, b, l, rm in gen_basevalue_actions(r, 48 * k)]
    return pairs, triples, splits

# ------------------------------------------------------------------ judging
def judge_patch(base, diff, py, ts):
    """(signature, detail) or (None, None) for one (base, diff) run through both implementations"""
    if same(py, ts): return None, None
    if 'err' in py and 'err' in ts: return None, None      # both refuse: no document on either side
    if 'err' in py: return 'python-patch-raises-ts-does-not:' + py['err'], {'python': py.get('msg'), 'ts': ts.get('ok')}
    det = {'python': py.get('ok'), 'ts': ts.get('ok', {'threw': ts.get('err'), 'msg': ts.get('msg')})}
    try:
        det['documented_semantics'] = pyspec.spec_patch(copy.deepcopy(base), copy.deepcopy(diff))
        det['side_deviating_from_documented_semantics'] = 'ts' if canon(det['documented_semantics']) == canon(py['ok']) else 'python-or-both'
    except Exception as e:
        det['documented_semantics'] = 'n/a: %r' % e
    return 'ts-patch-differs', det

# ---- disagreements whose root cause is a dict key named "__proto__"
RENAMED = '__prot0__'
def has_proto_key(v): return PROTO in strings_of(list(v) if isinstance(v, tuple) else v)

def rename_proto(v):
    """the same case with every occurrence of the name (dict keys, 'key' fields of diff entries, common_path elements)
    replaced by a name JavaScript gives no meaning to"""
    if isinstance(v, str): return RENAMED if v == PROTO else v
    if isinstance(v, list): return [rename_proto(x) for x in v]
    if isinstance(v, dict): return {rename_proto(k): rename_proto(x) for k, x in v.items()}
    return v

def _entry_keys(diff, out=None):
    """key names that ARRIVE with a diff: the 'key' of object entries and every dict key inside added values"""
    if out is None: out = set()
    for e in diff or []:
        if not isinstance(e, dict): continue
        if isinstance(e.get('key'), str): out.add(e['key'])
        for f in ('value', 'valuelist'):
            if f in e: out.update(x for x in strings_of(e[f]))
        if e.get('op') == 'patch': _entry_keys(e.get('diff'), out)
    return out

def _proto_container_value(v):
    """some dict of v has the key with a dict / list value (assignment then really REPLACES the prototype, whose
    enumerable members every later for-in copy turns into own keys)"""
    if isinstance(v, dict):
        return any((k == PROTO and isinstance(x, (dict, list))) or _proto_container_value(x) for k, x in v.items())
    if isinstance(v, list): return any(_proto_container_value(x) for x in v)
    return False

def proto_signature(kind, base, diffs, ts, paths=()):
    """refined signature of a disagreement that is known (by proto_root_cause) to vanish when the key is renamed, i.e.
    the name is the cause; the signature says how it shows.  None = not one of the understood forms, the usual
    signature is used.  kind: 'patch' (generic.ts:patch) | 'apply' (decisions.ts:applyDecisions, which copies the base
    with common/util.ts:deepCopy first); paths: the common_paths of the decisions"""
    pre = 'proto-key:' if kind == 'patch' else 'proto-key:apply-'
    if 'err' in ts:
        import re
        if re.match(r'Invalid (remove|replace|patch) key diff op: Missing key: __proto__$', ts.get('msg', '')):
            return pre + 'op-on-present-key-throws'
    elif 'ok' not in ts: return None
    if any(PROTO in (p or ()) for p in paths): return pre + 'path-through-key'             # a decision about something UNDER the key
    if 'err' in ts:
        if _proto_container_value(base): return pre + 'own-key-members-leak-throws'
        return None
    if any(PROTO in _entry_keys(d) for d in diffs): return pre + 'add-lost'          # the key arrives with the diff and is not kept
    if PROTO in strings_of(base): return pre + 'own-key-dropped'                        # the key is in base and is not copied
    return None

def _decision_diffs(decisions):
    return [d.get(k) for d in decisions for k in ('local_diff', 'remote_diff', 'custom_diff') if d.get(k)]

def proto_root_cause(kind, cases, env):
    """for each case ({'base','diff'} or {'base','decisions'}): True iff the name occurs in it AND the two
    implementations agree on the same case with the name replaced (so nothing but the name is the cause)"""
    idx = [i for i, c in enumerate(cases) if has_proto_key([c['base'], c.get('diff'), c.get('decisions')])]
    if not idx: return [False] * len(cases)
    if kind == 'patch': t = [{'op': 'patch', 'base': rename_proto(cases[i]['base']), 'diff': rename_proto(cases[i]['diff'])} for i in idx]
    else: t = [{'op': 'apply', 'base': rename_proto(cases[i]['base']), 'decisions': rename_proto(cases[i]['decisions'])} for i in idx]
    pyr = core.run_impl(t, shards=14, script='c15_pyrun.py', env_extra=env)
    tsr = c15_node.run_node(t)
    out = [False] * len(cases)
    for i, py, ts in zip(idx, pyr, tsr): out[i] = same(py, ts)
    return out

def report_proto_key(chk, kind, cases, failing, env):
    """failing: indices into cases (each with 'py' and 'ts').  Reports those explained by the key "__proto__" under
    their refined signatures (smallest case of each signature, counted) and returns the set of indices so explained;
    everything else goes on to the ordinary reduction and keeps its ordinary signature."""
    sub = [cases[i] for i in failing]
    rc = proto_root_cause(kind, sub, env) if sub else []
    by_sig = {}; done = set()
    for i, c, ok in zip(failing, sub, rc):
        if not ok: continue
        diffs = [c['diff']] if kind == 'patch' else _decision_diffs(c['decisions'])
        sig = proto_signature(kind, c['base'], diffs, c['ts'], [d.get('common_path') for d in c.get('decisions', [])])
        if sig is None: continue
        done.add(i)
        size = len(canon([c['base'], c.get('diff'), c.get('decisions')]))
        cur = by_sig.get(sig)
        if cur is None: by_sig[sig] = [size, i, 1]
        else:
            cur[2] += 1
            if size < cur[0]: cur[0], cur[1] = size, i
    for sig, (size, i, cnt) in sorted(by_sig.items()):
        c = cases[i]
        case = {'kind': 'patch', 'base': c['base'], 'diff': c['diff']} if kind == 'patch' else {'kind': 'apply', 'base': c['base'], 'decisions': c['decisions']}
        py = c['py']; ts = c['ts']
        det = {'python': py.get('ok', py.get('err')) if kind == 'patch' else py.get('err', '<merged notebook>'),
               'ts': ts.get('ok', {'threw': ts.get('err'), 'msg': ts.get('msg')}) if kind == 'patch' else ts.get('err', '<different document>'),
               'ts_msg': ts.get('msg'), 'found_in': c['src'], 'cases_with_this_signature': cnt,
               'root_cause_test': 'the implementations agree on the same case with the key renamed to ' + RENAMED}
        if kind == 'apply' and 'ok' in py and 'ok' in ts:
            tgt = differing_strings(py.get('ok'), ts.get('ok'))
            if tgt: det['first_difference'] = tgt
        for _ in range(cnt):
            if chk.violation(sig, case, det): break
    return done

def run(tier, seed):
    chk = core.Check(PROP, tier, seed)
    # Gen/*.v and the model files the correspondence needs are (re)built under ONE hold of the build lock, so that a
    # concurrent check of another property (which regenerates Gen from its own NBDIME_REPO) cannot slip in between
    b = core.build(targets=['Ts/TsRun.vo'])
    gen_actions = read_gen_actions()
    proofs_ok = chk.proof_obligations('Props/C15.v', b)
    node = c15_node.find_node()
    pairs, triples, splits = gen_cases(chk, tier)
    hist = {}
    for p in pairs: hist[p[0]] = hist.get(p[0], 0) + 1
    for t in triples: hist[t[0]] = hist.get(t[0], 0) + 1
    hist['split-strings'] = len(splits)

    # ---- Python side: diffs, decisions
    env = sandbox_env()
    try:
        tasks = [{'op': kd, 'a': a, 'b': bb} for _, kd, a, bb in pairs] + \
                [{'op': 'merge', 'base': bs, 'local': l, 'remote': rm} for _, bs, l, rm in triples]
        pres = core.run_impl(tasks, shards=14, script='c15_pyrun.py', env_extra=env)
        dres = pres[:len(pairs)]; mres = pres[len(pairs):]
        pcases = []         # {'src','base','diff'}
        for (src, kd, a, bb), res in zip(pairs, dres):
            if 'ok' not in res:
                # the differ itself failed: other properties' business (C02/C11), not a (base, diff) pair
                continue
            pcases.append({'src': src, 'base': a, 'diff': res['ok'], 'target': bb})
        mcases = []
        for (src, bs, l, rm), res in zip(triples, mres):
            if 'ok' not in res: continue
            mcases.append({'src': src, 'base': bs, 'decisions': res['ok'], 'py': res['merged']})
        ptasks = [{'op': 'patch', 'base': c['base'], 'diff': c['diff']} for c in pcases]
        pyp = core.run_impl(ptasks, shards=14, script='c15_pyrun.py', env_extra=env)
        for c, r_ in zip(pcases, pyp): c['py'] = r_ if ('ok' in r_ or 'err' in r_) else {'err': 'HarnessCrash'}
        pysplit = [s.splitlines(True) for s in splits]      # CPython's own str.splitlines: the reference for PyStr.v

        # ---- TypeScript side
        static_only = node is None
        nviol = 0
        emitted_seen = set()
        for c in mcases:
            for d in c['decisions']: emitted_seen.add(d.get('action'))
        if not static_only:
            ntasks = [{'op': 'patch', 'base': c['base'], 'diff': c['diff']} for c in pcases] + \
                     [{'op': 'apply', 'base': c['base'], 'decisions': c['decisions']} for c in mcases] + \
                     [{'op': 'split', 's': s} for s in splits]
            vocab = sorted(set(sum(gen_actions.values(), [])) | {a for a in emitted_seen if isinstance(a, str)}) if gen_actions else sorted(a for a in emitted_seen if isinstance(a, str))
            ntasks += [{'op': 'action', 'action': a} for a in vocab]
            nres = c15_node.run_node(ntasks)
            o = 0
            for c in pcases: c['ts'] = nres[o]; o += 1
            for c in mcases: c['ts'] = nres[o]; o += 1
            tssplit = nres[o:o + len(splits)]; o += len(splits)
            actres = dict(zip(vocab, nres[o:]))
            crashed = [x for x in nres if x.get('err') == 'HarnessCrash']
            if crashed:
                chk.broken_obligation('node-runner', crashed[0].get('msg', '')[:600])

            # ---- T2 on patches
            failing = []
            for i, c in enumerate(pcases):
                sig, det = judge_patch(c['base'], c['diff'], c['py'], c['ts'])
                if sig: failing.append((i, sig, det))
            explained = report_proto_key(chk, 'patch', pcases, [i for i, _, _ in failing], env)
            failing = [f for f in failing if f[0] not in explained]
            report_patch_failures(chk, pcases, failing, env)
            # ---- T2 on decisions
            mfail = []
            for i, c in enumerate(mcases):
                if same(c['py'], c['ts']): continue
                if 'err' in c['py'] and 'err' in c['ts']: continue
                mfail.append(i)
            explained = report_proto_key(chk, 'apply', mcases, mfail, env)
            mfail = [i for i in mfail if i not in explained]
            report_merge_failures(chk, mcases, mfail, env)
            # ---- T2 on the vocabulary: every action Python was seen to emit must be accepted
            for a in sorted(x for x in emitted_seen if isinstance(x, str)):
                rr = actres.get(a, {})
                if 'err' in rr:
                    chk.violation('ts-rejects-emitted-action:' + a, {'kind': 'action', 'action': a},
                                  {'ts': rr, 'note': 'action observed in decisions produced by decide_notebook_merge under mergetool'})
            # ---- tie of Gen/Actions.v to run-time behaviour
            if gen_actions:
                for a in vocab:
                    acc = 'ok' in actres.get(a, {})
                    if acc != (a in gen_actions['ts_accepted']):
                        chk.broken_obligation('correspondence:Gen/Actions.ts_accepted', {'action': a, 'node_accepts': acc})
                for a in emitted_seen:
                    if a not in gen_actions['py_emitted']:
                        chk.broken_obligation('correspondence:Gen/Actions.py_emitted', {'action': a, 'note': 'emitted at run time but not found by the AST translator'})
        else:
            chk.notes.append('no Node >= 22.6 found: TypeScript sources not executed; only the static theorems (vocabulary, line splitting, model agreement) and the Python-side model tie were checked')

        # ---- T1: models against implementations
        t1 = 0; mism = 0
        if b.ok or os.path.exists(os.path.join(core.COQ, 'Ts', 'TsRun.vo')):
            t1cases = select_t1(pcases, tier)
            jobs = [('py_patch', [(c['base'], c['diff'], enc_res(c['py'], py=True)) for c in t1cases if enc_res(c['py'], py=True) is not None]),
                    ('py_split', list(zip(splits, pysplit)))]
            if not static_only:
                jobs += [('ts_patch', [(u16(c['base']), u16(c['diff']), u16(enc_res(c['ts'], py=False))) for c in t1cases if wf_for_ts_model(c)]),
                         ('ts_split', [(u16(s), u16(r_['ok'])) for s, r_ in zip(splits, tssplit) if 'ok' in r_])]
            for kind, cs in jobs:
                bad, err = c15_coq.evaluate(kind, cs)
                t1 += len(cs)
                if err:
                    chk.broken_obligation('model-evaluation:' + kind, err[-600:])
                for i in bad[:3]:
                    chk.broken_obligation('correspondence:' + kind, {'input': cs[i][:-1], 'implementation': cs[i][-1]})
                mism += len(bad)
        else:
            chk.broken_obligation('model-build', b.log[-600:])

        # ---- refutation witnesses must still fail on the implementation
        if not static_only:
            stale_witnesses(chk, env)
    finally:
        cleanup_env(env)

    nontriv = set()
    for c in pcases:
        if c['diff']: nontriv.add(canon([c['base'], c['diff']]))
    for c in mcases:
        if c['decisions']: nontriv.add(canon([c['base'], c['decisions']]))
    chk.cov.update({
        'evaluations': len(pcases) + len(mcases) + len(splits),
        'distinct_nontrivial': len(nontriv),
        'rule': 'each (base, diff) from nbdime.diff / diff_notebooks and each (base, decisions) from decide_notebook_merge(mergetool) over the generated space is one program run through Python and TypeScript; strings over {a,b,LF,CR}+each of VT,FF,FS,GS,RS,NEL,LS,PS, multi-line text, astral text, JSON documents, notebooks, notebook triples incl. nbformat_minor conflicts, in-line edit on one side vs whole-line changes on the other in one source (inline-vs-lines), dict keys named like members of Object.prototype / other JavaScript-significant names (constructor, toString, valueOf, hasOwnProperty, length, 0, op, ...) added / removed / replaced / patched / kept in JSON objects (jskeys-json), in notebook, cell and output metadata (jskeys-nb) and on one or both sides of a merge (jskeys-triple); conflicts the merger answers with an action computed from the BASE value (clear, take_max) where that base value is of every JSON type in turn -- null (never executed in base), 0, ints, non-integral numbers, booleans, empty / one-line / multi-line strings, empty / non-empty lists and dicts -- at the execution_count of a code cell, of an execute_result output, of both, at nbformat_minor (numbers and booleans) and at the cell id, with both sides setting different plain counts / values of any type, one side keeping the type, patch vs replace and patch vs patch on containers and text (also on the same line / member), and same-change / one-sided controls (basevalue-action; apart from null and int counts these notebooks are outside the nbformat schema, which neither merger nor web tool enforces); about a third of the jskeys cases are about the key __proto__ (added, removed, replaced, patched, present and untouched while another key changes, nested): these are compared implementation against implementation and, having no counterpart in the prototype-free Gallina model of the TypeScript patcher, are left out of the ts_patch model comparison (select_t1 / wf_for_ts_model); a disagreement is attributed to that key (signatures proto-key:*) only if the key occurs in the case AND both implementations agree on the same case with the key renamed; non-trivial = non-empty diff / non-empty decision list, distinct by canonical JSON of the pair; split strings are counted in evaluations only',
        'input_distribution': hist,
        'traces_validated_against_impl': t1, 'model_impl_mismatches': mism,
        'ts_executed': not static_only, 'node': node or 'absent',
        'patch_pairs': len(pcases), 'decision_pairs': len(mcases), 'actions_emitted_seen': sorted(a for a in emitted_seen if isinstance(a, str)),
        'exhaustive': False,
    })
    for c in pcases[:1] + [c for c in pcases if c['src'] == 'sep-lines'][:1] + pcases[-1:]:
        chk.sample({'kind': 'patch', 'base': c['base'], 'diff': c['diff']})
    for c in mcases[:1]:
        chk.sample({'kind': 'apply', 'base': '<notebook with %d cells>' % len(c['base'].get('cells', [])), 'decisions': c['decisions'][:3]})
    return chk.finish('proof', ASSUME)

# ------------------------------------------------------------------ pieces of run()
def sandbox_env():
    import tempfile
    d = tempfile.mkdtemp(prefix='nbv_c15home_')
    return {'HOME': d, 'XDG_CONFIG_HOME': d, 'JUPYTER_CONFIG_DIR': os.path.join(d, 'jc'), 'JUPYTER_DATA_DIR': os.path.join(d, 'jd'),
            'JUPYTER_RUNTIME_DIR': os.path.join(d, 'jr'), 'JUPYTER_PATH': os.path.join(d, 'jp'), 'JUPYTER_CONFIG_PATH': os.path.join(d, 'jcp'),
            'IPYTHONDIR': os.path.join(d, 'ipy'), 'C15_SANDBOX': d}

def cleanup_env(env):
    import shutil
    shutil.rmtree(env.get('C15_SANDBOX', ''), ignore_errors=True)

def read_gen_actions():
    p = os.path.join(core.COQ, 'Gen', 'Actions.v')
    if not os.path.exists(p): return None
    import re
    out = {}
    for m in re.finditer(r'Definition (\w+) : list pystr := \[(.*?)\]\.', open(p).read(), re.S):
        out[m.group(1)] = re.findall(r'of_ascii "([A-Za-z_]+)"', m.group(2))
    return out

def enc_res(r, py):
    if 'ok' in r: return {'ok': r['ok']}
    if 'err' in r:
        if r['err'] == 'HarnessCrash': return None
        return {'err': r['err']}
    return None

def wf_for_ts_model(c):
    """the TypeScript model is compared on everything the Python differ produces (a throw is compared by error class),
    except text with astral code points: the model reads strings as code-unit lists and the theorem is about BMP text;
    astral text is covered by the differential run and by the ts_patch_astral_refuted witness"""
    if c.get('ts') is None or c['ts'].get('err') == 'HarnessCrash': return False
    if has_proto_key([c['base'], c['diff']]): return False      # the model has no prototype chain (see ASSUME); compared differentially only
    return not has_astral([c['base'], c['diff']])

def select_t1(pcases, tier):
    """all small cases, a bounded number of notebook-sized ones (the coqc route parses every case as a term)"""
    lim = 40 if tier == 'quick' else 160
    out = []; nb = {}
    for c in pcases:
        if c['src'] == 'nb' or c['src'].endswith('-nb'):
            nb[c['src']] = nb.get(c['src'], 0) + 1
            if nb[c['src']] > lim: continue
        out.append(c)
    return out

def report_patch_failures(chk, pcases, failing, env):
    """shrink each disagreement to its string-level sub-cases, re-run those, classify"""
    if not failing: return
    subs = []
    for i, sig, det in failing:
        c = pcases[i]
        for path, s, d in leaves(c['base'], c['diff']):
            subs.append((i, path, s, d))
    subs = subs[:4000]
    t = [{'op': 'patch', 'base': s, 'diff': d} for _, _, s, d in subs]
    pyr = core.run_impl(t, shards=14, script='c15_pyrun.py', env_extra=env) if t else []
    tsr = c15_node.run_node(t) if t else []
    explained = set()
    by_sig = {}
    for (i, path, s, d), py, ts in zip(subs, pyr, tsr):
        if same(py, ts) or ('err' in py and 'err' in ts): continue
        explained.add(i)
        sig = classify_string(s, d, py, ts)
        cur = by_sig.get(sig)
        if cur is None or len(s) < len(cur[0]['base']):
            by_sig[sig] = ({'kind': 'patch', 'base': s, 'diff': d},
                           {'python': py.get('ok', py.get('err')), 'ts': ts.get('ok', {'threw': ts.get('err'), 'msg': ts.get('msg')}),
                            'python_lines': s.splitlines(True), 'js_lines': js_split(s), 'found_in': pcases[i]['src'], 'path': list(path)})
    counts = {}
    for (i, path, s, d), py, ts in zip(subs, pyr, tsr):
        if same(py, ts) or ('err' in py and 'err' in ts): continue
        sg = classify_string(s, d, py, ts); counts[sg] = counts.get(sg, 0) + 1
    for sig, (case, det) in sorted(by_sig.items()):
        det['cases_with_this_signature'] = counts.get(sig, 1)
        for _ in range(counts.get(sig, 1)):
            if chk.violation(sig, case, det): break
    rest = [(len(canon([pcases[i]['base'], pcases[i]['diff']])), i, sig, det) for i, sig, det in failing if i not in explained]
    for _, i, sig, det in sorted(rest, key=lambda x: x[:2]):      # smallest first: that is the one written to the replay
        c = pcases[i]
        det = dict(det, found_in=c['src'], other_cases_at_container_level=len(rest) - 1)
        chk.violation(sig + ':container-level', {'kind': 'patch', 'base': c['base'], 'diff': c['diff']}, det)

def decision_signature(base, d, py, ts):
    if 'err' in ts and 'Invalid merge decision action' in ts.get('msg', ''):
        return 'ts-rejects-emitted-action:' + str(d.get('action'))
    if 'err' in ts and 'is not defined' in ts.get('msg', '') and 'action' in ts.get('msg', ''):
        return 'ts-cannot-resolve-action:' + str(d.get('action'))
    if 'err' in ts and ts['err'] == 'RangeError':
        # a decision whose common_path points at a LINE of a string: the index is from Python's line table
        v = base; path = list(d.get('common_path', []))
        try:
            while path and not isinstance(v, str):
                v = v[path[0]]; path = path[1:]
        except Exception:
            v = None
        if isinstance(v, str) and path and isinstance(path[0], int) and has_exotic(v) \
           and path[0] < len(v.splitlines(True)) and path[0] >= len(js_split(v)):
            return 'ts-apply-throws:decision-path-names-line-of-string-js-splits-differently'
    if 'err' in ts and ts['err'] == 'TypeError' and d.get('action') == 'clear' and "Can only use `'clear'` action on objects/dicts" in ts.get('msg', '') \
       and _path_reaches_string(base, d.get('common_path', [])):
        # the merger met the strategy `clear` again INSIDE a string value (both sides changed the same lines of a
        # multi-line string stored where that strategy applies) and put the action on the string / on one of its lines
        return 'ts-apply-throws:clear-action-on-conflict-inside-string'
    if 'err' in ts: return 'ts-apply-throws:' + ts['err']
    return 'ts-apply-differs:other'

def _path_reaches_string(base, path):
    """the path ends at a string value of base or goes on into one (a line number follows)"""
    v = base
    try:
        for k in path:
            if isinstance(v, str): return True
            v = v[k]
    except Exception:
        return False
    return isinstance(v, str)

def resolved_pair(base, d):
    """(value, diff) that a plain local/remote/custom/... decision applies, or None"""
    a = d.get('action')
    L = d.get('local_diff') or []; R = d.get('remote_diff') or []; C = d.get('custom_diff') or []
    diff = {'local': L, 'either': L, 'remote': R, 'custom': C, 'local_then_remote': L + R, 'remote_then_local': R + L}.get(a)
    if diff is None: return None
    v = base; path = list(d.get('common_path', []))
    try:
        while path:
            if isinstance(v, str): break
            v = v[path[0]]; path = path[1:]
    except Exception:
        return None
    for k in reversed(path):           # the rest of the path points at a line inside the string
        diff = [{'op': 'patch', 'key': k, 'diff': diff}]
    return v, diff

def report_merge_failures(chk, mcases, mfail, env):
    if not mfail: return
    subs = []
    for i in mfail:
        c = mcases[i]
        for j, d in enumerate(c['decisions']):
            subs.append((i, j, d))
    subs = subs[:3000]
    t = [{'op': 'apply', 'base': mcases[i]['base'], 'decisions': [d]} for i, j, d in subs]
    pyr = core.run_impl(t, shards=14, script='c15_pyrun.py', env_extra=env) if t else []
    tsr = c15_node.run_node(t) if t else []
    explained = set(); single = []
    for (i, j, d), py, ts in zip(subs, pyr, tsr):
        if same(py, ts) or ('err' in py and 'err' in ts): continue
        explained.add(i)
        single.append((i, j, d, py, ts))
    # single decisions whose disagreement is caused by a key named "__proto__" get the refined signatures
    sc = [{'src': mcases[i]['src'] + ' (decision %d)' % j, 'base': mcases[i]['base'], 'decisions': [d], 'py': py, 'ts': ts} for i, j, d, py, ts in single]
    pk = report_proto_key(chk, 'apply', sc, list(range(len(sc))), env)
    single = [x for n, x in enumerate(single) if n not in pk]
    # second reduction: the string-level (base, diff) pairs the failing decision applies
    lv = []
    for n, (i, j, d, py, ts) in enumerate(single):
        rp = resolved_pair(mcases[i]['base'], d)
        if rp is None: continue
        for path, s_, d_ in leaves(rp[0], rp[1]):
            lv.append((n, s_, d_))
    lv = lv[:3000]
    lt = [{'op': 'patch', 'base': s_, 'diff': d_} for _, s_, d_ in lv]
    lpy = core.run_impl(lt, shards=14, script='c15_pyrun.py', env_extra=env) if lt else []
    lts = c15_node.run_node(lt) if lt else []
    reduced = set()
    for (n, s_, d_), py, ts in zip(lv, lpy, lts):
        if same(py, ts) or ('err' in py and 'err' in ts): continue
        reduced.add(n)
        i = single[n][0]
        chk.violation(classify_string(s_, d_, py, ts), {'kind': 'patch', 'base': s_, 'diff': d_},
                      {'python': py.get('ok', py.get('err')), 'ts': ts.get('ok', {'threw': ts.get('err'), 'msg': ts.get('msg')}),
                       'python_lines': s_.splitlines(True), 'js_lines': js_split(s_),
                       'found_in': mcases[i]['src'] + ' (decision %d, action %s)' % (single[n][1], single[n][2].get('action'))})
    for n, (i, j, d, py, ts) in enumerate(single):
        if n in reduced: continue
        sig = decision_signature(mcases[i]['base'], d, py, ts)
        det = {'python': py.get('err', '<merged notebook>'), 'ts': ts.get('err', '<different document>'),
               'ts_msg': ts.get('msg'), 'found_in': mcases[i]['src'], 'decision_index': j}
        if 'ok' in py and 'ok' in ts:
            tgt = differing_strings(py['ok'], ts['ok'])
            if tgt: det['first_difference'] = tgt
        chk.violation(sig, {'kind': 'apply', 'base': mcases[i]['base'], 'decisions': [d]}, det)
    # no single decision disagrees: look for the smallest PAIR of decisions (in the order sent) that does
    rest = [i for i in mfail if i not in explained]
    pr = []
    for i in rest[:25]:
        ds = mcases[i]['decisions']
        for a, b_ in list(itertools.combinations(range(len(ds)), 2))[:45]:
            pr.append((i, a, b_))
    pt = [{'op': 'apply', 'base': mcases[i]['base'], 'decisions': [mcases[i]['decisions'][a], mcases[i]['decisions'][b_]]} for i, a, b_ in pr]
    ppy = core.run_impl(pt, shards=14, script='c15_pyrun.py', env_extra=env) if pt else []
    pts = c15_node.run_node(pt) if pt else []
    best = {}
    for (i, a, b_), t_, py, ts in zip(pr, pt, ppy, pts):
        if same(py, ts) or ('err' in py and 'err' in ts) or 'ok' not in py: continue
        size = len(canon(t_['decisions']))
        if i not in best or size < best[i][0]: best[i] = (size, a, b_, t_, py, ts)
    for i in rest:
        c = mcases[i]
        if i in best:
            _, a, b_, t_, py, ts = best[i]
            det = {'python': '<merged notebook>', 'ts': ts.get('err', '<different document>'), 'ts_msg': ts.get('msg'),
                   'found_in': c['src'], 'decision_indices': [a, b_], 'decisions_in_case': len(c['decisions']),
                   'common_paths': [d.get('common_path') for d in t_['decisions']]}
            tgt = differing_strings(py.get('ok'), ts.get('ok'))
            if tgt: det['first_differing_string'] = tgt
            chk.violation('ts-apply-differs:only-in-combination', {'kind': 'apply', 'base': c['base'], 'decisions': t_['decisions']}, det)
            continue
        chk.violation('ts-apply-differs:only-in-combination', {'kind': 'apply', 'base': c['base'], 'decisions': c['decisions']},
                      {'python': c['py'].get('err', '<merged notebook>'), 'ts': c['ts'].get('err', '<different document>'), 'ts_msg': c['ts'].get('msg'),
                       'found_in': c['src']})

def differing_strings(a, b, path=()):
    """path and the two values of the first string-level difference of two JSON documents (reporting aid only)"""
    if isinstance(a, dict) and isinstance(b, dict):
        for k in sorted(set(a) | set(b)):
            if k not in a or k not in b: return {'path': list(path + (k,)), 'python': a.get(k), 'ts': b.get(k)}
            d = differing_strings(a[k], b[k], path + (k,))
            if d: return d
        return None
    if isinstance(a, list) and isinstance(b, list):
        for i in range(max(len(a), len(b))):
            if i >= len(a) or i >= len(b): return {'path': list(path + (i,)), 'python': a[i] if i < len(a) else None, 'ts': b[i] if i < len(b) else None}
            d = differing_strings(a[i], b[i], path + (i,))
            if d: return d
        return None
    if canon(a) != canon(b): return {'path': list(path), 'python': a, 'ts': b}
    return None

WITNESS_ASTRAL = {'base': chr(0x1f600) + 'ab\n', 'diff': [{'op': 'patch', 'key': 0, 'diff': [{'op': 'addrange', 'key': 2, 'valuelist': 'X'}]}]}
WITNESS_PATCH = {'base': 'a\x0cb\nc\n', 'diff': [{'op': 'patch', 'key': 1, 'diff': [{'op': 'addrange', 'key': 1, 'valuelist': 'X'}]}]}

def stale_witnesses(chk, env):
    """the `_refuted` theorems of Props/C15.v speak about these inputs; if the implementations now agree on them the
    refutations are stale with respect to the code"""
    props = open(os.path.join(core.COQ, 'Props', 'C15.v')).read() if os.path.exists(os.path.join(core.COQ, 'Props', 'C15.v')) else ''
    t = [{'op': 'patch', 'base': WITNESS_PATCH['base'], 'diff': WITNESS_PATCH['diff']}]
    py = core.run_impl(t, script='c15_pyrun.py', env_extra=env)[0]
    ts = c15_node.run_node(t + [{'op': 'split', 's': 'a' + c + 'b'} for c in EXOTIC] + [{'op': 'action', 'action': 'take_max'}])
    ta = [{'op': 'patch', 'base': WITNESS_ASTRAL['base'], 'diff': WITNESS_ASTRAL['diff']}]
    pya = core.run_impl(ta, script='c15_pyrun.py', env_extra=env)[0]; tsa = c15_node.run_node(ta)[0]
    if 'ts_patch_astral_refuted' in props and same(pya, tsa):
        chk.broken_obligation('stale-refutation:ts_patch_astral_refuted', {'witness': WITNESS_ASTRAL, 'both_sides_now_give': pya.get('ok'),
                              'note': 'character-level keys are now converted: drop BLOCK UTF-16 of Props/C15.v and the known finding'})
    if 'ts_patch_refuted' in props and same(py, ts[0]):
        chk.broken_obligation('stale-refutation:ts_patch_refuted', {'witness': WITNESS_PATCH, 'both_sides_now_give': py.get('ok')})
    if 'splitlines_ts_refuted' in props:
        for c, r_ in zip(EXOTIC, ts[1:1 + len(EXOTIC)]):
            s = 'a' + c + 'b'
            got = r_.get('ok')
            if isinstance(got, list) and got and got[-1] == '' : got = got[:-1]
            if got == s.splitlines(True):
                chk.broken_obligation('stale-refutation:splitlines_ts_refuted', {'separator': 'U+%04X' % ord(c)})
    if 'take_max_refuted' in props and 'ok' in ts[-1]:
        chk.broken_obligation('stale-refutation:take_max_refuted', {'note': 'TypeScript now accepts take_max: swap the marked block of Props/C15.v'})

def replay(path):
    body = json.load(open(path))
    case = body['case']
    env = sandbox_env()
    try:
        chk = core.Check(PROP, 'quick', 0)
        if case.get('kind') == 'action':
            ts = c15_node.run_node([{'op': 'action', 'action': case['action']}])[0]
            sig = ('ts-rejects-emitted-action:' + case['action']) if 'err' in ts else None
            print(json.dumps({'signature': sig, 'ts': ts}, indent=1)[:3000])
        elif case.get('kind') == 'apply':
            t = [{'op': 'apply', 'base': case['base'], 'decisions': case['decisions']}]
            py = core.run_impl(t, script='c15_pyrun.py', env_extra=env)[0]; ts = c15_node.run_node(t)[0]
            sig = None
            if not (same(py, ts) or ('err' in py and 'err' in ts)):
                sig = decision_signature(case['base'], case['decisions'][0], py, ts) if len(case['decisions']) == 1 else 'ts-apply-differs:only-in-combination'
                if proto_root_cause('apply', [case], env)[0]:
                    sig = proto_signature('apply', case['base'], _decision_diffs(case['decisions']), ts, [d.get('common_path') for d in case['decisions']]) or sig
            print(json.dumps({'signature': sig, 'python': py.get('err', 'ok'), 'ts': ts.get('err', 'ok'), 'ts_msg': ts.get('msg')}, indent=1)[:3000])
        else:
            t = [{'op': 'patch', 'base': case['base'], 'diff': case['diff']}]
            py = core.run_impl(t, script='c15_pyrun.py', env_extra=env)[0]; ts = c15_node.run_node(t)[0]
            sig, det = judge_patch(case['base'], case['diff'], py, ts)
            if sig and isinstance(case['base'], str): sig = classify_string(case['base'], case['diff'], py, ts)
            if sig and proto_root_cause('patch', [case], env)[0]:
                sig = proto_signature('patch', case['base'], [case['diff']], ts) or sig
            print(json.dumps({'signature': sig, 'python': py.get('ok', py.get('err')), 'ts': ts.get('ok', ts.get('err'))}, indent=1, default=str)[:3000])
    finally:
        cleanup_env(env)
    if sig:
        print('VIOLATION property=%s replay=%s' % (PROP, path)); return 1
    return 0
