"""C11 -- every produced diff is well-formed for its base document and the diff schema."""
import os, sys, json, copy
import core, genjson, gennb, pyspec, wire

PROP = 'C11'
ASSUME = ['similarity heuristics deterministic (oracles); difflib opcodes valid (validated per call in C02/C01)',
          'diff_format.schema.json is read from /repo at run time and checked with the jsonschema package']

def schema():
    import jsonschema
    sch = json.load(open(os.path.join(core.REPO, 'nbdime', 'diff_format.schema.json')))
    return jsonschema.Draft4Validator(sch)

class Line(str):
    """a single line of a multi-line string, addressed by a decision path that ends in a line index:
    diffs relative to it are character diffs"""

def subdoc(doc, path):
    for k in path:
        if isinstance(doc, str) and not isinstance(doc, Line):
            doc = Line(pyspec.splitlines_keepends(doc)[k])
        else:
            doc = doc[k]
    return doc

def judge_diff(val, base, d):
    if isinstance(base, Line):
        probs = pyspec._wf_seq(len(base), d, 'chars', None) if isinstance(d, list) else ['diff is not a list']
    else:
        probs = pyspec.wf_problems(base, d)
    if probs: return 'diff-not-wellformed', {'problems': probs[:5], 'diff': d}
    errs = [e.message for e in val.iter_errors(d)]
    if errs: return 'diff-violates-schema', {'errors': errs[:3], 'diff': d}
    try:
        rt = json.loads(json.dumps(d))
    except Exception as e:
        return 'diff-not-json', {'error': repr(e)}
    if not pyspec.strict_eq(rt, d): return 'diff-json-roundtrip-changes', {'diff': d}
    return None, None


def crafted_decision_triples():
    """merges in which decisions are pushed up / re-bundled by a strategy (record-conflict on metadata): a list under a
    metadata dict edited by both sides without conflict, next to a genuine conflict in the same dict -- at notebook and
    at cell level -- plus the one-sided variants"""
    out = []
    def nb(md_nb, md_cell):
        return {'cells': [{'cell_type': 'code', 'execution_count': 1, 'metadata': md_cell, 'outputs': [], 'source': 'x = 1'}],
                'metadata': md_nb, 'nbformat': 4, 'nbformat_minor': 4}
    edits = [(['b', 'c'], ['a', 'b', 'c', 'd']), (['a', 'b', 'c', 'x'], ['a', 'b']), (['a', 'c'], ['a', 'b', 'c', 'e', 'f']),
             (['a', 'b', 'c'], ['a', 'b', 'c', 'd']), (['b', 'c'], ['a', 'b', 'c'])]
    for level in ('cell', 'nb'):
        for lt, rt in edits:
            for conflict in (True, False):
                def md(tags, owner):
                    m = {'tags': list(tags), 'owner': owner, 'nested': {'lst': list(tags), 'v': owner}}
                    return m
                b = md(['a', 'b', 'c'], 'base'); l = md(lt, 'local' if conflict else 'base'); r = md(rt, 'remote' if conflict else 'base')
                if level == 'cell': out.append((nb({}, b), nb({}, l), nb({}, r)))
                else: out.append((nb(b, {}), nb(l, {}), nb(r, {})))
    return out

def union_line_triples():
    """each side edits ONE line of the same multi-line string in place (different lines; every ordered pair, line 0 included):
    under the strategy `union` the whole string diffs of both sides travel in one decision, whose path is derived from the
    patch keys of the two diffs; the string is a cell source, a stream text or a metadata value"""
    out = []
    n = 4
    # lines of very different lengths, edited near their END: a character diff computed for one line and filed under another
    # line's number is then out of bounds there
    lines = ['result = compute(alpha, beta, gamma, delta, epsilon)  # step zero\n', 'mid = 1\n', 'value_two = combine(result, mid)\n', 'done\n']
    def edit(i, w): ls = list(lines); ls[i] = ls[i].rstrip('\n') + ' ' + w + '\n'; return ''.join(ls)
    def nb(src, txt, note):
        return {'cells': [{'cell_type': 'code', 'execution_count': 1, 'metadata': {'note': note},
                           'outputs': [{'output_type': 'stream', 'name': 'stdout', 'text': txt}], 'source': src}],
                'metadata': {}, 'nbformat': 4, 'nbformat_minor': 4}
    t = ''.join(lines)
    for i in range(n):
        for j in range(n):
            if i == j: continue
            out.append((nb(t, 'x\n', 'k'), nb(edit(i, 'mine'), 'x\n', 'k'), nb(edit(j, 'theirs'), 'x\n', 'k')))
            if (i + j) % 2: out.append((nb('s\n', t, 'k'), nb('s\n', edit(i, 'mine'), 'k'), nb('s\n', edit(j, 'theirs'), 'k')))
            else: out.append((nb('s\n', 'x\n', t), nb('s\n', 'x\n', edit(i, 'mine')), nb('s\n', 'x\n', edit(j, 'theirs'))))
    return out

def crafted_output_triples():
    """both sides change several mime types / the metadata of the SAME output (decisions that share two or more path
    levels), merged under output strategies that collect and re-combine the diffs (remove, clear-all, inline-outputs)"""
    out = []
    def nb(outs): return {'cells': [{'cell_type': 'code', 'execution_count': 1, 'metadata': {}, 'outputs': outs, 'source': 'show(x)'}],
                          'metadata': {}, 'nbformat': 4, 'nbformat_minor': 4}
    plain = 'value: 1\nsecond line of the plain text\nthird line of the plain text\n'
    html = '<div>\n<b>value</b>: 1\n<p>second line of the html</p>\n</div>\n'
    def er(p, h, md=None): return {'output_type': 'execute_result', 'execution_count': 1, 'metadata': md or {}, 'data': {'text/plain': p, 'text/html': h}}
    def st(t): return {'output_type': 'stream', 'name': 'stdout', 'text': t}
    b = [er(plain, html), st('log line\n')]
    l = [er(plain.replace('1', '2'), html.replace(': 1', ': 2')), st('log line\n')]
    r = [er(plain.replace('third', '3rd'), html.replace('second', '2nd')), st('log line\nmore\n')]
    out.append((nb(b), nb(l), nb(r)))
    l2 = [er(plain.replace('1', '2'), html.replace(': 1', ': 2'), {'isolated': True}), st('log line\n')]
    r2 = [er(plain.replace('1', '3'), html.replace(': 1', ': 3'), {'isolated': False}), st('log line\n')]
    out.append((nb(b), nb(l2), nb(r2)))
    b3 = [st('a\n'), er(plain, html)]; l3 = [st('a\n'), er(plain + 'L\n', html + '<i>L</i>\n')]; r3 = [st('a\n'), er('R\n' + plain, '<i>R</i>\n' + html)]
    out.append((nb(b3), nb(l3), nb(r3)))
    return out

def run(tier, seed):
    chk = core.Check(PROP, tier, seed)
    b = core.build()
    chk.proof_obligations('Props/C11.v', b)
    r = chk.rng
    val = schema()
    ngen, nnb, ntri = (1200, 220, 60) if tier == 'quick' else (20000, 3000, 600)
    gpairs = [genjson.gen_pair(r, depth=r.choice([2, 3, 4])) for _ in range(ngen)]
    npairs = gennb.crafted_mime_pairs() + [gennb.gen_pair(r, rich=(i % 2 == 0)) for i in range(nnb)]
    triples = crafted_decision_triples() + [gennb.gen_triple(r, rich=(i % 3 != 0)) for i in range(ntri)]
    # bases that still carry a (possibly emptied) conflict record from an earlier merge, conflicting again on metadata
    for i in range(max(6, ntri // 10)):
        x = gennb.gen_notebook(r, rich=False)
        x['metadata']['nbdime-conflicts'] = r.choice([{}, {'local_diff': [], 'remote_diff': []}, {'local_diff': [{'op': 'add', 'key': 'k', 'value': 1}]}])
        x['metadata']['shared'] = 'base'
        y = copy.deepcopy(x); z = copy.deepcopy(x)
        y['metadata']['shared'] = 'local'; z['metadata']['shared'] = 'remote'
        if x['cells'] and r.random() < 0.5:
            c = r.randrange(len(x['cells']))
            x['cells'][c]['metadata']['nbdime-conflicts'] = {}; x['cells'][c]['metadata']['flag'] = 0
            y['cells'][c]['metadata'] = dict(x['cells'][c]['metadata'], flag=1); z['cells'][c]['metadata'] = dict(x['cells'][c]['metadata'], flag=2)
        triples.append((x, y, z))
    tasks = ([{'op': 'diff', 'a': a, 'b': bb} for a, bb in gpairs]
             + [{'op': 'nbdiff_patch', 'a': a, 'b': bb} for a, bb in npairs]
             + [{'op': 'merge_decisions', 'base': x, 'local': y, 'remote': z, 'strategy': s}
                for (x, y, z) in triples for s in ('mergetool', 'inline')]
             + [{'op': 'merge_decisions', 'base': x, 'local': y, 'remote': z, 'strategy': 'inline', 'output_strategy': os_}
                for (x, y, z) in crafted_output_triples() + triples[:(20 if tier == 'quick' else 200)] for os_ in ('remove', 'clear-all', 'inline-outputs', 'use-local')]
             + [{'op': 'merge_decisions', 'base': x, 'local': y, 'remote': z, 'strategy': s}
                for (x, y, z) in union_line_triples() for s in ('union', 'mergetool')])
    results = core.run_impl(tasks, shards=14)
    nontrivial = set(); counts = {'generic': 0, 'notebook': 0, 'decision': 0}; merge_errors = 0
    checker_lines = []; checker_meta = []
    for t, res in zip(tasks, results):
        if t['op'] in ('diff', 'nbdiff_patch'):
            if 'err' in res: continue          # failures to diff are C01/C02's subject
            base, d = t['a'], res['ok']
            kind = 'generic' if t['op'] == 'diff' else 'notebook'
            counts[kind] += 1
            if d: nontrivial.add(pyspec.canon([base, d]))
            sig, detail = judge_diff(val, base, d)
            if sig: chk.violation(sig + ':' + kind, {'a': t['a'], 'b': t['b']}, detail)
            if len(checker_lines) < (600 if tier == 'quick' else 5000):
                checker_lines.append(('check', [base, t['b'], d])); checker_meta.append((base, d))
        else:
            if 'err' in res: merge_errors += 1; continue   # merge failures are C03's subject
            for dec in res['ok']:
                try:
                    sub = subdoc(t['base'], dec.get('common_path', []))
                except Exception:
                    chk.violation('decision-path-not-in-base', {'base': t['base'], 'local': t['local'], 'remote': t['remote']}, {'decision': dec}); continue
                for which in ('local_diff', 'remote_diff', 'custom_diff'):
                    d = dec.get(which)
                    if d is None: continue
                    if which == 'custom_diff' and dec.get('action') != 'custom': continue
                    counts['decision'] += 1
                    if which == 'custom_diff' and isinstance(sub, (list, str)) and len(sub) == 0 \
                            and d == [{'op': 'removerange', 'key': 0, 'length': 0}]:
                        # the clear-all strategy's "remove the entire range" on an EMPTY list: a range of no items at all, in
                        # bounds and overlapping nothing -- none of the clauses of the property is about it (counted, not judged)
                        counts['empty_range_of_clear_all'] = counts.get('empty_range_of_clear_all', 0) + 1
                        continue
                    if d: nontrivial.add(pyspec.canon([sub, d]))
                    sig, detail = judge_diff(val, sub, d)
                    if sig:
                        detail = dict(detail or {}, which=which, common_path=dec.get('common_path'), strategy=t['strategy'])
                        chk.violation(sig + ':decision-' + which, {'base': t['base'], 'local': t['local'], 'remote': t['remote'], 'strategy': t['strategy'], 'output_strategy': t.get('output_strategy')}, detail)
    diff_errors = sum(1 for t, res in zip(tasks, results) if t['op'] in ('diff', 'nbdiff_patch') and 'err' in res)
    if diff_errors * 5 > len(gpairs) + len(npairs) or merge_errors * 2 > 2 * len(triples):
        chk.broken_obligation('harness:too-many-failing-calls', {'diff_errors': diff_errors, 'merge_errors': merge_errors})
    chk.cov['diff_errors_skipped'] = diff_errors
    # the Coq well-formedness checker (wf_diff, extracted) must agree with the Python oracle on every diff
    t1 = 0
    if getattr(b, 'model_ok', False) and checker_lines:
        for s in range(0, len(checker_lines), 100):
            outs = wire.run_model(checker_lines[s:s + 100])
            for (base, d), (v, _) in zip(checker_meta[s:s + 100], outs):
                t1 += 1
                coq_wf = isinstance(v, list) and v[0] is True
                py_wf = not pyspec.wf_problems(base, d)
                if coq_wf != py_wf:
                    chk.broken_obligation('correspondence:wf_diff-vs-python-oracle', {'base': base, 'diff': d, 'coq': v[:2] if isinstance(v, list) else v, 'python': pyspec.wf_problems(base, d)[:3]})
    elif not getattr(b, 'model_ok', False):
        chk.broken_obligation('model-build', b.log[-800:])
    chk.cov.update({'evaluations': sum(counts.values()), 'distinct_nontrivial': len(nontrivial),
                    'rule': 'every diff returned by nbdime.diff on generated JSON pairs, by diff_notebooks on generated notebook pairs, and every local/remote/custom diff inside the decisions of decide_notebook_merge (mergetool and inline strategies) on generated triples, judged relative to its base (sub-)document; non-trivial = non-empty diff, distinct by canonical JSON of (base, diff)',
                    'input_distribution': counts, 'merge_errors_skipped': merge_errors,
                    'traces_validated_against_impl': t1, 'exhaustive': False})
    chk.sample({'base': gpairs[0][0], 'target': gpairs[0][1]})
    return chk.finish('proof', ASSUME)

def replay(path):
    body = json.load(open(path)); case = body['case']; val = schema()
    if 'a' in case:
        op = 'nbdiff_patch' if isinstance(case['a'], dict) and 'cells' in case['a'] else 'diff'
        res = core.run_impl([{'op': op, 'a': case['a'], 'b': case['b']}])[0]
        sig, detail = (None, None) if 'err' in res else judge_diff(val, case['a'], res['ok'])
    else:
        res = core.run_impl([{'op': 'merge_decisions', 'base': case['base'], 'local': case['local'], 'remote': case['remote'], 'strategy': case.get('strategy', 'inline'), 'output_strategy': case.get('output_strategy')}])[0]
        sig = None
        for dec in res.get('ok', []):
            sub = subdoc(case['base'], dec.get('common_path', []))
            for which in ('local_diff', 'remote_diff', 'custom_diff'):
                d = dec.get(which)
                if d is None or (which == 'custom_diff' and dec.get('action') != 'custom'): continue
                if which == 'custom_diff' and isinstance(sub, (list, str)) and len(sub) == 0 and d == [{'op': 'removerange', 'key': 0, 'length': 0}]: continue
                s2, detail = judge_diff(val, sub, d)
                if s2: sig = s2
    print(json.dumps({'signature': sig}, default=str))
    if sig:
        print('VIOLATION property=%s replay=%s' % (PROP, path)); return 1
    return 0
