"""C11 -- every produced diff is well-formed for its base document and the diff schema."""
import os, sys, json, copy
import core, genjson, gennb, pyspec, wire

PROP = 'C11'
ASSUME = ['similarity heuristics deterministic (oracles); difflib opcodes valid (validated per call in C02/C01)',
          'diff_format.schema.json is read from /repo at run time and checked with the jsonschema package']

def schema():
    import jsonschema
    sch = json.load(open(os.path.join(core.REPO, 'nbdime', 'diff_format.schema.json')))
    return jsonschema.Draft4Validator(sch)

class Line(str):
    """a single line of a multi-line string, addressed by a decision path that ends in a line index:
    diffs relative to it are character diffs"""

def subdoc(doc, path):
    for k in path:
        if isinstance(doc, str) and not isinstance(doc, Line):
            doc = Line(pyspec.splitlines_keepends(doc)[k])
        else:
            doc = doc[k]
    return doc

def judge_diff(val, base, d):
    if isinstance(base, Line):
        probs = pyspec._wf_seq(len(base), d, 'chars', None) if isinstance(d, list) else ['diff is not a list']
    else:
        probs = pyspec.wf_problems(base, d)
    if probs: return 'diff-not-wellformed', {'problems': probs[:5], 'diff': d}
    errs = [e.message for e in val.iter_errors(d)]
    if errs: return 'diff-violates-schema', {'errors': errs[:3], 'diff': d}
    try:
        rt = json.loads(json.dumps(d))
    except Exception as e:
        return 'diff-not-json', {'error': repr(e)}
    if not pyspec.strict_eq(rt, d): return 'diff-json-roundtrip-changes', {'diff': d}
    return None, None


def crafted_decision_triples():
    """merges in which decisions are pushed up / re-bundled by a strategy (record-conflict on metadata): a list under a
    metadata dict edited by both sides without conflict, next to a genuine conflict in the same dict -- at notebook and
    at cell level -- plus the one-sided variants"""
    out = []
    def nb(md_nb, md_cell):
        return {'cells': [{'cell_type': 'code', 'execution_count': 1, 'metadata': md_cell, 'outputs': [], 'source': 'x = 1'}],
                'metadata': md_nb, 'nbformat': 4, 'nbformat_minor': 4}
    edits = [(['b', 'c'], ['a', 'b', 'c', 'd']), (['a', 'b', 'c', 'x'], ['a', 'b']), (['a', 'c'], ['a', 'b', 'c', 'e', 'f']),
             (['a', 'b', 'c'], ['a', 'b', 'c', 'd']), (['b', 'c'], ['a', 'b', 'c'])]
    for level in ('cell', 'nb'):
        for lt, rt in edits:
            for conflict in (True, False):
                def md(tags, owner):
                    m = {'tags': list(tags), 'owner': owner, 'nested': {'lst': list(tags), 'v': owner}}
                    return m
                b = md(['a', 'b', 'c'], 'base'); l = md(lt, 'local' if conflict else 'base'); r = md(rt, 'remote' if conflict else 'base')
                if level == 'cell': out.append((nb({}, b), nb({}, l), nb({}, r)))
                else: out.append((nb(b, {}), nb(l, {}), nb(r, {})))
    return out

def union_line_triples():
    """each side edits ONE line of the same multi-line string in place (different lines; every ordered pair, line 0 included):
    under the strategy `union` the whole string diffs of both sides travel in one decision, whose path is derived from the
    patch keys of the two diffs; the string is a cell source, a stream text or a metadata value"""
    out = []
    n = 4
    # lines of very different lengths, edited near their END: a character diff computed for one line and filed under another
    # line's number is then out of bounds there
    lines = ['result = compute(alpha, beta, gamma, delta, epsilon)  # step zero\n', 'mid = 1\n', 'value_two = combine(result, mid)\n', 'done\n']
    def edit(i, w): ls = list(lines); ls[i] = ls[i].rstrip('\n') + ' ' + w + '\n'; return ''.join(ls)
    def nb(src, txt, note):
        return {'cells': [{'cell_type': 'code', 'execution_count': 1, 'metadata': {'note': note},
                           'outputs': [{'output_type': 'stream', 'name': 'stdout', 'text': txt}], 'source': src}],
                'metadata': {}, 'nbformat': 4, 'nbformat_minor': 4}
    t = ''.join(lines)
    for i in range(n):
        for j in range(n):
            if i == j: continue
            out.append((nb(t, 'x\n', 'k'), nb(edit(i, 'mine'), 'x\n', 'k'), nb(edit(j, 'theirs'), 'x\n', 'k')))
            if (i + j) % 2: out.append((nb('s\n', t, 'k'), nb('s\n', edit(i, 'mine'), 'k'), nb('s\n', edit(j, 'theirs'), 'k')))
            else: out.append((nb('s\n', 'x\n', t), nb('s\n', 'x\n', edit(i, 'mine')), nb('s\n', 'x\n', edit(j, 'theirs'))))
    return out

def crafted_output_triples():
    """both sides change several mime types / the metadata of the SAME output (decisions that share two or more path
    levels), merged under output strategies that collect and re-combine the diffs (remove, clear-all, inline-outputs)"""
    out = []
    def nb(outs): return {'cells': [{'cell_type': 'code', 'execution_count': 1, 'metadata': {}, 'outputs': outs, 'source': 'show(x)'}],
                          'metadata': {}, 'nbformat': 4, 'nbformat_minor': 4}
    plain = 'value: 1\nsecond line of the plain text\nthird line of the plain text\n'
    html = '<div>\n<b>value</b>: 1\n<p>second line of the html</p>\n</div>\n'
    def er(p, h, md=None): return {'output_type': 'execute_result', 'execution_count': 1, 'metadata': md or {}, 'data': {'text/plain': p, 'text/html': h}}
    def st(t): return {'output_type': 'stream', 'name': 'stdout', 'text': t}
    b = [er(plain, html), st('log line\n')]
    l = [er(plain.replace('1', '2'), html.replace(': 1', ': 2')), st('log line\n')]
    r = [er(plain.replace('third', '3rd'), html.replace('second', '2nd')), st('log line\nmore\n')]
    out.append((nb(b), nb(l), nb(r)))
    l2 = [er(plain.replace('1', '2'), html.replace(': 1', ': 2'), {'isolated': True}), st('log line\n')]
    r2 = [er(plain.replace('1', '3'), html.replace(': 1', ': 3'), {'isolated': False}), st('log line\n')]
    out.append((nb(b), nb(l2), nb(r2)))
    b3 = [st('a\n'), er(plain, html)]; l3 = [st('a\n'), er(plain + 'L\n', html + '<i>L</i>\n')]; r3 = [st('a\n'), er('R\n' + plain, '<i>R</i>\n' + html)]
    out.append((nb(b3), nb(l3), nb(r3)))
    # atomic conflicts two and three levels below the outputs list (a binary mime payload, a scalar of the output's
    # metadata, a scalar nested in the metadata of one mime type), alone and next to a stream output that only one side edits:
    # the decision then sits at outputs/<i>/data resp. outputs/<i>/metadata and a collecting strategy has to re-root it
    def dd(png, md=None, txt='<Figure>'): return {'output_type': 'display_data', 'metadata': md or {}, 'data': {'text/plain': txt, 'image/png': png}}
    out.append((nb([dd('AAAA')]), nb([dd('BBBB')]), nb([dd('CCCC')])))
    out.append((nb([dd('AAAA', {'w': 1})]), nb([dd('AAAA', {'w': 2})]), nb([dd('AAAA', {'w': 3})])))
    out.append((nb([dd('AAAA', {'image/png': {'width': 1}})]), nb([dd('AAAA', {'image/png': {'width': 2}})]), nb([dd('AAAA', {'image/png': {'width': 3}})])))
    out.append((nb([st('a\n'), dd('AAAA', {'w': 1})]), nb([st('a\nL\n'), dd('BBBB', {'w': 2})]), nb([st('a\n'), dd('CCCC', {'w': 3})])))
    return out

CONFIG_KINDS = ('by_field', 'casefold', 'head', 'mixed', 'by_field')
CONFIG_SHAPES = ('top', 'key', 'deep', 'two', 'top')

def config_pairs(r, n):
    """the generic differ called through its PUBLIC `config` argument with ONE predicate per list path that is a similarity and
    not strict equality (implrun.make_config: records matched by an id field, strings matched up to case, lists matched by
    their first item, or all three): the single-level branch of diff_lists, which recurses into the matched items.  b is
    derived from a by a script of insertions, removals and IN-PLACE edits (an edited item still matches its original), so
    that matched-but-edited items come before, between and after shifts of the list; varied over the predicate kind, the
    name of the id field, the place of the list (root, under a key, two levels down, next to a list that keeps the default
    predicate), records that carry a list of records themselves, the registration (every path / only the named paths) and
    the container type of the predicate collection.  Returns [(a, b, config spec)]."""
    out = []
    for i in range(n):
        kind = CONFIG_KINDS[i % len(CONFIG_KINDS)]; shape = CONFIG_SHAPES[(i // len(CONFIG_KINDS)) % len(CONFIG_SHAPES)]
        field = r.choice(['id', 'id', 'name', 'k'])
        ctr = [0]
        def ident():
            ctr[0] += 1
            return ctr[0] if field != 'name' else 'r%d' % ctr[0]
        def payload():
            c = r.random()
            if c < 0.3: return genjson.gen_line(r) or 'w'
            if c < 0.45: return genjson.gen_text(r, nlines=r.choice([2, 3, 4]), seps=['\n'])
            if c < 0.6: return r.randint(0, 9)
            if c < 0.8: return [r.choice(['p', 'q', 's', 1, 2]) for _ in range(r.randint(0, 3))]
            return {'u': r.randint(0, 3), 'v': genjson.gen_line(r)}
        def edit_payload(v):
            if isinstance(v, str):
                w = genjson.edit_text(r, v)
                return w if w != v else v + '!'
            if isinstance(v, int): return v + 1
            if isinstance(v, list): return v + ['t'] if r.random() < 0.5 or not v else v[1:]
            w = dict(v); w['u'] = w['u'] + 1
            if r.random() < 0.4: w['w'] = 'new'
            return w
        def fresh(k, depth):
            if k == 'mixed': k = r.choice(['by_field', 'casefold', 'head'])
            if k == 'by_field':
                rec = {field: ident(), 'value': payload()}
                if r.random() < 0.3: rec['note'] = genjson.gen_line(r)
                if depth > 0 and r.random() < 0.3: rec['children'] = [fresh('by_field', depth - 1) for _ in range(r.randint(1, 4))]
                return rec
            if k == 'casefold':
                ctr[0] += 1
                return 'Item %d %s\n' % (ctr[0], genjson.gen_line(r)) + ('second Line of %d\n' % ctr[0] if r.random() < 0.3 else '')
            ctr[0] += 1
            return ['tag%d' % ctr[0]] + [payload() for _ in range(r.randint(0, 3))]
        def edit(x, depth):
            """an edited item that the predicate still matches with x"""
            if isinstance(x, dict):
                y = copy.deepcopy(x); c = r.random()
                if 'children' in y and c < 0.6: y['children'] = edit_list(y['children'], 'by_field', depth - 1)
                if c > 0.3 or pyspec.strict_eq(x, y): y['value'] = edit_payload(y['value'])
                if c > 0.85: y['extra'] = True
                return y
            if isinstance(x, str):
                ws = x.split(' ')
                j = r.choice([n for n, w in enumerate(ws) if w.swapcase() != w]); ws[j] = ws[j].swapcase()
                if r.random() < 0.3: ws[0] = ws[0].swapcase()
                return ' '.join(ws)
            y = copy.deepcopy(x)
            if len(y) > 1 and r.random() < 0.6: y[r.randrange(1, len(y))] = 'changed'
            else: y.insert(r.randint(1, len(y)), payload())
            return y
        def edit_list(items, k, depth):
            res = []
            p_ins, p_del, p_edit = r.choice([(0.25, 0.2, 0.4), (0.4, 0.05, 0.5), (0.05, 0.4, 0.5), (0.15, 0.15, 0.2)])
            for x in items:
                while r.random() < p_ins: res.append(fresh(k, depth))
                c = r.random()
                if c < p_del: continue
                res.append(edit(x, depth) if c < p_del + p_edit else copy.deepcopy(x))
            while r.random() < p_ins: res.append(fresh(k, depth))
            if len(res) > 1 and r.random() < 0.1: res.insert(r.randrange(len(res)), res.pop(r.randrange(len(res))))
            if items and r.random() < 0.08: res.insert(r.randint(0, len(res)), copy.deepcopy(r.choice(items)))   # a second item that matches
            return res
        depth = r.choice([0, 1, 1, 2])
        la = [fresh(kind, depth) for _ in range(r.choice([1, 2, 3, 4, 5, 6, 8]))]
        lb = edit_list(la, kind, depth)
        if shape == 'top': a, b, root = la, lb, ''
        elif shape == 'key':
            a = {'rows': la, 'title': 'T', 'n': 1}; b = {'rows': lb, 'title': r.choice(['T', 'T2']), 'n': r.choice([1, 2])}; root = '/rows'
        elif shape == 'deep':
            a = {'doc': {'rows': la, 'm': {}}, 'z': []}; b = {'doc': {'rows': lb, 'm': r.choice([{}, {'q': 1}])}, 'z': []}; root = '/doc/rows'
        else:
            other = [fresh('by_field', 0) for _ in range(r.randint(0, 3))]
            a = {'left': la, 'right': other}; b = {'left': lb, 'right': edit_list(other, 'by_field', 0)}; root = '/left'
        if shape != 'two' and r.random() < 0.4: paths = None
        else:
            paths = [root or '/']
            if r.random() < 0.7: paths.append(root + '/*/children')
        out.append((a, b, {'kind': kind, 'field': field, 'paths': paths, 'seq': r.choice(['list', 'list', 'tuple'])}))
    return out

def shifted_item_patch(base, d):
    """does the diff patch an item of some LIST of the base (at any depth) after an addrange / removerange of that list?"""
    shift = False
    for e in d:
        if e.get('op') in ('addrange', 'removerange'): shift = True
        elif e.get('op') == 'patch':
            try: sub = base[e['key']]
            except Exception: return True
            if isinstance(base, list) and shift: return True
            if isinstance(sub, (list, dict)) and shifted_item_patch(sub, e.get('diff') or []): return True
    return False

def judge_config(val, t, res):
    """well-formedness relative to the base, schema and JSON round trip as for every other diff; and the diff must describe
    the change it was computed for: a nested patch filed under another item's position can be well-formed for that item"""
    sig, detail = judge_diff(val, t['a'], res['ok'])
    if sig: return sig + ':generic-config', detail
    p = res.get('patched') or {}
    if 'err' in p: return 'config-diff-does-not-apply', {'diff': res['ok'], 'error': p.get('err'), 'msg': p.get('msg')}
    if not pyspec.strict_eq(p.get('ok'), t['b']): return 'config-diff-patches-to-other-document', {'diff': res['ok'], 'patched': p.get('ok')}
    return None, None

def run(tier, seed):
    chk = core.Check(PROP, tier, seed)
    b = core.build()
    chk.proof_obligations('Props/C11.v', b)
    r = chk.rng
    val = schema()
    ngen, nnb, ntri = (1200, 220, 60) if tier == 'quick' else (20000, 3000, 600)
    gpairs = [genjson.gen_pair(r, depth=r.choice([2, 3, 4])) for _ in range(ngen)]
    npairs = gennb.crafted_mime_pairs() + [gennb.gen_pair(r, rich=(i % 2 == 0)) for i in range(nnb)]
    triples = crafted_decision_triples() + [gennb.gen_triple(r, rich=(i % 3 != 0)) for i in range(ntri)]
    # bases that still carry a (possibly emptied) conflict record from an earlier merge, conflicting again on metadata
    for i in range(max(6, ntri // 10)):
        x = gennb.gen_notebook(r, rich=False)
        x['metadata']['nbdime-conflicts'] = r.choice([{}, {'local_diff': [], 'remote_diff': []}, {'local_diff': [{'op': 'add', 'key': 'k', 'value': 1}]}])
        x['metadata']['shared'] = 'base'
        y = copy.deepcopy(x); z = copy.deepcopy(x)
        y['metadata']['shared'] = 'local'; z['metadata']['shared'] = 'remote'
        if x['cells'] and r.random() < 0.5:
            c = r.randrange(len(x['cells']))
            x['cells'][c]['metadata']['nbdime-conflicts'] = {}; x['cells'][c]['metadata']['flag'] = 0
            y['cells'][c]['metadata'] = dict(x['cells'][c]['metadata'], flag=1); z['cells'][c]['metadata'] = dict(x['cells'][c]['metadata'], flag=2)
        triples.append((x, y, z))
    tasks = ([{'op': 'diff', 'a': a, 'b': bb} for a, bb in gpairs]
             + [{'op': 'nbdiff_patch', 'a': a, 'b': bb} for a, bb in npairs]
             + [{'op': 'merge_decisions', 'base': x, 'local': y, 'remote': z, 'strategy': s}
                for (x, y, z) in triples for s in ('mergetool', 'inline')]
             + [{'op': 'merge_decisions', 'base': x, 'local': y, 'remote': z, 'strategy': 'inline', 'output_strategy': os_}
                for (x, y, z) in crafted_output_triples() + triples[:(20 if tier == 'quick' else 200)] for os_ in ('remove', 'clear-all', 'inline-outputs', 'use-local')]
             + [{'op': 'merge_decisions', 'base': x, 'local': y, 'remote': z, 'strategy': s}
                for (x, y, z) in union_line_triples() for s in ('union', 'mergetool')])
    # (appended last: the random streams of the families above stay as they were)
    cpairs = config_pairs(r, 400 if tier == 'quick' else 8000)
    tasks += [{'op': 'diff_config', 'a': a, 'b': bb, 'config': cfg} for a, bb, cfg in cpairs]
    results = core.run_impl(tasks, shards=14)
    nontrivial = set(); counts = {'generic': 0, 'notebook': 0, 'decision': 0}; merge_errors = 0
    checker_lines = []; checker_meta = []
    cfg_cov = {'errors': 0, 'with_item_patch_after_a_shift': 0}
    for t, res in zip(tasks, results):
        if t['op'] == 'diff_config':
            if 'err' in res:
                # the differ itself fails on a list of matched-but-edited items (its sanity assertions included)
                cfg_cov['errors'] += 1
                chk.violation('config-diff-raises', {'a': t['a'], 'b': t['b'], 'config': t['config']}, {'error': res.get('err'), 'msg': res.get('msg')})
                continue
            counts['generic_config'] = counts.get('generic_config', 0) + 1
            if res['ok']: nontrivial.add(pyspec.canon([t['a'], res['ok']]))
            if shifted_item_patch(t['a'], res['ok']): cfg_cov['with_item_patch_after_a_shift'] += 1
            sig, detail = judge_config(val, t, res)
            if sig: chk.violation(sig, {'a': t['a'], 'b': t['b'], 'config': t['config']}, detail)
            continue
        if t['op'] in ('diff', 'nbdiff_patch'):
            if 'err' in res: continue          # failures to diff are C01/C02's subject
            base, d = t['a'], res['ok']
            kind = 'generic' if t['op'] == 'diff' else 'notebook'
            counts[kind] += 1
            if d: nontrivial.add(pyspec.canon([base, d]))
            sig, detail = judge_diff(val, base, d)
            if sig: chk.violation(sig + ':' + kind, {'a': t['a'], 'b': t['b']}, detail)
            if len(checker_lines) < (600 if tier == 'quick' else 5000):
                checker_lines.append(('check', [base, t['b'], d])); checker_meta.append((base, d))
        else:
            if 'err' in res: merge_errors += 1; continue   # merge failures are C03's subject
            for dec in res['ok']:
                try:
                    sub = subdoc(t['base'], dec.get('common_path', []))
                except Exception:
                    chk.violation('decision-path-not-in-base', {'base': t['base'], 'local': t['local'], 'remote': t['remote']}, {'decision': dec}); continue
                for which in ('local_diff', 'remote_diff', 'custom_diff'):
                    d = dec.get(which)
                    if d is None: continue
                    if which == 'custom_diff' and dec.get('action') != 'custom': continue
                    counts['decision'] += 1
                    if which == 'custom_diff' and isinstance(sub, (list, str)) and len(sub) == 0 \
                            and d == [{'op': 'removerange', 'key': 0, 'length': 0}]:
                        # the clear-all strategy's "remove the entire range" on an EMPTY list: a range of no items at all, in
                        # bounds and overlapping nothing -- none of the clauses of the property is about it (counted, not judged)
                        counts['empty_range_of_clear_all'] = counts.get('empty_range_of_clear_all', 0) + 1
                        continue
                    if d: nontrivial.add(pyspec.canon([sub, d]))
                    sig, detail = judge_diff(val, sub, d)
                    if sig:
                        detail = dict(detail or {}, which=which, common_path=dec.get('common_path'), strategy=t['strategy'])
                        chk.violation(sig + ':decision-' + which, {'base': t['base'], 'local': t['local'], 'remote': t['remote'], 'strategy': t['strategy'], 'output_strategy': t.get('output_strategy')}, detail)
    diff_errors = sum(1 for t, res in zip(tasks, results) if t['op'] in ('diff', 'nbdiff_patch') and 'err' in res)
    if diff_errors * 5 > len(gpairs) + len(npairs) or merge_errors * 2 > 2 * len(triples):
        chk.broken_obligation('harness:too-many-failing-calls', {'diff_errors': diff_errors, 'merge_errors': merge_errors})
    chk.cov['diff_errors_skipped'] = diff_errors
    # the Coq well-formedness checker (wf_diff, extracted) must agree with the Python oracle on every diff
    t1 = 0
    if getattr(b, 'model_ok', False) and checker_lines:
        for s in range(0, len(checker_lines), 100):
            outs = wire.run_model(checker_lines[s:s + 100])
            for (base, d), (v, _) in zip(checker_meta[s:s + 100], outs):
                t1 += 1
                coq_wf = isinstance(v, list) and v[0] is True
                py_wf = not pyspec.wf_problems(base, d)
                if coq_wf != py_wf:
                    chk.broken_obligation('correspondence:wf_diff-vs-python-oracle', {'base': base, 'diff': d, 'coq': v[:2] if isinstance(v, list) else v, 'python': pyspec.wf_problems(base, d)[:3]})
    elif not getattr(b, 'model_ok', False):
        chk.broken_obligation('model-build', b.log[-800:])
    chk.cov.update({'evaluations': sum(counts.values()), 'distinct_nontrivial': len(nontrivial),
                    'rule': 'every diff returned by nbdime.diff on generated JSON pairs, by diff_notebooks on generated notebook pairs, and every local/remote/custom diff inside the decisions of decide_notebook_merge (mergetool and inline strategies) on generated triples, judged relative to its base (sub-)document; non-trivial = non-empty diff, distinct by canonical JSON of (base, diff)'
                            '; plus (generic_config) every diff returned by nbdime.diff(a, b, config=DiffConfig(predicates=...)) with ONE similarity predicate per list path (records matched by an id field / strings up to case / lists by their first item / all three; registered for every path or for named paths only) on generated lists of such items under scripts of insertions, removals and in-place edits -- the single-predicate branch of diff_lists recursing into matched items at shifted positions -- judged by the same well-formedness / schema / JSON oracle relative to the base, and by patch(a, diff) == b since a nested patch filed under another item can still be well-formed there; these cases are judged by the Python oracle only: the comparison with the Coq checker (T1, traces_validated_against_impl) does not cover them',
                    'input_distribution': counts, 'generic_config': cfg_cov, 'merge_errors_skipped': merge_errors,
                    'traces_validated_against_impl': t1, 'exhaustive': False})
    chk.sample({'base': gpairs[0][0], 'target': gpairs[0][1]})
    return chk.finish('proof', ASSUME)

def replay(path):
    body = json.load(open(path)); case = body['case']; val = schema()
    if 'config' in case:
        t = {'op': 'diff_config', 'a': case['a'], 'b': case['b'], 'config': case['config']}
        res = core.run_impl([t])[0]
        sig, detail = ('config-diff-raises', None) if 'err' in res else judge_config(val, t, res)
    elif 'a' in case:
        op = 'nbdiff_patch' if isinstance(case['a'], dict) and 'cells' in case['a'] else 'diff'
        res = core.run_impl([{'op': op, 'a': case['a'], 'b': case['b']}])[0]
        sig, detail = (None, None) if 'err' in res else judge_diff(val, case['a'], res['ok'])
    else:
        res = core.run_impl([{'op': 'merge_decisions', 'base': case['base'], 'local': case['local'], 'remote': case['remote'], 'strategy': case.get('strategy', 'inline'), 'output_strategy': case.get('output_strategy')}])[0]
        sig = None
        for dec in res.get('ok', []):
            sub = subdoc(case['base'], dec.get('common_path', []))
            for which in ('local_diff', 'remote_diff', 'custom_diff'):
                d = dec.get(which)
                if d is None or (which == 'custom_diff' and dec.get('action') != 'custom'): continue
                if which == 'custom_diff' and isinstance(sub, (list, str)) and len(sub) == 0 and d == [{'op': 'removerange', 'key': 0, 'length': 0}]: continue
                s2, detail = judge_diff(val, sub, d)
                if s2: sig = s2
    print(json.dumps({'signature': sig}, default=str))
    if sig:
        print('VIOLATION property=%s replay=%s' % (PROP, path)); return 1
    return 0
