"""C20 -- the local web server's API agrees with the library and writes only where told at start-up.

Proof side: coq/Props/C20.v (model coq/Sys/Server.v, facts regenerated from nbdimeserver.py by tools/gen/gen_server.py).
Tie (T1): request sequences are played against the REAL main_server / handlers (harness/c20_runner.py, Tornado on an
  ephemeral port, stubbed jupyter_server/jinja2; some sessions are started by main(argv) of the real console entry
  modules, c20_gen.gen_entry_scenario) and against the model (coq/Sys/ServerRun.v under coqc, library tables
  recorded from nbformat / nbdime / os.path) and compared step by step: status, body, directory contents, stop, exit code.
Property on the implementation (T2): evaluated directly on what the real server did, with oracles that share no code
  with nbdime's web layer (pyspec.spec_patch, nbformat, directory snapshots, the library called in a fresh process)."""
import re
import os, sys, time, json, copy, re, base64, hashlib, posixpath, tempfile, shutil, subprocess, math, urllib.parse
from concurrent.futures import ThreadPoolExecutor
import core, pyspec, c20_gen

PROP = 'C20'
ROOTM = '/R'
ASSUME = [
    'Tornado: first matching route; 404 when none, 405 for a method the handler class does not define, 500 for an exception that is not an HTTPError (constants st_not_found/st_no_method/st_uncaught of Sys/Server.v; compared with the real Tornado on every case)',
    'jupyter_server.base.handlers.{JupyterHandler,APIHandler} are replaced by thin tornado.web.RequestHandler subclasses (no authentication / XSRF layer); jinja2 rendering is a stub',
    'nbformat (reads, from_dict, writes, v4.new_notebook), os.path (join, realpath) and json are libraries: Section variables of the model, tabulated from the real libraries per case',
    'nbdime.diff_notebooks / decide_notebook_merge are Section variables (any behaviour); diff_endpoint_patches assumes the library round trip patch(a, diff(a,b)) = b, which is property C01 and is re-checked here on every diff response with the independent patcher pyspec.spec_patch',
    'network access is disabled in the rig (requests.get raises ConnectionError): URL arguments are always unreadable',
    'int(s, 10) is modelled on [+-]?[0-9]+ only; the generator stays inside that domain',
    'sessions started through a console entry point (main(argv) of the real module): webbrowser.get is made to fail so no browser is opened, and nbdimeserver.init_app is wrapped only to learn the port; the kind of session a command line asks for (plain / diff web / merge web answer for the request, diff tool / merge tool for the command line; --out, -w, --base-url, --persist) is the harness\'s reading of the documented commands; git-revision arguments of nbdiff-web are outside the explored space',
    'file-like difftool arguments (git difftool passing open files) are not modelled; processes run as root, so permission failures of open() are outside the explored space',
]
F12_SIG = 'store-truncates-output-before-serialising'

# ----------------------------------------------------------------------------- small helpers
def cell_ids(nb):
    return {c.get('id') for c in (nb.get('cells') or []) if isinstance(c, dict) and 'id' in c} if isinstance(nb, dict) else set()

def all_cell_ids(x, acc=None):
    acc = set() if acc is None else acc
    if isinstance(x, dict):
        if 'cell_type' in x and isinstance(x.get('id'), str): acc.add(x['id'])
        for v in x.values(): all_cell_ids(v, acc)
    elif isinstance(x, list):
        for v in x: all_cell_ids(v, acc)
    return acc

def mask_generated_ids(x, known):
    """cell ids that occur in none of the three input notebooks were generated at random by nbformat while READING a 4.5 notebook
    with an id-less cell (each process draws its own): they are compared as a placeholder"""
    if isinstance(x, dict):
        y = {k: mask_generated_ids(v, known) for k, v in x.items()}
        if 'cell_type' in y and isinstance(y.get('id'), str) and y['id'] not in known: y['id'] = '<generated>'
        return y
    if isinstance(x, list): return [mask_generated_ids(v, known) for v in x]
    return x

def canon(v): return json.dumps(v, sort_keys=True, ensure_ascii=True)
def mp(s): return s.replace('{ROOT}', ROOTM) if isinstance(s, str) else s


class Ids:
    def __init__(self, start=1): self.d = {}; self.n = start
    def get(self, k):
        if k not in self.d: self.d[k] = self.n; self.n += 1
        return self.d[k]


def body_bytes(rq):
    if rq['method'] == 'GET': return b''
    if 'body_b64' in rq: return base64.b64decode(rq['body_b64'])
    return mp(rq.get('body', '')).encode('utf-8')


def classify_body(rq, for_close=False):
    """('bad8',None) | ('notjson',None) | ('json', value) -- the way the handler decodes the body"""
    b = body_bytes(rq)
    if for_close:
        try: return ('json', json.loads(b))
        except json.JSONDecodeError: return ('notjson', None)
        except UnicodeDecodeError: return ('bad8', None)
    try: s = b.decode('utf-8')
    except UnicodeDecodeError: return ('bad8', None)
    try: return ('json', json.loads(s))
    except ValueError: return ('notjson', None)


def query_exit(rq):
    q = urllib.parse.parse_qs(rq.get('query') or '', keep_blank_values=True)
    return q['exitCode'][-1] if 'exitCode' in q else None


def simple_int(s):
    return int(s) if isinstance(s, str) and re.fullmatch(r'[+-]?[0-9]+', s) else None


# ----------------------------------------------------------------------------- a scenario's directory states
class Scn:
    """One played scenario: directory state before/after every step, as seen by the snapshots."""
    def __init__(self, task, res):
        self.task, self.res = task, res
        self.start = task['start']; self.params = self.start['params']
        self.reqs = task['requests']
        self.trace = res.get('trace', []) if isinstance(res, dict) else []
        st = {k: v for k, v in task['files'].items()}
        self.states = [st]
        for ent in self.trace:
            st = dict(st)
            for k in ent['changed']:
                now = ent['changed_now'].get(k)
                if now is None: st.pop(k, None)
                elif 'kind' in now: st[k] = {'dir': 1} if now['kind'] == 'd' else {'other': now['kind']}
                else: st[k] = now
            self.states.append(st)
        bu = self.params.get('base_url', '/')
        self.prefix = '' if bu == '/' else bu.rstrip('/')
        self.closable = self.params.get('closable', False) is True
        self.cur = mp(self.params['cwd']) if 'cwd' in self.params else '.'
        self.pcwd = ROOTM + '/' + self.start.get('chdir', 'work')
        fn = self.params.get('outputfilename')
        self.outfn = mp(fn) if isinstance(fn, str) and fn else None

    # path handling with os.path semantics only
    def kind(self, state, key):
        if key == ROOTM or key in (ROOTM + '/work', ROOTM + '/bait'): return 'dir'
        rel = key[len(ROOTM) + 1:]
        if rel in state: return 'dir' if 'dir' in state[rel] else 'file'
        if any(k.startswith(rel + '/') for k in state): return 'dir'
        return None

    def joined(self, arg): return posixpath.join(self.cur, mp(arg))

    def key_of(self, state, arg):
        j = self.joined(arg)
        n = posixpath.normpath(posixpath.join(self.pcwd, j))
        if j.endswith('/') and self.kind(state, n) == 'file': return n + '/'
        return n

    def out_key(self, state):
        return self.key_of(state, self.outfn) if self.outfn is not None else None

    def endpoint(self, rq):
        """'diff'|'merge'|'store'|'close'|'page'|None for the routed URL (own reading of the documented URL layout)"""
        p = rq['path']
        if not p.startswith(self.prefix): return None
        rest = p[len(self.prefix):]
        return {'/api/diff': 'diff', '/api/merge': 'merge', '/api/store': 'store', '/api/closetool': 'close', '/': 'page', '/diff': 'page',
                '/difftool': 'page', '/merge': 'page', '/mergetool': 'page'}.get(rest)


# ----------------------------------------------------------------------------- library tables (nbformat, nbdime in fresh processes)
class Tables:
    def __init__(self):
        self.nbread = {}      # text -> result of runner op nbread
        self.nbser = {}       # canon(merged) -> result of op nbser
        self.ldiff = {}       # (canon nb, canon nb) -> {'ok':..}|{'err':..}
        self.lmerge = {}
        self.newnb = None
        self.text_ids = Ids(1); self.nb_ids = Ids(1); self.diff_ids = Ids(1); self.dec_ids = Ids(1)

    def run(self, tasks):
        return core.run_impl(tasks, shards=12, script='c20_runner.py') if tasks else []

    def need_texts(self, texts):
        todo = sorted(t for t in set(texts) if t not in self.nbread)
        for t, r in zip(todo, self.run([{'op': 'nbread', 'text': t} for t in todo])): self.nbread[t] = r

    def need_ser(self, values):
        todo = {}
        for v in values:
            c = canon(v)
            if c not in self.nbser: todo[c] = v
        ks = sorted(todo)
        for c, r in zip(ks, self.run([{'op': 'nbser', 'merged': todo[c]} for c in ks])): self.nbser[c] = r
        self.need_texts([r['ok'] for r in self.nbser.values() if 'ok' in r])

    def need_lib(self, pairs, triples):
        pt = sorted(p for p in set(pairs) if p not in self.ldiff); tt = sorted(t for t in set(triples) if t not in self.lmerge)
        tasks = [{'op': 'lib_diff', 'base': b, 'remote': r} for b, r in pt] + [{'op': 'lib_merge', 'base': b, 'local': l, 'remote': r} for b, l, r in tt]
        out = self.run(tasks)
        for p, r in zip(pt, out[:len(pt)]): self.ldiff[p] = r
        for t, r in zip(tt, out[len(pt):]): self.lmerge[t] = r

    # --- ids
    def text_id(self, spec):
        if 'b64' in spec: return self.text_ids.get(('raw8', spec['b64']))
        t = spec['t']
        if t == '': return 0
        r = self.nbread.get(t)
        if r and 'ok' in r: return self.text_ids.get(('nb', canon(r['ok'])))
        return self.text_ids.get(('raw', t))

    def read_of_spec(self, spec):
        """('ok', nbjson) | ('notjson',) | ('fail',)"""
        if 'b64' in spec: return ('fail',)
        r = self.nbread.get(spec['t'], {})
        if 'ok' in r: return ('ok', r['ok'])
        return ('notjson',) if r.get('notjson') else ('fail',)


# ----------------------------------------------------------------------------- the property, judged on the implementation (T2)
def arg_value(sc, T, state, arg, empty_ok=False):
    """('nb', json) | ('bad', why) | ('unsure', why): what a notebook argument names, by os.path + nbformat only"""
    if isinstance(arg, dict) and ('stream_text' in arg or 'stream_file' in arg):
        # an open stream fixed at start-up: its content is what it held then
        spec = {'t': arg['stream_text']} if 'stream_text' in arg else sc.states[0].get(arg['stream_file'], {'t': ''})
        rd = T.read_of_spec(spec)
        return ('nb', rd[1]) if rd[0] == 'ok' else ('bad', 'stream-not-a-notebook')
    if not isinstance(arg, str): return ('bad', 'not-a-string')
    if mp(arg) == '/dev/null': return ('nb', T.newnb)
    key = sc.key_of(state, arg)
    k = sc.kind(state, key)
    if k == 'dir': return ('bad', 'directory')
    if k is None: return ('bad', 'missing')
    spec = state[key[len(ROOTM) + 1:]]
    rd = T.read_of_spec(spec)
    if rd[0] == 'ok': return ('nb', rd[1])
    if empty_ok and spec.get('t') == '': return ('unsure', 'empty file in merge-tool mode')
    return ('bad', 'not-a-notebook')


def request_view(sc, T, state, rq):
    """Independent reading of a request: endpoint, and for API POSTs whether it is well-formed ('valid'),
    malformed ('malformed', reason) or outside both ('unsure')."""
    ep = sc.endpoint(rq)
    v = {'ep': ep, 'class': 'other'}
    if ep in (None, 'page') or rq['method'] != 'POST': return v
    mode = sc.start['mode']
    if ep in ('diff', 'merge'):
        names = ['base', 'remote'] if ep == 'diff' else ['base', 'local', 'remote']
        tool = sc.params.get('difftool_args') if ep == 'diff' else sc.params.get('mergetool_args')
        if tool is not None:
            args = [tool[n] for n in names]
        else:
            kind, val = classify_body(rq)
            if kind != 'json': v.update({'class': 'malformed', 'why': 'body-' + kind}); return v
            if not isinstance(val, dict): v.update({'class': 'malformed', 'why': 'body-not-object'}); return v
            if any(n not in val for n in names): v.update({'class': 'malformed', 'why': 'missing-key'}); return v
            args = [val[n] for n in names]
        vals = [arg_value(sc, T, state, a, empty_ok=(tool is not None and ep == 'merge')) for a in args]
        if any(x[0] == 'bad' for x in vals): v.update({'class': 'malformed', 'why': 'argument-' + [x[1] for x in vals if x[0] == 'bad'][0]})
        elif any(x[0] == 'unsure' for x in vals): v.update({'class': 'unsure'})
        else: v.update({'class': 'valid', 'nbs': [x[1] for x in vals]})
        return v
    if ep == 'store':
        kind, val = classify_body(rq)
        if kind != 'json' or not isinstance(val, dict) or 'merged' not in val:
            v.update({'class': 'malformed', 'why': 'no-merged'}); return v
        ser = T.nbser.get(canon(val['merged']), {})
        v['merged'] = val['merged']
        if 'ok' not in ser: v.update({'class': 'malformed', 'why': 'merged-not-a-notebook'}); return v
        v.update({'class': 'valid', 'ser': ser['ok']}); return v
    if ep == 'close':
        h = (rq.get('headers') or {}).get('exit_code')
        if h is not None and simple_int(h) is None: v.update({'class': 'malformed', 'why': 'header'}); return v
        fb = int(h) if h is not None else 1
        qv = query_exit(rq)
        if qv is not None:
            if simple_int(qv) is None: v.update({'class': 'malformed', 'why': 'query'}); return v
            v.update({'class': 'valid', 'code': int(qv)}); return v
        kind, val = classify_body(rq, for_close=True)
        if kind == 'bad8': v.update({'class': 'malformed', 'why': 'body-bad8'}); return v
        if kind == 'notjson': v.update({'class': 'valid', 'code': fb}); return v
        if not isinstance(val, dict): v.update({'class': 'malformed', 'why': 'body-not-object'}); return v
        ec = val.get('exitCode', fb)
        if isinstance(ec, str):
            if simple_int(ec) is None: v.update({'class': 'malformed', 'why': 'exitcode'}); return v
            ec = int(ec)
        if isinstance(ec, bool) or not isinstance(ec, int): v.update({'class': 'unsure'}); return v
        v.update({'class': 'valid', 'code': ec}); return v
    return v


def judge_step(sc, T, i):
    """Returns list of (signature, detail) for step i of a played scenario."""
    rq, ent = sc.reqs[i], sc.trace[i]
    pre, post = sc.states[i], sc.states[i + 1]
    out = []
    view = request_view(sc, T, pre, rq)
    ep = view['ep']; status = ent['status']; changed = ent['changed']
    okey = sc.out_key(pre)
    orel = okey[len(ROOTM) + 1:] if okey else None
    stopped_here = bool(sc.res.get('stopped_by_server')) and i == len(sc.trace) - 1
    is_store_post = ep == 'store' and rq['method'] == 'POST'
    # --- confinement
    outside = [c for c in changed if c != orel]
    if outside:
        out.append(('write-outside-output:' + str(ep), {'changed': changed, 'allowed': orel}))
    if changed and not outside:
        if not is_store_post:
            out.append(('non-store-request-changed-output:' + str(ep), {'changed': changed}))
        elif status >= 400:
            now = ent['changed_now'].get(orel) or {}
            if view['class'] == 'malformed' and view.get('why') == 'merged-not-a-notebook' and now.get('t') == '':
                out.append((F12_SIG, {'status': status, 'output': orel, 'was': (pre.get(orel) or {}).get('t', '<absent>')[:60], 'now': ''}))
            else:
                out.append(('error-answer-changed-output', {'status': status, 'changed': changed, 'why': view.get('why')}))
    if status == 599:
        out.append(('no-http-answer', {'text': ent.get('text')}))
    # --- store
    if is_store_post:
        if okey is None:
            if status < 400: out.append(('store-accepted-without-output', {'status': status}))
        elif status == 200:
            if view['class'] != 'valid':
                out.append(('store-accepted-malformed', {'why': view.get('why')}))
            else:
                spec = post.get(orel)
                stored = spec.get('t') if spec and 't' in spec else None
                same = False
                try:
                    same = stored is not None and canon(json.loads(stored)) == canon(json.loads(view['ser']))   # what nbformat serialises for `merged`
                except ValueError:
                    same = False
                want = T.nbread.get(json.dumps(view['merged']), {})         # nbformat's reading of the submitted JSON itself
                got = T.nbread.get(stored, {}) if stored is not None else {}
                if 'ok' in want and ('ok' not in got or canon(got['ok']) != canon(want['ok'])): same = False
                if not same:
                    out.append(('stored-notebook-differs-from-submitted', {'output': orel, 'stored': (stored or '')[:200]}))
        elif view['class'] == 'valid':
            parent = posixpath.dirname(okey)
            if sc.kind(pre, okey) != 'dir' and sc.kind(pre, parent) == 'dir' and not okey.endswith('/'):
                out.append(('valid-store-rejected', {'status': status}))
    # --- shutdown
    if stopped_here:
        if not sc.closable: out.append(('shutdown-honoured-though-not-closable', {'status': status}))
        if not (ep == 'close' and rq['method'] == 'POST'): out.append(('shutdown-by-non-close-request:' + str(ep), {}))
    if ep == 'close' and rq['method'] == 'POST':
        if not sc.closable and status < 400: out.append(('close-accepted-though-not-closable', {'status': status}))
        if sc.closable and view['class'] == 'valid':
            if not stopped_here or status != 200:
                out.append(('closable-server-ignored-close', {'status': status}))
            elif sc.res.get('exit_code') != view['code']:
                out.append(('wrong-exit-code', {'asked': view['code'], 'returned': sc.res.get('exit_code')}))
    # --- malformed / unknown
    if view['class'] == 'malformed':
        if status < 400: out.append(('malformed-request-accepted:%s:%s' % (ep, view.get('why')), {'status': status}))
        if stopped_here: out.append(('malformed-request-stopped-server', {}))
    if ep is None and status < 400:
        out.append(('unknown-url-answered', {'status': status, 'path': rq['path']}))
    if ep is not None and ep != 'page' and rq['method'] != 'POST' and status < 400:
        out.append(('wrong-method-answered', {'status': status}))
    # --- agreement with the library
    if view['class'] == 'valid' and ep == 'diff':
        b, r = view['nbs']
        lib = T.ldiff.get((canon(b), canon(r)), {})
        body = ent.get('json')
        if status != 200 or not isinstance(body, dict):
            if 'ok' in lib: out.append(('valid-diff-request-rejected', {'status': status}))
        else:
            if 'base' not in body or 'diff' not in body:
                out.append(('diff-answer-malformed', {'keys': sorted(body)}))
            else:
                if canon(body['base']) != canon(b):
                    out.append(('diff-answer-base-is-not-the-base-notebook', {}))
                try:
                    patched = pyspec.spec_patch(body['base'], body['diff'])
                    if canon(patched) != canon(r):
                        out.append(('diff-answer-does-not-patch-base-into-remote', {'diff': body['diff']}))
                except Exception as e:
                    out.append(('diff-answer-not-applicable', {'error': repr(e)[:200]}))
    if view['class'] == 'valid' and ep == 'merge':
        b, l, r = view['nbs']
        lib = T.lmerge.get((canon(b), canon(l), canon(r)), {})
        body = ent.get('json')
        if status != 200 or not isinstance(body, dict):
            if 'ok' in lib: out.append(('valid-merge-request-rejected', {'status': status}))
        elif 'ok' in lib:
            if canon(body.get('base')) != canon(b): out.append(('merge-answer-base-is-not-the-base-notebook', {}))
            ia, ib = all_cell_ids(body.get('merge_decisions')), all_cell_ids(lib['ok'])
            known = (ia | ib) - {i for i in (ia ^ ib) if re.fullmatch('[0-9a-f]{8}', i)}     # ids of nbformat's random shape seen in one answer only
            if canon(mask_generated_ids(body.get('merge_decisions'), known)) != canon(mask_generated_ids(lib['ok'], known)):
                out.append(('merge-answer-differs-from-library', {'library': lib['ok'], 'server': body.get('merge_decisions')}))
    return out, view


def same_answer(a, b):
    ja, jb = a.get('json'), b.get('json')
    ia, ib = all_cell_ids(ja), all_cell_ids(jb)
    known = (ia | ib) - {i for i in (ia ^ ib) if re.fullmatch('[0-9a-f]{8}', i)}     # nbformat's random ids for id-less 4.5 cells: drawn anew per read
    ka = (a['status'], canon(mask_generated_ids(ja, known)), sorted(a['changed']), canon(a['changed_now']))
    kb = (b['status'], canon(mask_generated_ids(jb, known)), sorted(b['changed']), canon(b['changed_now']))
    return ka == kb


# ----------------------------------------------------------------------------- Coq terms
def cstr(s):
    if all(32 <= ord(c) < 127 and c not in '"\\' for c in s): return '(q "%s")' % s
    return '[' + '; '.join('%d%%N' % ord(c) for c in s) + ']'


def cjson(v):
    if v is None: return 'JNull'
    if v is True: return '(JBool true)'
    if v is False: return '(JBool false)'
    if isinstance(v, int): return '(JInt (%d)%%Z)' % v
    if isinstance(v, float):
        if v == 0.0: return '(JFlt 0%%Z %d%%Z)' % (1 if math.copysign(1, v) < 0 else 0)
        num, den = v.as_integer_ratio(); e = -(den.bit_length() - 1)
        while num % 2 == 0: num //= 2; e += 1
        return '(JFlt (%d)%%Z (%d)%%Z)' % (num, e)
    if isinstance(v, str): return '(JStr %s)' % cstr(v)
    if isinstance(v, list): return '(JArr [' + '; '.join(cjson(x) for x in v) + '])'
    if isinstance(v, dict): return '(JObj [' + '; '.join('(%s, %s)' % (cstr(k), cjson(v[k])) for k in sorted(v)) + '])'
    raise ValueError(type(v))


def copt(x, f=str): return 'None' if x is None else '(Some %s)' % f(x)
def cN(n): return '%d%%N' % n


def case_term(sc, T):
    """Coq record for one played scenario; None if the scenario cannot be expressed."""
    P = sc.params
    mode = 'Plain'
    if any(not isinstance(a, str) for a in (P.get('difftool_args') or {}).values()): return None     # stream arguments: implementation side only
    if 'difftool_args' in P: mode = '(DiffTool %s %s)' % (cstr(mp(P['difftool_args']['base'])), cstr(mp(P['difftool_args']['remote'])))
    if 'mergetool_args' in P: mode = '(MergeTool %s %s %s)' % tuple(cstr(mp(P['mergetool_args'][k])) for k in ('base', 'local', 'remote'))
    fn = P.get('outputfilename')
    params = '{| p_cwd := %s; p_out := %s; p_closable := %s; p_mode := %s; p_base_url := %s |}' % (
        copt(mp(P['cwd']) if 'cwd' in P else None, cstr), copt(mp(fn) if isinstance(fn, str) else None, cstr),
        'true' if sc.closable else 'false', mode, cstr(P.get('base_url', '/')))
    # candidate path strings
    cands = set()
    for rq in sc.reqs:
        kind, val = classify_body(rq)
        if kind == 'json' and isinstance(val, dict):
            for k in ('base', 'local', 'remote'):
                if isinstance(val.get(k), str): cands.add(val[k])
    for tk in ('difftool_args', 'mergetool_args'):
        for a in (P.get(tk) or {}).values():
            if isinstance(a, str): cands.add(a)
    if sc.outfn is not None: cands.add(sc.outfn)
    keys = set([ROOTM, ROOTM + '/work', ROOTM + '/bait'])
    resolve = {}
    for st in sc.states:
        for rel, spec in st.items():
            keys.add(ROOTM + '/' + rel)
            d = posixpath.dirname(ROOTM + '/' + rel)
            while len(d) > len(ROOTM): keys.add(d); d = posixpath.dirname(d)
    for a in sorted(cands):
        if mp(a) == '/dev/null': continue
        ks = set(sc.key_of(st, a) for st in sc.states)
        if len(ks) != 1: return None           # resolution changes during the scenario: not expressible
        k = ks.pop(); keys.add(k); resolve[sc.joined(a)] = k
    keys = sorted(keys)

    def node(st, key):
        k = sc.kind(st, key)
        if k == 'dir': return 'Dir'
        if k == 'file':
            spec = st[key[len(ROOTM) + 1:]]
            if 'other' in spec: return 'Dir'
            return '(File %s)' % cN(T.text_id(spec))
        if key.endswith('/'): return 'NoParent'
        return 'Absent' if sc.kind(st, posixpath.dirname(key)) == 'dir' else 'NoParent'
    used_specs = [spec for st in sc.states for spec in st.values() if 't' in spec or 'b64' in spec]
    nbread = {}
    def add_text(spec):
        tid = T.text_id(spec)
        rd = T.read_of_spec(spec)
        nbread[tid] = '(RdOk %s)' % cN(T.nb_ids.get(canon(rd[1]))) if rd[0] == 'ok' else ('RdNotJSON' if rd[0] == 'notjson' else 'RdFail')
    for spec in used_specs: add_text(spec)
    nbread.setdefault(0, 'RdNotJSON' if T.nbread.get('', {}).get('notjson') else 'RdFail')
    # serialisation table
    ser = {}
    for rq in sc.reqs:
        kind, val = classify_body(rq)
        if kind == 'json' and isinstance(val, dict) and 'merged' in val:
            r = T.nbser.get(canon(val['merged']), {})
            if 'ok' in r:
                add_text({'t': r['ok']}); ser[cjson(val['merged'])] = '(Some %s)' % cN(T.text_id({'t': r['ok']}))
            else:
                ser[cjson(val['merged'])] = 'None'
    # library tables restricted to the notebooks of this case
    nbs = {}
    for spec in used_specs:
        rd = T.read_of_spec(spec)
        if rd[0] == 'ok': nbs[canon(rd[1])] = 1
    nbs[canon(T.newnb)] = 1
    dtab = []; mtab = []
    for (b, r), res in T.ldiff.items():
        if b in nbs and r in nbs:
            dtab.append('((%s, %s), %s)' % (cN(T.nb_ids.get(b)), cN(T.nb_ids.get(r)), copt(T.diff_ids.get(canon(res['ok'])) if 'ok' in res else None, cN)))
    for (b, l, r), res in T.lmerge.items():
        if b in nbs and l in nbs and r in nbs:
            mtab.append('((%s, %s, %s), %s)' % (cN(T.nb_ids.get(b)), cN(T.nb_ids.get(l)), cN(T.nb_ids.get(r)),
                                                copt(T.dec_ids.get(canon(res['ok'])) if 'ok' in res else None, cN)))
    # requests and expectations
    reqs = []; exp = []
    for i, ent in enumerate(sc.trace):
        rq = sc.reqs[i]
        ep_close = sc.endpoint(rq) == 'close'
        kind, val = classify_body(rq, for_close=ep_close)
        body = 'BBadUtf8' if kind == 'bad8' else 'BNotJson' if kind == 'notjson' else '(BJson %s)' % cjson(val)
        meth = rq['method'] if rq['method'] in ('GET', 'POST') else 'OtherMethod'
        hdr = (rq.get('headers') or {}).get('exit_code')
        reqs.append('{| rq_method := %s; rq_path := %s; rq_query_exit := %s; rq_hdr_exit := %s; rq_body := %s |}' % (
            meth, cstr(rq['path']), copt(query_exit(rq), cstr), copt(hdr, cstr), body))
        st = ent['status']; js = ent.get('json')
        if st >= 400: b = 'RbError'
        elif st == 200 and isinstance(js, dict) and sorted(js) == ['base', 'diff']:
            b = '(RbDiff %s %s)' % (cN(T.nb_ids.get(canon(js['base']))), cN(T.diff_ids.get(canon(js['diff']))))
        elif st == 200 and isinstance(js, dict) and sorted(js) == ['base', 'merge_decisions']:
            b = '(RbMerge %s %s)' % (cN(T.nb_ids.get(canon(js['base']))), cN(T.dec_ids.get(canon(js['merge_decisions']))))
        elif st == 200 and js is None and ent.get('text') == '': b = 'RbEmpty'
        elif st == 200 and js is None and str(ent.get('text', '')).startswith('TEMPLATE'): b = 'RbPage'
        else: b = '(RbDiff 999998%N 999998%N)'
        stopped = bool(sc.res.get('stopped_by_server')) and i == len(sc.trace) - 1
        exp.append('(%s, %s, [%s], %s)' % (cN(st), b, '; '.join(node(sc.states[i + 1], k) for k in keys), 'true' if stopped else 'false'))
    try:
        exitj = cjson(sc.res.get('exit_code'))
    except ValueError:
        exitj = '(JStr (q "?"))'
    L = ['{| c_params := ' + params + ';',
         '   c_keys := [' + '; '.join(cstr(k) for k in keys) + '];',
         '   c_fs0 := [' + '; '.join(node(sc.states[0], k) for k in keys) + '];',
         '   c_resolve := [' + '; '.join('(%s, %s)' % (cstr(a), cstr(b)) for a, b in sorted(resolve.items())) + '];',
         '   c_nbread := [' + '; '.join('(%s, %s)' % (cN(k), v) for k, v in sorted(nbread.items())) + '];',
         '   c_newnb := %s;' % cN(T.nb_ids.get(canon(T.newnb))),
         '   c_diff := [' + '; '.join(dtab) + '];',
         '   c_merge := [' + '; '.join(mtab) + '];',
         '   c_ser := [' + '; '.join('(%s, %s)' % kv for kv in sorted(ser.items())) + '];',
         '   c_reqs := [' + ';\n      '.join(reqs) + '];',
         '   c_expect := [' + ';\n      '.join(exp) + '];',
         '   c_exit := %s; c_stopped := %s |}' % (exitj, 'true' if sc.res.get('stopped_by_server') else 'false')]
    return '\n'.join(L)


HEADER = '''From Coq Require Import List NArith ZArith Bool String.
From NB Require Import Base.Json.
From C20P Require Import ServerFacts.
From C20P Require Import Server.
From C20P Require Import ServerRun.
Import ListNotations.
Local Open Scope string_scope.
Local Open Scope list_scope.
'''


class PrivateModel:
    """The executable model compiled in a private directory from THIS run's translation of $NBDIME_REPO (logical root
    C20P), so that the correspondence does not depend on what concurrent builds do to the shared coq/Gen directory.
    Same sources: coq/Sys/Server.v, coq/Sys/ServerRun.v and the text tools/gen/gen_server.py produces."""
    def __init__(self):
        self.dir = tempfile.mkdtemp(prefix='nbv_c20model_')
        self.error = None; self.facts_text = None
        try:
            sys.path.insert(0, os.path.join(core.VERIF, 'tools', 'gen'))
            import gen_server
            try:
                self.facts_text = gen_server.render()
            except BaseException as e:
                self.error = 'translator: %s' % e; return
            finally:
                sys.path.pop(0)
            def priv(txt):
                txt = txt.replace('From NB Require Import Gen.ServerFacts.', 'From C20P Require Import ServerFacts.')
                return txt.replace('From NB Require Import Sys.Server.', 'From C20P Require Import Server.')
            open(os.path.join(self.dir, 'ServerFacts.v'), 'w').write(self.facts_text)
            for f in ('Server.v', 'ServerRun.v'):
                open(os.path.join(self.dir, f), 'w').write(priv(open(os.path.join(core.COQ, 'Sys', f)).read()))
            for f in ('ServerFacts.v', 'Server.v', 'ServerRun.v'):
                p = subprocess.run(['timeout', '600', 'coqc', '-Q', core.COQ, 'NB', '-Q', self.dir, 'C20P', f], capture_output=True, text=True, cwd=self.dir)
                if p.returncode != 0:
                    self.error = 'coqc %s: %s' % (f, (p.stdout + p.stderr)[-1200:]); return
        except Exception as e:
            self.error = repr(e)

    def store_order(self):
        m = re.search(r'Definition store_order : store_order_t := (\w+)\.', self.facts_text or '')
        return m.group(1) if m else None

    def close(self):
        shutil.rmtree(self.dir, ignore_errors=True)


def run_coq_cases(pm, terms, show=False):
    """terms: list of (index, coq record text).  Returns ({index: [mismatching steps]}, error text or None)."""
    if not terms: return {}, None
    chunks = [terms[i:i + 25] for i in range(0, len(terms), 25)]
    d = tempfile.mkdtemp(prefix='nbv_c20coq_')
    try:
        def one(ci):
            ch = chunks[ci]
            src = HEADER + ''.join('Definition case%d : case :=\n%s.\n' % (i, t) for i, t in ch)
            src += 'Definition all : list case := [%s].\n' % '; '.join('case%d' % i for i, _ in ch)
            if show:
                src += ''.join('Eval vm_compute in (show case%d store_order).\n' % i for i, _ in ch)
            src += 'Eval vm_compute in (failing 0 all).\n'
            f = os.path.join(d, 'Cases%d.v' % ci); open(f, 'w').write(src)
            p = subprocess.run(['timeout', '600', 'coqc', '-Q', core.COQ, 'NB', '-Q', pm.dir, 'C20P', f], capture_output=True, text=True, cwd=d)
            return ch, p
        with ThreadPoolExecutor(max_workers=8) as ex:
            outs = list(ex.map(one, range(len(chunks))))
    finally:
        shutil.rmtree(d, ignore_errors=True)
    res = {}; err = None; shown = ''
    for ch, p in outs:
        if p.returncode != 0:
            err = (p.stdout + p.stderr)[-1500:]; continue
        txt = p.stdout
        if show: shown += txt
        tail = txt[txt.rfind('= ['):] if '= [' in txt else txt
        if '= []' in txt[txt.rfind('     = '):] and '(' not in tail.split(':')[0]:
            continue
        for m in re.finditer(r'\((\d+),\s*\[([\d;\s]*)\]\)', tail):
            res[ch[int(m.group(1))][0]] = [int(x) for x in m.group(2).replace('\n', ' ').split(';') if x.strip()]
    if show: return res, (err or '') + shown
    return res, err


def store_order_fact():
    try:
        txt = open(os.path.join(core.COQ, 'Gen', 'ServerFacts.v')).read()
        return re.search(r'Definition store_order : store_order_t := (\w+)\.', txt).group(1)
    except Exception:
        return None


# ----------------------------------------------------------------------------- the run
def play(tasks):
    return core.run_impl(tasks, shards=12, script='c20_runner.py')


def prepare_tables(T, scns):
    """everything nbformat / the library must be asked about, for the played scenarios"""
    texts = ['']
    for sc in scns:
        texts += [a['stream_text'] for a in (sc.params.get('difftool_args') or {}).values() if isinstance(a, dict) and 'stream_text' in a]
        for st in sc.states:
            texts += [spec['t'] for spec in st.values() if 't' in spec]
    T.need_texts(texts)
    merged = []
    for sc in scns:
        for rq in sc.reqs:
            kind, val = classify_body(rq)
            if kind == 'json' and isinstance(val, dict) and 'merged' in val: merged.append(val['merged'])
    T.need_ser(merged)
    T.need_texts([json.dumps(m) for m in merged])
    pairs = []; triples = []
    for sc in scns:
        for i, ent in enumerate(sc.trace):
            v = request_view(sc, T, sc.states[i], sc.reqs[i])
            if v['class'] == 'valid' and v['ep'] == 'diff': pairs.append(tuple(canon(x) for x in v['nbs']))
            if v['class'] == 'valid' and v['ep'] == 'merge': triples.append(tuple(canon(x) for x in v['nbs']))
            if v['class'] == 'unsure' and v['ep'] == 'merge':
                # merge-tool mode with empty files: the handler substitutes an empty notebook
                tool = sc.params.get('mergetool_args')
                vals = [arg_value(sc, T, sc.states[i], tool[n], empty_ok=True) for n in ('base', 'local', 'remote')]
                if all(x[0] in ('nb', 'unsure') for x in vals):
                    triples.append(tuple(canon(x[1] if x[0] == 'nb' else T.newnb) for x in vals))
    # library calls take the notebooks as JSON text
    T.need_lib([(b, r) for b, r in pairs], triples)


def single_step_task(sc, i):
    return {'op': 'serve', 'start': sc.start, 'files': sc.states[i], 'requests': [sc.reqs[i]]}


def minimise(sc, i, sig, T):
    """smallest replayable case showing signature sig at step i: the step alone from its pre-state if that still fails"""
    alone = single_step_task(sc, i)
    res = play([alone])[0]
    if isinstance(res, dict) and res.get('trace'):
        sc1 = Scn(alone, res)
        prepare_tables(T, [sc1])
        sigs = [s for s, _ in judge_step(sc1, T, 0)[0]]
        if sig in sigs:
            keep = set()
            blob = json.dumps([alone['requests'], alone['start']])
            files = {k: v for k, v in alone['files'].items() if posixpath.basename(k) in blob or 'dir' in v}
            small = dict(alone, files=files)
            r2 = play([small])[0]
            if isinstance(r2, dict) and r2.get('trace'):
                sc2 = Scn(small, r2); prepare_tables(T, [sc2])
                if sig in [s for s, _ in judge_step(sc2, T, 0)[0]]: return small, 0
            return alone, 0
    return {'op': 'serve', 'start': sc.start, 'files': sc.task['files'], 'requests': sc.reqs[:i + 1]}, i


def run(tier, seed):
    chk = core.Check(PROP, tier, seed)
    tm = {}; t0 = time.time()
    b = core.build()
    tm['build'] = time.time() - t0; t0 = time.time()
    proofs_ok = chk.proof_obligations('Props/C20.v', b)
    tm['obligations'] = time.time() - t0; t0 = time.time()
    r = chk.rng
    nscn = 160 if tier == 'quick' else 1500
    tasks = [c20_gen.f12_scenario()] + [c20_gen.gen_history_scenario(r) if k % 8 == 7 else c20_gen.gen_scenario(r) for k in range(nscn)]
    # sessions started through the real console entry points (nbmerge-web, nbdiff-web, nbmergetool, nbdifftool, the plain server),
    # every one asked about notebooks other than / mixed with those of its command line and with malformed bodies
    nentry = 24 if tier == 'quick' else 240
    tasks += [c20_gen.gen_entry_scenario(r, k) for k in range(nentry)]
    pm = PrivateModel()
    T = Tables()
    nn = core.run_impl([{'op': 'newnb'}], script='c20_runner.py')[0]
    if 'ok' not in nn:
        chk.broken_obligation('harness:runner', nn)
        return chk.finish('proof', ASSUME)
    T.newnb = nn['ok']
    results = play(tasks)
    scns = []
    for t, res in zip(tasks, results):
        if not isinstance(res, dict) or 'trace' not in res or 'startup_error' in res:
            chk.broken_obligation('implementation-run', {'start': t['start'], 'result': res})
            continue
        scns.append(Scn(t, res))
    tm['play'] = time.time() - t0; t0 = time.time()
    prepare_tables(T, scns)
    tm['tables'] = time.time() - t0; t0 = time.time()

    # ---- refutation witness of malformed_no_effect_as_coded replayed on the implementation
    fact = pm.store_order()
    if scns and scns[0].task is tasks[0]:
        w = scns[0]
        trunc = bool(w.trace) and w.trace[0]['changed'] == ['work/out.ipynb'] and (w.trace[0]['changed_now'].get('work/out.ipynb') or {}).get('t') == ''
        if fact == 'OpenThenSerialise' and not trunc:
            chk.broken_obligation('refutation-witness-stale', 'Gen/ServerFacts.store_order = OpenThenSerialise but {"merged": 5} no longer truncates the output file on the implementation')
        chk.notes.append('store_order read off the source: %s; witness {"merged": 5} truncates output on the implementation: %s' % (fact, trunc))

    # ---- T2: the property on the implementation
    hist = {}; nontrivial = set(); steps = 0; fresh_tasks = []; fresh_idx = []
    reported = set()
    for si, sc in enumerate(scns):
        for i, ent in enumerate(sc.trace):
            steps += 1
            rq = sc.reqs[i]
            hist[rq.get('kind', '?')] = hist.get(rq.get('kind', '?'), 0) + 1
            probs, view = judge_step(sc, T, i)
            if view['ep'] in ('diff', 'merge', 'store', 'close') and rq['method'] == 'POST':
                nontrivial.add(hashlib.sha1(canon([sc.start, rq.get('body', rq.get('body_b64')), rq.get('query'), rq.get('headers'), rq['path'],
                                                   sorted((k, canon(v)) for k, v in sc.states[i].items())]).encode()).hexdigest())
            for sig, detail in probs:
                if sig in reported: continue
                known = any(f.get('status') == 'known' and f.get('signature') == sig for f in chk.findings)
                if known:
                    chk.violation(sig, None, detail); continue
                reported.add(sig)
                case, at = minimise(sc, i, sig, T)
                chk.violation(sig, {'scenario': case, 'step': at}, {'request': case['requests'][at], 'detail': detail, 'status': ent['status']})
            if i > 0:
                fresh_tasks.append(single_step_task(sc, i)); fresh_idx.append((si, i))
    # ---- statelessness on the implementation: every later request alone, first in a fresh process, from the same directory
    if tier == 'quick' and len(fresh_tasks) > 700:
        sel = sorted(r.sample(range(len(fresh_tasks)), 700))
        fresh_tasks = [fresh_tasks[k] for k in sel]; fresh_idx = [fresh_idx[k] for k in sel]
    tm['judge'] = time.time() - t0; t0 = time.time()
    fres = play(fresh_tasks)
    tm['fresh'] = time.time() - t0; t0 = time.time()
    nfresh = 0
    for (si, i), t, fr in zip(fresh_idx, fresh_tasks, fres):
        sc = scns[si]
        if not isinstance(fr, dict) or not fr.get('trace'):
            chk.broken_obligation('implementation-run', {'fresh': t['requests'], 'result': fr}); continue
        nfresh += 1
        a, b_ = sc.trace[i], fr['trace'][0]
        stop_a = bool(sc.res.get('stopped_by_server')) and i == len(sc.trace) - 1
        stop_b = bool(fr.get('stopped_by_server'))
        if not same_answer(a, b_) or stop_a != stop_b:
            sig = 'later-request-answered-differently-from-first:%s' % (sc.endpoint(sc.reqs[i]),)
            if sig not in reported:
                reported.add(sig)
                chk.violation(sig, {'scenario': {'op': 'serve', 'start': sc.start, 'files': sc.task['files'], 'requests': sc.reqs[:i + 1]}, 'step': i},
                              {'in_sequence': {'status': a['status'], 'body': a.get('json') or a.get('text')},
                               'alone': {'status': b_['status'], 'body': b_.get('json') or b_.get('text')}})
    # ---- T1: model vs implementation
    t1 = 0; mism = 0; inexpressible = 0
    terms = []
    for si, sc in enumerate(scns):
        try:
            t = case_term(sc, T)
        except Exception as e:
            t = None
            chk.notes.append('case %d not expressible: %r' % (si, e))
        if t is None: inexpressible += 1; continue
        terms.append((si, t))
    if pm.error is None:
        bad, err = run_coq_cases(pm, terms)
        if err:
            chk.broken_obligation('correspondence:coqc', err)
        t1 = len(terms)
        for si, stepsbad in sorted(bad.items()):
            mism += 1
            if mism <= 3:
                sc = scns[si]
                _, shown = run_coq_cases(pm, [(si, dict(terms)[si])], show=True)
                k = stepsbad[0]
                chk.broken_obligation('correspondence:serve', {
                    'start': sc.start, 'mismatching_steps': stepsbad,
                    'request': sc.reqs[k] if k < len(sc.reqs) else None,
                    'implementation': ({'status': sc.trace[k]['status'], 'changed': sc.trace[k]['changed']} if k < len(sc.trace) else {'exit_code': sc.res.get('exit_code'), 'stopped': sc.res.get('stopped_by_server')}),
                    'model': (shown or '')[-1200:], 'scenario': {'op': 'serve', 'start': sc.start, 'files': sc.task['files'], 'requests': sc.reqs}})
    else:
        chk.broken_obligation('model-build', pm.error)
    pm.close()
    tm['coq_cases'] = time.time() - t0
    chk.notes.append('phase seconds: ' + ', '.join('%s=%.1f' % kv for kv in tm.items()))
    chk.cov.update({
        'evaluations': steps, 'distinct_nontrivial': len(nontrivial),
        'rule': 'HTTP requests played one after the other against the real main_server in generated start-up modes (plain, diff web, diff tool, merge web, merge tool; output file relative/absolute/absent/empty/unwritable; closable or not; base_url /, /nb/, /a/b, /x) over generated notebook files, and against servers started by main(argv) of the five real console entry modules (nbdime.webapp.nbdimeserver/nbdiffweb/nbmergeweb/nbdifftool/nbmergetool) with generated command lines, each asked what its page posts, then about other and mixed notebooks and with malformed bodies; a request is non-trivial when it is a POST routed to one of the four API handlers; distinct by (start-up parameters, request, directory contents before)',
        'input_distribution': hist, 'sessions': len(scns), 'sessions_started_by_console_entry_point': sum(1 for sc in scns if sc.start.get('entry')), 'traces_validated_against_impl': t1, 'model_impl_mismatches': mism,
        'sessions_not_expressible_in_model': inexpressible, 'single_request_fresh_process_replays': nfresh,
        'library_diff_calls_fresh_process': len(T.ldiff), 'library_merge_calls_fresh_process': len(T.lmerge), 'exhaustive': False,
    })
    for sc in scns[1:3]:
        chk.sample({'start': sc.start['params'], 'requests': [{k: v for k, v in rq.items() if k != 'kind'} for rq in sc.reqs][:4],
                    'answers': [e['status'] for e in sc.trace][:4]})
    return chk.finish('proof', ASSUME)


def replay(path):
    body = json.load(open(path))
    if body.get('kind') != 'failing-input':
        print(json.dumps(body.get('obligations'), indent=1, default=str)[:3000])
        print('broken-obligation replay: re-running the quick check')
        return run('quick', body.get('seed', 0))
    case = body['case']; task = case['scenario']
    T = Tables()
    T.newnb = core.run_impl([{'op': 'newnb'}], script='c20_runner.py')[0]['ok']
    res = play([task])[0]
    sc = Scn(task, res)
    prepare_tables(T, [sc])
    found = []
    for i in range(len(sc.trace)):
        probs, view = judge_step(sc, T, i)
        for sig, detail in probs: found.append({'step': i, 'signature': sig, 'detail': detail, 'status': sc.trace[i]['status']})
    print(json.dumps({'answers': [e['status'] for e in sc.trace], 'problems': found}, indent=1, default=str)[:4000])
    findings = [f for f in core.load_findings() if f.get('property') == PROP and f.get('status') == 'known']
    live = [p for p in found if not any(f['signature'] == p['signature'] for f in findings)]
    for p in found:
        if p not in live: print('KNOWN-FINDING: property=%s %s' % (PROP, p['signature']))
    if live:
        print('VIOLATION property=%s replay=%s' % (PROP, path)); return 1
    return 0
