"""C12 -- diffing is a pure function of its inputs: no dependence on process history."""
import os, sys, json, copy, subprocess, tempfile, shutil
import core, gennb, genjson, pyspec

PROP = 'C12'
CATS = 6
ASSUME = ['lru_cache-d similarity functions are pure functions of their arguments (their caches cannot change a result)',
          'the model of the differ (a function of configuration and inputs) is tied to the code in C01 / C14; here the global tables are compared with the state machine of Sys/History.v after every operation']

PROBES = ['/cells/*/source', '/cells/*/outputs', '/cells/*/attachments', '/metadata', '/cells/*/id', '/cells/*/metadata',
          '/cells/*/outputs/*/metadata', '/cells/*', '/cells/*/outputs/*', '/cells', '/metadata/custom', '/cells/*/metadata/tags']

def gen_history(r, tier):
    n = r.choice([1, 2, 3, 4, 6, 8, 12])
    ops = []
    # notebooks whose metadata holds a list of lists at a path where another holds a list of objects
    def weird_nb():
        nb = gennb.gen_notebook(r, rich=False)
        nb['metadata']['shape'] = r.choice([[[1, 2], [3]], [{'a': 1}, {'b': [2]}], {'x': [[1]]}, [[{'k': 1}]], 5])
        for c in nb['cells'][:1]:
            c['metadata']['shape'] = r.choice([[[1]], [{'a': [1]}], {'y': {'z': [[2]]}}])
        return nb
    for _ in range(n):
        c = r.random()
        if c < 0.35:
            a = weird_nb() if r.random() < 0.5 else gennb.gen_notebook(r, rich=r.random() < 0.3)
            b = gennb.edit_notebook(r, a) if r.random() < 0.7 else weird_nb()
            if r.random() < 0.4 and 'shape' in a['metadata']:
                b = copy.deepcopy(b); b['metadata']['shape'] = r.choice([[[1, 2], [3, 4]], [{'a': 2}], {'x': [{'q': 1}]}])
            ops.append({'kind': 'diff', 'a': a, 'b': b})
        elif c < 0.45:
            a, b = genjson.gen_pair(r, depth=3)
            ops.append({'kind': 'gdiff', 'a': a, 'b': b})
        elif c < 0.6:
            x, y, z = gennb.gen_triple(r, rich=False)
            ops.append({'kind': 'merge', 'base': x, 'local': y, 'remote': z, 'strategy': r.choice(['inline', 'use-base', 'union', 'mergetool'])})
        elif c < 0.7:
            ops.append({'kind': 'targets', 'shown': [r.random() < 0.6 for _ in range(6)]})
        elif c < 0.8:
            # the same configuration reached through the command-line flags: a subset of the six parts, all positive or
            # all negative, incl. no flag at all and all six (which is how a caller selects everything again)
            names = r.sample(FLAG_NAMES, r.choice([0, 1, 1, 2, 3, 6, 6]))
            val = r.random() < 0.6
            given = {n: val for n in names}
            if len(names) >= 2 and r.random() < 0.1: given[names[0]] = not val     # mixed signs: rejected, nothing is set
            ops.append({'kind': 'flags', 'given': given})
        elif c < 0.9:
            m = {}
            keysets = {'/metadata': [['kernelspec'], ['language_info', 'custom'], ['custom']],
                       '/cells/*/metadata': [['collapsed', 'scrolled'], ['tags'], ['custom']],
                       '/cells/*': [['execution_count'], ['id'], ['execution_count', 'id'], ['metadata']],
                       '/cells/*/outputs/*': [['execution_count'], ['metadata'], ['name']],
                       '/cells/*/outputs/*/metadata': [['custom']]}
            for p in r.sample(PROBES[:9] + ['/metadata/custom', '/cells/*/metadata/tags'], r.choice([1, 2, 3])):
                m[p] = r.choice([True, False, False] + keysets.get(p, [['x']]))
            ops.append({'kind': 'ignores', 'mapping': m})
        else:
            ops.append({'kind': 'reset'})
    # always end with a diff of two notebooks that differ in EVERY category at every level, so that any
    # difference in what is ignored shows in the result
    a, b = everywhere_pair(r)
    ops.append({'kind': 'diff', 'a': a, 'b': b})
    return ops


def wide_table_history(r, n):
    """a long-lived process that has been configured to ignore something and then diffs documents with MANY distinct
    dictionary keys (widget state keyed by model id, per-key metadata): every distinct path it looks up may be remembered
    in the process-wide tables, which must not disturb what was configured -- whatever their size becomes"""
    hidden = r.choice([[1], [0], [0, 1], [1, 4]])                   # outputs / sources / both / outputs+ids hidden (metadata stays shown: the wide mapping lives there)
    ops = [{'kind': 'targets', 'shown': [i not in hidden for i in range(6)]}]
    def wide(tag):
        state = {'model-%05d' % i: {'model_name': 'IntSliderModel', 'state': {'value': (i if tag == 'a' else i + 1)}} for i in range(n)}
        return {'cells': [{'cell_type': 'markdown', 'metadata': {}, 'source': 'widgets %s\n' % tag}],
                'metadata': {'widgets': {'application/vnd.jupyter.widget-state+json': {'state': state, 'version_major': 2, 'version_minor': 0}}},
                'nbformat': 4, 'nbformat_minor': 4}
    ops.append({'kind': 'diff', 'a': wide('a'), 'b': wide('b')})
    a, b = everywhere_pair(r)
    ops.append({'kind': 'diff', 'a': a, 'b': b})
    return ops


def versions_history(r):
    """successive requests about versions of one notebook (a long-running server): the same cell ids come back
    with other outputs / sources, so anything remembered per id, per position or per object from an earlier
    request would show in a later one.  Cells have similar sources, so the output comparison decides the alignment."""
    summary = "count  100\nmean   5.0\nstd    1.0\nmin    0.0\n25%    4.3\n50%    5.0\n75%    5.7\nmax    10.0\n"
    texts = {'T': summary, 'T2': summary.replace('mean   5.0', 'mean   5.1'),
             'U': "Traceback: could not open the data file, giving up on this run of the pipeline entirely\n",
             'V': "<Figure size 640x480 with 1 Axes> saved to /tmp/plots/figure-17.png\n"}
    srcs = ["df = load('data.csv')\nprint(df.describe())\n", "df = load('data-v2.csv')\ndf = clean(df)\nprint(df.describe())\n",
            "df = load('data-v2.csv')\ndf = clean(df)\nprint(df.describe().plot())\n"]
    def cell(cid, src, t, n):
        return {'cell_type': 'code', 'id': cid, 'execution_count': n, 'metadata': {}, 'source': src,
                'outputs': [{'output_type': 'stream', 'name': 'stdout', 'text': texts[t]}]}
    def nb(cells): return {'cells': cells, 'metadata': {}, 'nbformat': 4, 'nbformat_minor': 5}
    ids = r.sample(['stats-v1', 'stats-v2', 'plot-v2', 'c3a1', 'zz9'], 3)
    flip = r.random() < 0.6
    o1, o2 = r.choice([('T', 'U'), ('T', 'V'), ('U', 'T')]) if flip else (r.choice(list(texts)), r.choice(list(texts)))
    o4, o5 = r.choice([('T', 'T2'), ('T2', 'T'), ('T', 'T')]) if flip else (r.choice(list(texts)), r.choice(list(texts)))
    if r.random() < 0.5: (o1, o2), (o4, o5) = (o4, o5), (o1, o2)
    A1 = nb([cell(ids[0], srcs[0], o1, 1)]); B1 = nb([cell(ids[1], srcs[1], o2, 2)] + ([cell(ids[2], srcs[2], r.choice(list(texts)), 3)] if r.random() < 0.4 else []))
    second = [cell(ids[1], srcs[1], o5, 3), cell(ids[2], srcs[2], r.choice(['V', 'U', 'T']), 4)]
    if r.random() < 0.3: second.reverse()
    A2 = nb([cell(ids[0], srcs[0], o4, 1)]); B2 = nb(second)
    ops = [{'kind': 'diff', 'a': A1, 'b': B1}]
    if r.random() < 0.3: ops.append({'kind': 'merge', 'base': A1, 'local': B1, 'remote': copy.deepcopy(A1), 'strategy': 'inline'})
    if r.random() < 0.5: ops.append({'kind': 'diff', 'a': A2, 'b': B2})
    else: ops.append({'kind': 'merge', 'base': A2, 'local': B2, 'remote': nb([cell(ids[0], srcs[0], o4, 1), cell('rem0te', srcs[2], 'V', 9)]), 'strategy': r.choice(['inline', 'mergetool'])})
    return ops

def failing_call_history(r):
    """a call that raises BY DESIGN in the middle of a nested operation (generic merge under the documented "fail"
    strategy, conflict inside a multi-line string / a list / a dict), followed by merges and diffs of documents whose
    multi-line strings both sides edit: whatever the failed call left behind must not show"""
    text = ''.join('line %d of the notes\n' % i for i in range(6))
    def edit(t, i, w): ls = t.splitlines(True); ls[i] = ls[i].rstrip('\n') + ' ' + w + '\n'; return ''.join(ls)
    where = r.choice(['string', 'list', 'dict'])
    if where == 'string':
        base = {'metadata': {'notes': text}}; l = {'metadata': {'notes': edit(text, 2, 'L')}}; rr = {'metadata': {'notes': edit(text, 2, 'R')}}
        strat = {'/metadata/notes': 'fail'}
    elif where == 'list':
        base = {'metadata': {'v': [1, 2, 3]}}; l = {'metadata': {'v': [1, 20, 3]}}; rr = {'metadata': {'v': [1, 30, 3]}}
        strat = {'/metadata/v': 'fail'}
    else:
        base = {'metadata': {'k': 'b'}}; l = {'metadata': {'k': 'l'}}; rr = {'metadata': {'k': 'r'}}
        strat = {'/metadata/k': 'fail'}
    ops = []
    if r.random() < 0.5: ops.append({'kind': 'gmerge', 'base': {'metadata': {'notes': text}}, 'local': {'metadata': {'notes': edit(text, 1, 'l')}},
                                    'remote': {'metadata': {'notes': edit(text, 4, 'r')}}, 'strategies': {}})
    ops.append({'kind': 'gmerge', 'base': base, 'local': l, 'remote': rr, 'strategies': strat})
    i, j = r.sample(range(6), 2)
    ops.append({'kind': 'gmerge', 'base': {'metadata': {'notes': text}}, 'local': {'metadata': {'notes': edit(text, i, 'mine')}},
                'remote': {'metadata': {'notes': edit(text, j, 'theirs')}}, 'strategies': {}})
    nb = lambda t: {'cells': [{'cell_type': 'markdown', 'metadata': {'notes': t}, 'source': 'x'}], 'metadata': {'notes': t}, 'nbformat': 4, 'nbformat_minor': 4}
    ops.append({'kind': 'merge', 'base': nb(text), 'local': nb(edit(text, i, 'mine')), 'remote': nb(edit(text, j, 'theirs')), 'strategy': r.choice(['inline', 'mergetool', 'use-base'])})
    ops.append({'kind': 'diff', 'a': nb(text), 'b': nb(edit(text, i, 'mine'))})
    return ops

def aligned_mime_pair(r):
    """a pair whose outputs stay aligned (same text) and differ only in a binary and a JSON mime value and in
    execution counts / output metadata: which item differ handles the aligned outputs is then visible in the diff"""
    png1 = 'iVBORw0KGgoAAAANSUhEUgAAAAEAAAABCAYAAAAfFcSJ'; png2 = 'iVBORw0KGgoAAAANSUhEUgAAAAEAAAABCAYAAAAfFcSK'   # short payloads: still aligned
    def cell(cid, n, png, js, md):
        return {'cell_type': 'code', 'id': cid, 'execution_count': n, 'metadata': {}, 'source': 'plot(data)\nshow()\n',
                'outputs': [{'output_type': 'stream', 'name': 'stdout', 'text': 'drawing\n'},
                            {'output_type': 'execute_result', 'execution_count': n, 'metadata': md,
                             'data': {'text/plain': '<Figure size 640x480 with 1 Axes>', 'image/png': png, 'application/json': js}},
                            {'output_type': 'display_data', 'metadata': md, 'data': {'text/plain': '<Figure>', 'image/png': png}}]}
    a = {'cells': [cell('c%d' % i, 1, png1, {'k': [1, 2]}, {'w': 1}) for i in range(r.choice([1, 2]))], 'metadata': {}, 'nbformat': 4, 'nbformat_minor': 5}
    b = {'cells': [cell(c['id'], 2, png2, {'k': [1, 3]}, {'w': 2}) for c in a['cells']], 'metadata': {}, 'nbformat': 4, 'nbformat_minor': 5}
    return a, b

def everywhere_pair(r):
    a = gennb.gen_notebook(r, rich=True, minor=5, ncells=r.choice([2, 3, 4]))
    a['metadata'].setdefault('kernelspec', {'display_name': 'Python 3', 'language': 'python', 'name': 'python3'})
    a['metadata']['custom'] = {'v': 1}
    if not any(c['cell_type'] == 'code' for c in a['cells']):
        a['cells'][0] = {'cell_type': 'code', 'id': 'probe-cell', 'metadata': {}, 'source': 'x = 1\n', 'execution_count': 1, 'outputs': []}
    for c in a['cells']:
        c['metadata']['custom'] = 1; c['metadata']['collapsed'] = False; c['metadata'].setdefault('tags', ['t'])
        if c['cell_type'] == 'code':
            c['execution_count'] = 3
            c['outputs'] = [{'output_type': 'stream', 'name': 'stdout', 'text': 'out\n'},
                            {'output_type': 'execute_result', 'execution_count': 3, 'metadata': {'custom': 1},
                             'data': {'text/plain': 'r', 'image/png': 'iVBORw0KGgoAAAANSUhEUgAAAAEAAAABCAYAAAAfFcSJAAAADUlEQVR42mNk+M9QDwADhgGAWjR9awAAAABJRU5ErkJggg==',
                                      'application/json': {'k': [1, 2]}}}]
    b = copy.deepcopy(a)
    b['metadata']['kernelspec'] = dict(b['metadata']['kernelspec'], display_name='Other'); b['metadata']['custom'] = {'v': 2}
    b['metadata']['language_info'] = {'name': 'python', 'version': '3.99'}
    for c in b['cells']:
        c['metadata']['custom'] = 2; c['metadata']['collapsed'] = True; c['metadata']['tags'] = c['metadata']['tags'] + ['u']
        c['source'] = c['source'] + 'extra line\n'
        c['id'] = (c['id'] + 'x')[:64] if not c['id'].endswith('x') else c['id'][:-1] + 'y'
        if c['cell_type'] in ('markdown', 'raw'):
            c['attachments'] = {'probe.png': {'image/png': 'aGVsbG8='}}
        if c['cell_type'] == 'code':
            c['execution_count'] = 4
            c['outputs'][0]['text'] = 'out changed\n'; c['outputs'][0]['name'] = 'stderr'
            c['outputs'][1]['execution_count'] = 4; c['outputs'][1]['metadata'] = {'custom': 2}; c['outputs'][1]['data'] = {'text/plain': 'r2', 'image/png': 'iVBORw0KGgoAAAANSUhEUgAAAAEAAAABCAYAAAAfFcSJAAAADUlEQVR42mP8z8BQDwAEhQGAhKmMIQAAAABJRU5ErkJggg==',
                                           'application/json': {'k': [1, 3]}}
    return a, b

def is_config(o): return o['kind'] in ('targets', 'ignores', 'reset', 'flags')

FLAG_NAMES = ('sources', 'outputs', 'attachments', 'metadata', 'id', 'details')
def flags_shown(o):
    """documented meaning of the diff flags (nbdime/args.py): the flags given are all positive or all negative; the parts
    not mentioned get the opposite value; no flag at all leaves the configuration alone (None)"""
    g = o['given']
    if not g: return None
    if len(set(g.values())) > 1: return None      # mixed signs: argparse.ArgumentError before anything is set
    default = not next(iter(g.values()))
    return [g.get(n, default) for n in FLAG_NAMES]
def as_targets(o):
    if o['kind'] == 'flags':
        sh = flags_shown(o)
        return {'kind': 'noop'} if sh is None else {'kind': 'targets', 'shown': sh}
    return o

def canon_result(x):
    """conflict-marker cells get a fresh random id from nbformat on every run: not part of the result"""
    x = copy.deepcopy(x)
    def walk(v):
        if isinstance(v, dict):
            if v.get('cell_type') == 'markdown' and isinstance(v.get('source'), str) and v['source'].startswith('<span style="color:red"><b>') and 'id' in v:
                v['id'] = 'MARKER'
            for w in v.values(): walk(w)
        elif isinstance(v, list):
            for w in v: walk(w)
    walk(x)
    return x

# ---- documented meaning of the configuration calls: which keys of which paths end up ignored ----
def spec_config(ops):
    """path -> True (whole path ignored) | sorted key list, after the configuration calls in ops (others skipped).
    Mirrors Sys/History.v (which is compared with the real tables after every operation)."""
    t = {}
    def set_ignores(m):
        for p, v in m.items():
            if v is True: t[p] = True
            elif v is False: t.pop(p, None)
            else:
                cur = t.get(p)
                if cur is True: t[p] = True if False else ('wrapped-ignore', sorted(set(v)))   # keys filtered from an empty diff: still nothing
                elif isinstance(cur, tuple): t[p] = cur
                else: t[p] = sorted(set(cur or []) | set(v))
    for o in ops:
        o = as_targets(o)
        if o['kind'] == 'reset': t.clear()
        elif o['kind'] == 'ignores': set_ignores(o['mapping'])
        elif o['kind'] == 'targets':
            s_, o_, a_, m_, i_, d_ = o['shown']
            set_ignores({'/cells/*': False, '/cells/*/outputs/*': False})
            keys = ([] if d_ else ['execution_count']) + ([] if i_ else ['id']) + ([] if a_ else ['attachments']) + ([] if o_ else ['outputs'])
            set_ignores({'/cells/*/source': not s_, '/cells/*/outputs': not o_, '/cells/*/attachments': not a_, '/metadata': not m_,
                         '/cells/*/id': not i_, '/cells/*/metadata': not m_, '/cells/*/outputs/*/metadata': not m_,
                         '/cells/*': keys or False, '/cells/*/outputs/*': False if d_ else ['execution_count']})
    return {p: (True if (v is True or isinstance(v, tuple)) else v) for p, v in t.items()}

# ---- the model, evaluated under coqc on generated cases ----
def coq_str(s): return '(of_ascii "%s"%%string)' % s
def coq_differ(c):
    if c[0] == 'DfIgnoreKeys': return '(DfIgnoreKeys %s [%s])' % (coq_differ(c[1]), '; '.join(coq_str(k) for k in c[2]))
    return c[0]
def coq_op(o):
    if o['kind'] == 'flags':     # the model computes the meaning of the flags itself (Sys/Flags.v: flags_op)
        return '(flags_op %s)' % ' '.join({True: '(Some true)', False: '(Some false)', None: 'None'}[o['given'].get(n)] for n in FLAG_NAMES)
    k = o['kind']
    if k in ('diff', 'gdiff', 'merge', 'gmerge', 'noop'): return '(OpDiff [%s])' % '; '.join(coq_str(p) for p in PROBES[::2])
    if k == 'targets': return '(OpTargets %s)' % ' '.join('true' if x else 'false' for x in o['shown'])
    if k == 'reset': return 'OpReset'
    ents = []
    for p, v in o['mapping'].items():
        iv = 'IgTrue' if v is True else 'IgFalse' if v is False else '(IgKeys [%s])' % '; '.join(coq_str(x) for x in v)
        ents.append('(%s, %s)' % (coq_str(p), iv))
    return '(OpIgnores [%s])' % '; '.join(ents)

def run_model_states(histories, states):
    """for every history prefix: lookups of the model table at the probe paths must equal the observed ones"""
    rows = []
    for h, sts in zip(histories, states):
        for k in range(len(h)):
            if any('?' in json.dumps(c) for c in sts[k]['lookups']): continue
            rows.append('(%s, %s)' % ('[' + '; '.join(coq_op(o) for o in h[:k + 1]) + ']',
                                       '[' + '; '.join(coq_differ(c) for c in sts[k]['lookups']) + ']'))
    src = ('From Coq Require Import List NArith String Bool.\nFrom NB Require Import Base.Json Diff.Codec Diff.GenericDiff Sys.Ignore Sys.History Sys.Flags.\nImport ListNotations.\n'
           'Definition probes : list pystr := [%s].\n' % '; '.join(coq_str(p) for p in PROBES) +
           'Definition ok (row : list op * list differ) : bool :=\n  let t := run_history (fst row) in\n'
           '  Nat.eqb (List.length (snd row)) (List.length probes) && forallb (fun pq => differ_eqb (lookup t (fst pq)) (snd pq)) (combine probes (snd row)).\n'
           'Definition cases : list (list op * list differ) := [\n' + ';\n'.join(rows) + '\n].\n'
           'Definition bad := filter (fun ir => negb (ok (snd ir))) (combine (seq 0 (List.length cases)) cases).\n'
           'Eval vm_compute in (List.length cases, map fst bad).\n')
    d = tempfile.mkdtemp(prefix='nbv_c12_')
    try:
        f = os.path.join(d, 'cases.v'); open(f, 'w').write(src)
        p = subprocess.run(['timeout', '600', 'coqc', '-Q', core.COQ, 'NB', f], capture_output=True, text=True, cwd=d)
        out = p.stdout + p.stderr
    finally:
        shutil.rmtree(d, ignore_errors=True)
    import re
    m = re.search(r'=\s*\((\d+),\s*\[(.*?)\]\)', out.replace('\n', ' '))
    if p.returncode != 0 or not m: return None, out[-1500:], len(rows)
    bad = [int(x) for x in re.findall(r'\d+', m.group(2))]
    return bad, rows, len(rows)

def run(tier, seed):
    chk = core.Check(PROP, tier, seed)
    b = core.build()
    proofs_ok = chk.proof_obligations('Props/C12.v', b)
    r = chk.rng
    nh = 60 if tier == 'quick' else 700
    histories = [gen_history(r, tier) for _ in range(nh)]
    # systematic set -> unset families: every way of installing an ignore followed by every way of lifting it
    keysets = {'/metadata': ['kernelspec'], '/cells/*/metadata': ['collapsed', 'tags'], '/cells/*': ['execution_count', 'id'],
               '/cells/*/outputs/*': ['execution_count', 'metadata'], '/cells/*/outputs/*/metadata': ['custom']}
    for p, ks in keysets.items():
        for lift in ({'kind': 'ignores', 'mapping': {p: False}}, {'kind': 'reset'}, {'kind': 'targets', 'shown': [True] * 6},
                     {'kind': 'flags', 'given': {n: True for n in FLAG_NAMES}}):
            for install in ({p: ks}, {p: True}):
                a, bnb = everywhere_pair(r)
                histories.append([{'kind': 'ignores', 'mapping': install}, lift, {'kind': 'diff', 'a': a, 'b': bnb}])
    # key filters installed AFTER the process has already diffed something (the tables then hold materialised defaults)
    for p, ks in keysets.items():
        for first in ('diff', 'merge'):
            a0, b0 = everywhere_pair(r); a, bnb = aligned_mime_pair(r)
            op0 = {'kind': 'diff', 'a': a0, 'b': b0} if first == 'diff' else {'kind': 'merge', 'base': a0, 'local': b0, 'remote': copy.deepcopy(a0), 'strategy': 'inline'}
            histories.append([op0, {'kind': 'ignores', 'mapping': {p: ks}}, {'kind': 'diff', 'a': a, 'b': bnb}])
    for hidden in ([0], [3], [4], [5], [2, 4, 5], [0, 1, 2, 3, 4, 5]):
        for lift in ({'kind': 'reset'}, {'kind': 'targets', 'shown': [True] * 6}, {'kind': 'flags', 'given': {n: True for n in FLAG_NAMES}}):
            a, bnb = everywhere_pair(r)
            histories.append([{'kind': 'targets', 'shown': [i not in hidden for i in range(6)]}, lift, {'kind': 'diff', 'a': a, 'b': bnb}])
    for _ in range(24 if tier == 'quick' else 300): histories.append(versions_history(r))
    for _ in range(9 if tier == 'quick' else 90): histories.append(failing_call_history(r))
    for n in ([1500, 4000] if tier == 'quick' else [1100, 1500, 2500, 4000, 9000, 20000]): histories.append(wide_table_history(r, n))
    res = core.run_impl([{'op': 'history', 'ops': h} for h in histories], shards=14, isolate=True)
    states = []; evals = 0; nontrivial = set(); hist = {}
    fresh_tasks = []; fresh_idx = []
    for hi, (h, rr) in enumerate(zip(histories, res)):
        if 'ok' not in rr:
            chk.broken_obligation('harness:history-runner', rr); states.append([]); continue
        outs = rr['ok']; states.append([o['state'] for o in outs])
        for o in h: hist[o['kind']] = hist.get(o['kind'], 0) + 1
        # predicate table must stay empty, recursion flag restored
        for k, o in enumerate(outs):
            if o['state']['pred_keys']:
                chk.violation('predicate-table-grows', {'history': h[:k + 1]}, {'pred_keys': o['state']['pred_keys']})
            if o['state']['merge_strings_recursion']:
                chk.violation('merge-strings-recursion-flag-left-set', {'history': h[:k + 1]}, {})
        # choose the last op and one other non-config op for the fresh-process comparison
        cand = [k for k, o in enumerate(h) if not is_config(o)]
        picks = {cand[-1]} | ({r.choice(cand)} if len(cand) > 1 else set())
        if any(o['kind'] == 'gmerge' for o in h): picks |= set(cand)     # failing-call family: every call is compared
        for k in sorted(picks):
            # the fresh interpreter is configured from the MEANING of the preceding configuration calls, in one step
            fresh_tasks.append({'op': 'history', 'ops': [{'kind': 'ignores', 'mapping': spec_config(h[:k])}, h[k]]})
            fresh_idx.append((hi, k))
    fres = core.run_impl(fresh_tasks, shards=14, isolate=True)
    ok_calls = 0
    for (hi, k), fr in zip(fresh_idx, fres):
        evals += 1
        long_run = res[hi]['ok'][k]; fresh = fr['ok'][-1] if 'ok' in fr else fr
        key = lambda x: ('ok', pyspec.canon(canon_result(x['ok']))) if 'ok' in x else ('err', x.get('err'))
        if 'ok' in long_run and long_run['ok']: nontrivial.add(pyspec.canon([hi, k]))
        if 'err' in long_run and long_run['err'] in ('NameError', 'ImportError', 'HarnessCrash', 'AttributeError'):
            chk.broken_obligation('harness:runner-error', {'err': long_run.get('err'), 'msg': long_run.get('msg')})
        if 'ok' in long_run: ok_calls += 1
        if key(long_run) != key(fresh):
            sig = 'result-depends-on-process-history'
            if 'err' in long_run and 'ok' in fresh: sig = 'fails-only-after-history:' + long_run['err']
            chk.violation(sig, {'history': histories[hi][:k + 1]},
                          {'position': k, 'in_history': key(long_run)[0] + ':' + str(key(long_run)[1])[:200], 'fresh': key(fresh)[0] + ':' + str(key(fresh)[1])[:200]})
    # T1: the global tables follow the state machine of Sys/History.v after every operation
    t1 = 0
    if proofs_ok:
        bad, info, n = run_model_states(histories, states)
        t1 = n
        if bad is None:
            chk.broken_obligation('correspondence:history-model-evaluation', info)
        elif bad:
            chk.broken_obligation('correspondence:global-tables-vs-state-machine', {'mismatching_rows': bad[:5], 'example': info[bad[0]][:1500]})
    if ok_calls * 2 < evals:
        chk.broken_obligation('harness:most-compared-calls-fail', {'ok': ok_calls, 'of': evals})
    chk.cov.update({'compared_calls_returning_normally': ok_calls})
    chk.cov.update({'evaluations': evals, 'distinct_nontrivial': len(nontrivial),
                    'rule': 'histories of 2-13 calls (notebook diffs incl. metadata that is a list of lists in one notebook and a list of objects in another, generic diffs, merges under four strategies, set_notebook_diff_targets, set_notebook_diff_ignores, reset) run in one interpreter; the last call and one other call are re-run in a fresh interpreter after only the configuration calls that preceded them; non-trivial = compared call with a non-empty result',
                    'histories': nh, 'input_distribution': hist, 'traces_validated_against_impl': t1, 'exhaustive': False})
    chk.sample({'history_kinds': [o['kind'] for o in histories[0]]})
    chk.sample({'op': {k: (v if k in ('kind', 'shown', 'mapping', 'strategy') else '...') for k, v in histories[1][0].items()}})
    return chk.finish('proof', ASSUME)

def replay(path):
    body = json.load(open(path)); h = body['case']['history']
    long_run = core.run_impl([{'op': 'history', 'ops': h}])[0]['ok'][-1]
    fresh = core.run_impl([{'op': 'history', 'ops': [{'kind': 'ignores', 'mapping': spec_config(h[:-1])}, h[-1]]}])[0]['ok'][-1]
    key = lambda x: ('ok', pyspec.canon(canon_result(x['ok']))) if 'ok' in x else ('err', x.get('err'))
    same = key(long_run) == key(fresh)
    print(json.dumps({'same': same, 'in_history': key(long_run)[0], 'fresh': key(fresh)[0]}))
    if not same:
        print('VIOLATION property=%s replay=%s' % (PROP, path)); return 1
    return 0
