"""C14 -- ignore options hide exactly the ignored categories and nothing else."""
import os, sys, json, copy, itertools
import core, gennb, pyspec, wire

PROP = 'C14'
CATS = ['sources', 'outputs', 'attachments', 'metadata', 'id', 'details']
ASSUME = ['for the text printed by nbdiff, details also comprises the format version keys nbformat / nbformat_minor (hidden by the renderer together with details); other cell keys such as cell_type belong to no category',
          'category membership of a notebook location is decided by the harness from the property text (sources, outputs, attachments, metadata at notebook/cell/output level, cell ids, details = execution counts of cells and outputs)',
          'the Ignore configuration mapping equivalent to a subset is built from the documented path table']

def mapping_for(ignored):
    """the Ignore mapping a user would write to ignore these categories, in the documented idiom: true for
    whole lists/maps, key lists for leaf keys of a map (docs/source/config.rst, 'Configuring ignores')"""
    m = {}
    if 'sources' in ignored: m['/cells/*/source'] = True
    if 'outputs' in ignored: m['/cells/*/outputs'] = True
    if 'metadata' in ignored:
        m['/metadata'] = True; m['/cells/*/metadata'] = True; m['/cells/*/outputs/*/metadata'] = True
    cell_keys = []
    if 'details' in ignored:
        cell_keys.append('execution_count'); m['/cells/*/outputs/*'] = ['execution_count']
    if 'id' in ignored: cell_keys.append('id')
    if 'attachments' in ignored:
        m['/cells/*/attachments'] = True; cell_keys.append('attachments')
    if 'outputs' in ignored: cell_keys.append('outputs')
    if cell_keys: m['/cells/*'] = cell_keys
    return m

def cats_of(path):
    """categories a diff location (list of keys, ints as '*') lies in"""
    p = ['*' if isinstance(k, int) else k for k in path]
    out = set()
    if p[:1] == ['metadata']: out.add('metadata')
    if p[:2] == ['cells', '*'] and len(p) >= 3:
        k = p[2]
        if k == 'source': out.add('sources')
        if k == 'outputs':
            out.add('outputs')
            if len(p) >= 5 and p[3] == '*':
                if p[4] == 'metadata': out.add('metadata')
                if p[4] == 'execution_count': out.add('details')
        if k == 'attachments': out.add('attachments')
        if k == 'metadata': out.add('metadata')
        if k == 'id': out.add('id')
        if k == 'execution_count': out.add('details')
    return out

def render_cats(path):
    """categories of a path printed by the text renderer; there 'details' also covers the format version keys
    nbformat / nbformat_minor (args.py: 'details not covered by other options'; prettyprint.py hides them with details)"""
    keys = [int(k) if k.isdigit() else k for k in path.split('/')[1:]]
    out = cats_of(keys)
    p = ['*' if isinstance(k, int) else k for k in keys]
    if p[:1] in (['nbformat'], ['nbformat_minor']): out.add('details')
    return out

def judge_render(case, res):
    ignored = set(case['ignored'])
    if 'render_error' in res: return 'render-raises:' + res['render_error'].get('err', '?'), res['render_error']
    heads = res.get('render_headings')
    if heads is None: return None, None
    for action, path in heads:
        hit = render_cats(path) & ignored
        if hit: return 'render-reports-ignored-category:' + '+'.join(sorted(hit)), {'heading': [action, path]}
    pa, pb = project(case['a'], ignored), project(case['b'], ignored)
    if 'details' in ignored:
        for k in ('nbformat', 'nbformat_minor'): pb[k] = pa.get(k)
    if 'sources' not in ignored and pyspec.strict_eq(pa, pb) and heads:
        return 'render-prints-entries-for-ignored-only-difference', {'headings': heads[:5]}
    return None, None

def leaf_locations(d, path=()):
    """locations named by the non-patch entries of a diff"""
    for e in d:
        if e['op'] == 'patch':
            for x in leaf_locations(e['diff'], path + (e['key'],)): yield x
        else:
            yield path + (e['key'],)

def project(nb, ignored):
    nb = copy.deepcopy(nb)
    if 'metadata' in ignored: nb['metadata'] = {}
    for c in nb.get('cells', []):
        if 'sources' in ignored: c['source'] = ''
        if 'attachments' in ignored: c.pop('attachments', None)
        if 'metadata' in ignored: c['metadata'] = {}
        if 'id' in ignored: c.pop('id', None)
        if 'details' in ignored: c.pop('execution_count', None)
        if 'outputs' in ignored: c.pop('outputs', None)
        if 'outputs' in c:
            for o in c['outputs']:
                if 'metadata' in ignored and 'metadata' in o: o['metadata'] = {}
                if 'details' in ignored: o.pop('execution_count', None)
    return nb

def judge(case, res):
    ignored = set(case['ignored'])
    if 'err' in res: return 'diff-raises:' + res['err'], {'msg': res.get('msg'), 'tb': res.get('tb')}
    d = res['ok']
    for loc in leaf_locations(d):
        hit = cats_of(loc) & ignored
        if hit: return 'reports-ignored-category:' + '+'.join(sorted(hit)), {'location': list(loc)}
    pr = res['patched']
    if 'err' in pr: return 'patch-raises:' + pr['err'], {'msg': pr.get('msg')}
    if not pyspec.strict_eq(project(pr['ok'], ignored), project(case['b'], ignored)):
        return 'non-ignored-part-not-reproduced', {}
    if 'sources' not in ignored and pyspec.strict_eq(project(case['a'], ignored), project(case['b'], ignored)) and d != []:
        return 'non-empty-diff-for-ignored-only-difference', {'diff': d}
    return None, None

def run(tier, seed):
    chk = core.Check(PROP, tier, seed)
    b = core.build()
    chk.proof_obligations('Props/C14.v', b)
    r = chk.rng
    subsets = [frozenset(c for c, bit in zip(CATS, bits) if bit) for bits in itertools.product([0, 1], repeat=6)]
    npairs = 10 if tier == 'quick' else 60
    pairs = []
    single = {'sources': ('edit_source',), 'outputs': ('edit_outputs', 'clear_outputs'), 'attachments': ('edit_attachments',),
              'metadata': ('edit_metadata', 'nb_metadata'), 'details': ('rerun',)}
    for i in range(npairs):
        a = gennb.gen_notebook(r, rich=(i % 2 == 0), minor=r.choice([4, 5, 5]))
        kind = r.choice(list(single) + ['any', 'any'])
        bb = gennb.edit_notebook(r, a, intensity=r.choice([1, 2]), allow=single[kind]) if kind != 'any' else gennb.edit_notebook(r, a, intensity=2)
        pairs.append((a, bb, kind))
    # differences confined to ids / execution counts / output metadata (hand-made)
    for i in range(npairs // 2 + 2):
        a = gennb.gen_notebook(r, rich=True, minor=5)
        bb = copy.deepcopy(a)
        for c in bb['cells']:
            if r.random() < 0.5: c['id'] = c['id'][::-1] + 'x'
            if c['cell_type'] == 'code':
                c['execution_count'] = (c.get('execution_count') or 0) + 1
                for o in c['outputs']:
                    if o['output_type'] == 'execute_result': o['execution_count'] = c['execution_count']
                    if 'metadata' in o: o['metadata'] = dict(o['metadata'], tweaked=r.randint(0, 9))
        pairs.append((a, bb, 'id+details+outmeta'))
    # notebooks saved by different front-end versions: nbformat_minor differs (hidden by the renderer with details)
    for i in range(3 if tier == 'quick' else 12):
        a = gennb.gen_notebook(r, rich=(i % 2 == 0), minor=4)
        bb = gennb.edit_notebook(r, a, intensity=1, allow=single[r.choice(list(single))]) if i % 3 else copy.deepcopy(a)
        bb['nbformat_minor'] = r.choice([2, 3])
        pairs.append((a, bb, 'minor'))
    cases = []
    for (a, bb, kind) in pairs:
        for ign in subsets:
            modes = ['api']
            if len(ign) < 6: modes.append('pos')
            if len(ign) > 0: modes.append('neg')
            modes.append('cfg')
            if tier == 'quick': modes = [r.choice(modes)] if r.random() < 0.8 else modes
            for m in modes:
                cases.append({'a': a, 'b': bb, 'ignored': sorted(ign), 'mode': m, 'kind': kind})
    # the boolean selection followed by an Ignore mapping with key lists on the same paths (server extension order):
    # what the selection ignores must stay ignored, and the listed keys are ignored too
    for (a, bb, kind) in pairs[:(14 if tier == 'quick' else 80)]:
        for _ in range(3 if tier == 'quick' else 6):
            first = frozenset(c for c in CATS if r.random() < 0.4)
            second = frozenset(r.sample(['id', 'details'], r.choice([1, 1, 2])))
            m2 = {}
            keys = (['execution_count'] if 'details' in second else []) + (['id'] if 'id' in second else [])
            m2['/cells/*'] = keys
            if 'details' in second: m2['/cells/*/outputs/*'] = ['execution_count']
            cases.append({'a': a, 'b': bb, 'ignored': sorted(first | second), 'mode': 'api+cfg', 'kind': kind, 'first': sorted(first), 'mapping2': m2})
    tasks = [{'op': 'nbdiff_ignore', 'a': c['a'], 'b': c['b'], 'ignored': c['ignored'], 'mode': c['mode'], 'first': c.get('first'),
              'mapping': c.get('mapping2') or mapping_for(set(c['ignored'])), 'render': True} for c in cases]
    if os.environ.get('VERIF_DUMP_TASKS'):
        json.dump(tasks, open(os.environ['VERIF_DUMP_TASKS'], 'w')); print('dumped', len(tasks)); return 0
    results = core.run_impl(tasks, shards=14)
    hist = {}; nontrivial = set(); rendered = 0
    for c, res in zip(cases, results):
        hist[c['mode']] = hist.get(c['mode'], 0) + 1
        if res.get('ok'): nontrivial.add(pyspec.canon([c['ignored'], c['mode'], res['ok']]))
        sig, detail = judge(c, res)
        if sig: chk.violation(sig, {'a': c['a'], 'b': c['b'], 'ignored': c['ignored'], 'mode': c['mode'], 'first': c.get('first'), 'mapping2': c.get('mapping2')}, detail)
        if not sig and 'err' not in res:
            if 'render_headings' in res or 'render_error' in res: rendered += 1
            sig, detail = judge_render(c, res)
            if sig: chk.violation(sig, {'a': c['a'], 'b': c['b'], 'ignored': c['ignored'], 'mode': c['mode'], 'first': c.get('first'), 'mapping2': c.get('mapping2')}, detail)
    chk.cov['rendered_cases_judged'] = rendered
    # T1: the model under the generated table of the subset must output nbdime's diff exactly
    t1 = 0; mism = 0
    if getattr(b, 'model_ok', False):
        lines = []; idx = []
        for i, (c, res) in enumerate(zip(cases, results)):
            if c['mode'] in ('cfg', 'api+cfg') or 'oracles' not in res: continue
            if c['mode'] == 'pos' and len(c['ignored']) == 6: continue
            if tier == 'quick' and i % 3: continue
            index = sum((1 << (5 - k)) for k, cat in enumerate(CATS) if cat in c['ignored'])
            lines.append(('nbdiff_ign', [index, c['a'], c['b'], res['oracles']])); idx.append(i)
        for s in range(0, len(lines), 60):
            outs = wire.run_model(lines[s:s + 60])
            for i, (v, misses) in zip(idx[s:s + 60], outs):
                t1 += 1
                res = results[i]
                same = isinstance(v, dict) and 'ok' in v and pyspec.strict_eq(v['ok'], res['ok'])
                if not same:
                    mism += 1
                    if mism <= 3:
                        chk.broken_obligation('correspondence:nbdiff-under-ignore-table', {'a': cases[i]['a'], 'b': cases[i]['b'], 'ignored': cases[i]['ignored'], 'mode': cases[i]['mode'], 'impl': res['ok'], 'model': v})
    else:
        chk.broken_obligation('model-build', b.log[-800:])
    chk.cov.update({'traces_validated_against_impl': t1, 'model_impl_mismatches': mism})
    chk.cov.update({'evaluations': len(cases), 'distinct_nontrivial': len(nontrivial),
                    'rule': 'notebook pairs differing in one category or arbitrarily (harness/gennb.py) x all 64 subsets of the six categories, given through set_notebook_diff_targets, positive flags, negative flags or an Ignore mapping (quick: one random mode per (pair, subset) mostly); non-trivial = non-empty diff, distinct by (subset, mode, diff)',
                    'input_distribution': hist, 'subsets': 64, 'exhaustive': False})
    chk.sample({'ignored': cases[5]['ignored'], 'mode': cases[5]['mode'], 'kind': cases[5]['kind']})
    return chk.finish('proof', ASSUME)

def replay(path):
    body = json.load(open(path)); c = body['case']
    res = core.run_impl([{'op': 'nbdiff_ignore', 'a': c['a'], 'b': c['b'], 'ignored': c['ignored'], 'mode': c['mode'], 'first': c.get('first'),
                          'mapping': c.get('mapping2') or mapping_for(set(c['ignored'])), 'render': True}])[0]
    sig, detail = judge(c, res)
    if not sig and 'err' not in res: sig, detail = judge_render(c, res)
    print(json.dumps({'signature': sig, 'detail': detail}, default=str)[:2000])
    if sig:
        print('VIOLATION property=%s replay=%s' % (PROP, path)); return 1
    return 0
