"""C18 -- git integration set-up is idempotent and never touches foreign settings.

Proof side : coq/Props/C18.v (theorems over the programs that tools/gen/gen_gitcfg.py translates from /repo's sources).
T1 (tie)   : the Coq model (Sys/GitCfg.v semantics + Gen/GitCfg.v programs, evaluated by vm_compute under coqc) against
             nbdime's real entry points driving real git in a sandbox, transition by transition, on the property's grid of
             initial configurations x command sequences.
T2 (oracle): the property itself evaluated on what real git reports before/after each command (no nbdime code, no model).
"""
import os, sys, json, re, itertools, subprocess, tempfile, shutil, copy
import core

PROP = 'C18'
TOOLS = ['diffdriver', 'mergedriver', 'difftool', 'mergetool']
SECTION = {'diffdriver': 'diff.jupyternotebook', 'mergedriver': 'merge.jupyternotebook',
           'difftool': 'difftool.nbdime', 'mergetool': 'mergetool.nbdime'}
PROMPT = {'difftool': 'difftool.prompt', 'mergetool': 'mergetool.prompt'}
DEFAULT = {'difftool': 'diff.guitool', 'mergetool': 'merge.tool'}
DRIVER_ATTR = {'diffdriver': 'diff', 'mergedriver': 'merge'}
ROUTE_KEY = {'diffdriver': 'diff.jupyternotebook.command', 'mergedriver': 'merge.jupyternotebook.driver'}
COQ_TOOL = {'diffdriver': 'DiffDriver', 'mergedriver': 'MergeDriver', 'difftool': 'DiffTool', 'mergetool': 'MergeTool'}
SCOPES = ['local', 'global']
ASSUME = [
    'git config semantics as stated at the top of coq/Sys/GitCfg.v (set never fails inside a repository; --unset / --remove-section / value query fail on a missing key/section; an unscoped query sees repository-over-global); compared with real git on every transition of every run',
    'configuration keys are single-valued and lower-case; values carry no surrounding blanks (git would normalise them)',
    'commands are run from the top of a work tree (cwd holds .git -- a directory, or the "gitdir:" file of a linked worktree / submodule / --separate-git-dir checkout); repository-scope commands run in a bare repository or outside any repository are outside the property (only "nothing foreign is touched" is judged there, the model is not consulted); --system scope is outside the property and not modelled',
    'attributes files are UTF-8 text; the global attributes file is the one git itself resolves (core.attributesfile, else $XDG_CONFIG_HOME/git/attributes, else ~/.config/git/attributes) -- nbdime.utils.locate_gitattributes is not translated, its result is compared with the file real git reads in the tie',
    'python process semantics: an uncaught exception ends the command with a non-zero status, main() returning 0/None is status 0',
    'the translator tools/gen/gen_gitcfg.py and the comparison code of this check',
]

# ------------------------------------------------------------------ small helpers
def cmd(tool, enable, scope, sd=False):
    return {'tool': tool, 'enable': bool(enable), 'scope': scope, 'sd': bool(sd)}

def cmd_str(c):
    name = 'nbdime config-git' if c['tool'] == 'all' else 'git-nb%s config' % c['tool']
    return '%s %s%s%s' % (name, '--enable' if c['enable'] else '--disable', ' --global' if c['scope'] == 'global' else '',
                          ' --set-default' if c.get('sd') else '')

def tools_of(c):
    return list(TOOLS) if c['tool'] == 'all' else [c['tool']]

def split_key(k):
    sec, _, var = k.rpartition('.')
    return sec, var

def cfgmap(obs, sc):
    m = {}
    for k, v in obs['cfg'][sc]:
        m.setdefault(k, []).append(v)
    return m

def lines_of(text):
    if text is None or text == '': return []
    ls = text.split('\n')
    if ls[-1] == '': ls.pop()
    return ls

def rule_driver(line):
    """'diffdriver'/'mergedriver' when the line is a rule sending *.ipynb to nbdime's driver, else None"""
    t = line.split()
    if len(t) >= 2 and t[0] == '*.ipynb':
        for d, a in DRIVER_ATTR.items():
            if (a + '=jupyternotebook') in t[1:]: return d
    return None

# kinds of checkout a command can be run in (the runner builds them): where cwd is and where the repository's config file is,
# relative to the sandbox.  In FILE_KINDS `.git` is a file ("gitdir: ..."), as git itself creates it; in NOTREE_KINDS cwd is not
# the top of a work tree, so repository-scope commands are outside the property's space there (global-scope ones are not).
WORK_REL = {'plain': 'repo', 'worktree': 'wt', 'separate': 'sep', 'submodule': 'super/sub', 'bare': 'bare.git', 'norepo': 'norepo'}
CFG_REL = {'plain': 'repo/.git/config', 'worktree': 'wtmain/.git/config', 'separate': 'sepgit/config',
           'submodule': 'super/.git/modules/sub/config', 'bare': 'bare.git/config', 'norepo': 'norepo/<no repository configuration>'}
FILE_KINDS = ['worktree', 'separate', 'submodule']
NOTREE_KINDS = ['bare', 'norepo']

def kind_of(case_or_init):
    return case_or_init.get('init', case_or_init).get('kind', 'plain')

def in_space(c, kind):
    """False for a repository-scope command run where there is no work tree at cwd (bare repository, no repository): git has
    no repository attributes file there (and outside a repository `git config` itself fails), so only the 'touches nothing
    foreign' legs of the property are judged for it"""
    return not (kind in NOTREE_KINDS and c['scope'] == 'local')

def attr_rel(sc, attrloc, kind='plain'):
    if sc == 'local': return WORK_REL[kind] + '/.gitattributes'
    return {'xdg': 'xdg/git/attributes', 'home': 'home/.config/git/attributes', 'custom': 'custom/attrs'}[attrloc]

def cfg_rel(sc, kind='plain'):
    return CFG_REL[kind] if sc == 'local' else 'home/.gitconfig'

def protected(key):
    return split_key(key)[0] not in SECTION.values() and key not in PROMPT.values()

# ------------------------------------------------------------------ T2: the property on real observations
def judge_step(B, A, c, status, attrloc, kind='plain'):
    """violations of the property by one executed command: list of (kind, detail)"""
    out = []
    inside = in_space(c, kind)
    sc = c['scope']; osc = 'global' if sc == 'local' else 'local'
    tools = tools_of(c)
    changed_files = sorted(f for f in set(B['files']) | set(A['files']) if B['files'].get(f) != A['files'].get(f))
    allowed_files = {cfg_rel(sc, kind), attr_rel(sc, attrloc, kind)}
    word = 'enable' if c['enable'] else 'disable'
    for f in changed_files:
        if f not in allowed_files:
            out.append(('%s-touches-unexpected-file:%s' % (word, f), {'file': f}))
    if A['cfg']['other'] != B['cfg']['other']:
        out.append((word + '-touches-unexpected-config-source', {'before': B['cfg']['other'], 'after': A['cfg']['other']}))
    if c['enable']:
        if status != 'ok' and inside:
            out.append(('enable-fails', {'status': status}))
        for s in SCOPES:
            b, a = cfgmap(B, s), cfgmap(A, s)
            for k in sorted(set(b) | set(a)):
                if b.get(k) == a.get(k): continue
                sec = split_key(k)[0]; v = a.get(k)
                ok = s == sc and v is not None and len(v) == 1 and (
                    sec in [SECTION[t] for t in tools]
                    or (k in [PROMPT.get(t) for t in tools] and v == ['false'])
                    or (c.get('sd') and k in [DEFAULT.get(t) for t in tools] and v == ['nbdime']))
                if not ok:
                    out.append(('enable-writes-outside-footprint:%s' % k, {'scope': s, 'key': k, 'before': b.get(k), 'after': v}))
        if B['att'][osc] != A['att'][osc]:
            out.append(('enable-touches-other-scope-attributes', {'before': B['att'][osc], 'after': A['att'][osc]}))
        lb, la = lines_of(B['att'][sc]), lines_of(A['att'][sc])
        if la[:len(lb)] != lb or (B['att'][sc] is not None and A['att'][sc] is None):
            out.append(('enable-damages-attributes-content', {'before': B['att'][sc], 'after': A['att'][sc]}))
        else:
            seen = []
            for l in la[len(lb):]:
                if not l.strip(): continue
                d = rule_driver(l)
                if d is None or d not in tools or d in seen:
                    out.append(('enable-adds-unexpected-attributes-line', {'line': l, 'before': B['att'][sc], 'after': A['att'][sc]}))
                    break
                seen.append(d)
        a = cfgmap(A, sc)
        for d in tools:
            if d not in DRIVER_ATTR or not inside: continue
            why = None
            if ROUTE_KEY[d] not in a: why = 'no %s in the %s configuration' % (ROUTE_KEY[d], sc)
            elif A['check_attr'].get(DRIVER_ATTR[d]) != 'jupyternotebook': why = 'git check-attr %s -- x.ipynb says %r' % (DRIVER_ATTR[d], A['check_attr'].get(DRIVER_ATTR[d]))
            elif d == 'diffdriver' and not A['routed_diff']: why = '`git diff x.ipynb` does not reach git-nbdiffdriver'
            if why:
                out.append(('enable-does-not-route:%s' % d, {'why': why, 'attributes': A['att'][sc]}))
    else:
        a = cfgmap(A, sc)
        for d in tools:
            if d in DRIVER_ATTR and any(split_key(k)[0] == SECTION[d] for k in a):
                out.append(('disable-leaves-driver:%s' % d, {'left': [k for k in a if split_key(k)[0] == SECTION[d]]}))
        if 'diffdriver' in tools and ROUTE_KEY['diffdriver'] not in cfgmap(A, osc) and A['routed_diff']:
            out.append(('disable-still-routes:diffdriver', {}))
        for s in SCOPES:
            b, a2 = cfgmap(B, s), cfgmap(A, s)
            for k in sorted(set(b) | set(a2)):
                if b.get(k) == a2.get(k) or not protected(k): continue
                if b.get(k) != ['nbdime']:
                    out.append(('disable-alters-foreign:%s' % k, {'scope': s, 'key': k, 'before': b.get(k), 'after': a2.get(k)}))
            keep_b = [l for l in lines_of(B['att'][s]) if rule_driver(l) is None and l.strip()]
            keep_a = [l for l in lines_of(A['att'][s]) if rule_driver(l) is None and l.strip()]
            if keep_b != keep_a:
                out.append(('disable-damages-attributes-content', {'scope': s, 'before': B['att'][s], 'after': A['att'][s]}))
    return out

def same_state(X, Y):
    return all(sorted(map(tuple, X['cfg'][s])) == sorted(map(tuple, Y['cfg'][s])) for s in SCOPES + ['other']) and X['att'] == Y['att']

def judge_case(case, res):
    """all violations of one executed sequence: list of (kind, step, detail)"""
    out = []
    if 'err' in res:
        return [('harness-crash', 0, res)]
    obs, st = res['obs'], res['status']
    cmds = case['cmds']
    for i, c in enumerate(cmds):
        for kind, det in judge_step(obs[i], obs[i + 1], c, st[i], case['init'].get('attrloc', 'xdg'), kind_of(case)):
            out.append((kind, i, det))
        if c['enable'] and i > 0 and cmds[i - 1] == c and case.get('probe', {}).get(str(i)):
            if not same_state(obs[i], obs[i + 1]) or (st[i] != 'ok' and in_space(c, kind_of(case))):
                out.append(('enable-not-idempotent', i, {'after_first': strip_obs(obs[i]), 'after_second': strip_obs(obs[i + 1]), 'status': st[i]}))
    return out

def strip_obs(o):
    return {'cfg': o['cfg'], 'att': o['att'], 'check_attr': o['check_attr'], 'routed_diff': o['routed_diff']}

# ------------------------------------------------------------------ cases
def with_probes(cmds):
    """every enabling command is run twice in a row (the second run is the idempotence probe)"""
    out, probe = [], {}
    for c in cmds:
        out.append(c)
        if c['enable']:
            out.append(dict(c)); probe[str(len(out) - 1)] = True
    return out, probe

def mk_case(init, cmds, src, mode='inproc'):
    cs, probe = with_probes(cmds)
    return {'init': init, 'cmds': cs, 'probe': probe, 'src': src, 'mode': mode, 'base_cmds': cmds}

ATT_VARIANTS = {
    'absent': None,
    'unrelated': '# my rules\n*.txt text\n*.png binary\n',
    'unrelated-noeol': '*.dat -merge -diff',
    'nbdime': '*.py text\n\n*.ipynb\tdiff=jupyternotebook\n\n*.ipynb\tmerge=jupyternotebook\n',
    'nbdime-diff-only': '*.ipynb\tdiff=jupyternotebook\n',
}

def grid_inits():
    out = []
    for sc in SCOPES:
        for mt in (None, 'nbdime', 'meld'):
            for gt in (None, 'nbdime', 'kdiff3'):
                for pr in (None, 'true', 'false'):
                    for an, at in ATT_VARIANTS.items():
                        kv = []
                        if mt: kv.append(['merge.tool', mt])
                        if gt: kv.append(['diff.guitool', gt])
                        if pr: kv += [['difftool.prompt', pr], ['mergetool.prompt', pr]]
                        osc = 'global' if sc == 'local' else 'local'
                        out.append(({'cfg': {sc: kv, osc: []}, 'att': {sc: at, osc: None}, 'attrloc': 'xdg'},
                                    'grid:%s:mt=%s:gt=%s:pr=%s:att=%s' % (sc, mt, gt, pr, an), sc))
    return out

def cross_inits():
    """settings in both scopes at once, other locations of the global attributes file, drivers already present"""
    E = lambda l, g, al=None, ag=None, loc='xdg': {'cfg': {'local': l, 'global': g}, 'att': {'local': al, 'global': ag}, 'attrloc': loc}
    drv = [['diff.jupyternotebook.command', 'git-nbdiffdriver diff'], ['merge.jupyternotebook.driver', 'git-nbmergedriver merge %O %A %B %L %P'],
           ['merge.jupyternotebook.name', 'jupyter notebook merge driver']]
    return [
        (E([['diff.guitool', 'nbdime']], [['diff.guitool', 'kdiff3']]), 'cross:guitool-local-nbdime-global-other'),
        (E([['diff.guitool', 'kdiff3']], [['diff.guitool', 'nbdime']]), 'cross:guitool-local-other-global-nbdime'),
        (E([['merge.tool', 'nbdime']], [['merge.tool', 'meld']]), 'cross:mergetool-local-nbdime-global-other'),
        (E([['merge.tool', 'meld']], [['merge.tool', 'nbdime']]), 'cross:mergetool-local-other-global-nbdime'),
        (E([], [['diff.guitool', 'nbdime'], ['merge.tool', 'nbdime']]), 'cross:global-nbdime-only'),
        (E(drv, drv, ATT_VARIANTS['nbdime'], ATT_VARIANTS['nbdime']), 'cross:drivers-in-both'),
        (E(drv + [['diff.jupyternotebook.textconv', 'cat']], [], ATT_VARIANTS['nbdime'], None), 'cross:extra-key-in-driver-section'),
        (E([['diff.tool', 'vimdiff'], ['merge.conflictstyle', 'diff3'], ['difftool.meld.cmd', 'meld "$LOCAL" "$REMOTE"']],
           [['user.name', 'A U Thor'], ['merge.tool', 'meld'], ['mergetool.meld.trustexitcode', 'true']],
           ATT_VARIANTS['unrelated'], ATT_VARIANTS['unrelated-noeol']), 'cross:many-foreign'),
        (E([], [['merge.tool', 'meld']], None, ATT_VARIANTS['unrelated'], 'home'), 'cross:attrs-in-home-config'),
        (E([], [], None, None, 'home'), 'cross:attrs-in-home-config-absent'),
        (E([], [['diff.guitool', 'kdiff3']], None, ATT_VARIANTS['unrelated-noeol'], 'custom'), 'cross:attrs-custom-path'),
        (E([], [], None, None, 'custom'), 'cross:attrs-custom-path-absent'),
    ]

# ---- look-alike family: OTHER tools / sections whose names merely resemble nbdime's own ('nbdime', 'jupyternotebook').
# A default-tool setting such as merge.tool=nbdime-wrapper points at another tool exactly as merge.tool=meld does; the grid
# above only ever uses names that share nothing with 'nbdime', so a guard that compares by substring, prefix, pattern or
# case-insensitively is indistinguishable from the exact comparison there.
LOOKALIKE_FIXED = ['nbdime-wrapper', 'my_nbdime', 'xnbdimex', 'nbdime2', 'NBDIME', 'Nbdime', 'nbdim', 'dime',
                   'nbdime.sh', '/opt/tools/nbdime', 'nbdime nbdime']
LOOKALIKE_SECTIONS = [
    ['diff.jupyternotebook2.command', 'my-nbdiff'], ['diff.jupyternotebook2.textconv', 'cat'],
    ['diff.jupyter.command', 'git-nbdiffdriver diff'],
    ['merge.jupyternotebook-old.driver', 'old-nbmerge %O %A %B'], ['merge.jupyternotebook-old.name', 'previous notebook merge driver'],
    ['merge.jupyter.driver', 'git-nbmergedriver merge %O %A %B %L %P'],
    ['difftool.nbdime2.cmd', 'nbdime2 "$LOCAL" "$REMOTE"'], ['difftool.nbdim.cmd', 'nbdim "$LOCAL" "$REMOTE"'],
    ['mergetool.nbdime-wrapper.cmd', 'nbdime-wrapper "$BASE" "$LOCAL" "$REMOTE" "$MERGED"'], ['mergetool.nbdime-wrapper.trustexitcode', 'true'],
    ['mergetool.my_nbdime.cmd', 'my_nbdime "$MERGED"'],
]

def lookalike_names(r, n):
    """the fixed look-alikes plus n drawn ones: 'nbdime' with something in front / behind / both, with letters in the
    other case, or a proper piece of it -- never 'nbdime' itself"""
    core_, alpha = 'nbdime', 'abcxyz0189'
    out = list(LOOKALIKE_FIXED)
    glue = ['', '-', '_', '.', '/']
    def word(): return ''.join(r.choice(alpha) for _ in range(r.choice([1, 2, 4])))
    while len(out) < len(LOOKALIKE_FIXED) + n:
        form = r.choice(['pre', 'post', 'both', 'case', 'piece'])
        if form == 'pre': s = word() + r.choice(glue) + core_
        elif form == 'post': s = core_ + r.choice(glue) + word()
        elif form == 'both': s = word() + r.choice(glue) + core_ + r.choice(glue) + word()
        elif form == 'case': s = ''.join(ch.upper() if r.random() < 0.5 else ch for ch in core_)
        else:
            i = r.randrange(0, len(core_) - 2); j = r.randrange(i + 3, len(core_) + 1); s = core_[i:j]
        if s != core_ and s not in out: out.append(s)
    return out

def lookalike_inits(r, n_drawn):
    """(init, name, scopes whose commands are of interest)"""
    out = []
    names = lookalike_names(r, n_drawn)
    atts = list(ATT_VARIANTS.items())
    off = r.randrange(15)
    def tool_cfg(mt, gt, pr):
        kv = []
        if mt is not None:
            kv.append(['merge.tool', mt])
            if mt == mt.lower(): kv.append(['mergetool.%s.cmd' % mt, '%s "$BASE" "$LOCAL" "$REMOTE" "$MERGED"' % mt])
        if gt is not None:
            kv.append(['diff.guitool', gt])
            if gt == gt.lower(): kv.append(['difftool.%s.cmd' % gt, '%s "$LOCAL" "$REMOTE"' % gt])
        if pr: kv += [['difftool.prompt', pr], ['mergetool.prompt', pr]]
        return kv
    for i, nm in enumerate(names):
        other = names[(i + 3) % len(names)]
        for j, sc in enumerate(SCOPES):
            osc = 'global' if sc == 'local' else 'local'
            an, at = atts[(i + j) % len(atts)]
            pr = (None, 'true', 'false')[(i + j) % 3]
            # the same look-alike as default of both tools / of one tool, the other tool pointing at nbdime or at another look-alike
            rot = [(nm, other), (nm, 'nbdime'), ('nbdime', nm), (nm, None), (None, nm)][(i + j + off) % 5]
            variants = [(nm, nm), rot] if i < len(LOOKALIKE_FIXED) else [rot]
            for mt, gt in variants:
                out.append(({'cfg': {sc: tool_cfg(mt, gt, pr), osc: []}, 'att': {sc: at, osc: None}, 'attrloc': 'xdg'},
                            'lookalike:%s:mt=%s:gt=%s:pr=%s:att=%s' % (sc, mt, gt, pr, an), [sc]))
    # look-alike in one scope, nbdime itself (or nothing but nbdime's own registration) in the other
    for i, nm in enumerate(names[:len(LOOKALIKE_FIXED)]):
        if (i + off) % 3: continue
        for sc in SCOPES:
            osc = 'global' if sc == 'local' else 'local'
            out.append(({'cfg': {sc: tool_cfg(nm, nm, None), osc: tool_cfg('nbdime', 'nbdime', 'false')}, 'att': {sc: None, osc: None}, 'attrloc': 'xdg'},
                        'lookalike-cross:%s=%s:%s=nbdime' % (sc, nm, osc), SCOPES))
    # foreign sections that resemble nbdime's own sections, next to nbdime's real ones
    drv = [['diff.jupyternotebook.command', 'git-nbdiffdriver diff'], ['merge.jupyternotebook.driver', 'git-nbmergedriver merge %O %A %B %L %P'],
           ['merge.jupyternotebook.name', 'jupyter notebook merge driver'], ['difftool.nbdime.cmd', 'git-nbdifftool diff "$LOCAL" "$REMOTE" "$BASE"'],
           ['mergetool.nbdime.cmd', 'git-nbmergetool merge "$BASE" "$LOCAL" "$REMOTE" "$MERGED"']]
    for sc in SCOPES:
        osc = 'global' if sc == 'local' else 'local'
        out.append(({'cfg': {sc: list(LOOKALIKE_SECTIONS), osc: []}, 'att': {sc: ATT_VARIANTS['unrelated'], osc: None}, 'attrloc': 'xdg'},
                    'lookalike-sections:%s' % sc, [sc]))
        out.append(({'cfg': {sc: LOOKALIKE_SECTIONS + drv + [['merge.tool', 'nbdime-wrapper'], ['diff.guitool', 'nbdime2']], osc: list(LOOKALIKE_SECTIONS)},
                     'att': {sc: ATT_VARIANTS['nbdime'], osc: None}, 'attrloc': 'xdg'}, 'lookalike-sections-with-own:%s' % sc, SCOPES))
    return out

# ---- kinds-of-checkout family: the same configurations and commands, run where git's own tooling puts `.git` as a FILE
# (linked worktree, --separate-git-dir checkout, submodule) and where cwd is no work tree at all (bare repository, plain
# directory).  Everything above runs in a `git init` directory, where "cwd/.git exists", "is a directory", "holds the config
# file" and "is the git dir" all coincide.
FOREIGN_CFG = [['merge.tool', 'meld'], ['diff.guitool', 'kdiff3'], ['mergetool.prompt', 'true'], ['difftool.prompt', 'true'],
               ['diff.other.command', 'otherdiff'], ['merge.conflictstyle', 'diff3'], ['mergetool.meld.trustexitcode', 'true']]
OWN_CFG = [['diff.jupyternotebook.command', 'git-nbdiffdriver diff'], ['merge.jupyternotebook.driver', 'git-nbmergedriver merge %O %A %B %L %P'],
           ['merge.jupyternotebook.name', 'jupyter notebook merge driver'], ['merge.tool', 'nbdime'], ['diff.guitool', 'nbdime'],
           ['difftool.prompt', 'false'], ['mergetool.prompt', 'false']]

def checkout_inits(r, n_drawn):
    """(init, name, scopes whose commands are run) for every kind of checkout other than the plain one"""
    def E(kind, l, g, al=None, ag=None):
        return {'cfg': {'local': [list(x) for x in l], 'global': [list(x) for x in g]}, 'att': {'local': al, 'global': ag}, 'attrloc': 'xdg', 'kind': kind}
    A = ATT_VARIANTS
    grid = grid_inits()
    out = []
    for kind in FILE_KINDS:
        out += [
            (E(kind, [], []), 'checkout:%s:local:empty' % kind, ['local']),
            (E(kind, FOREIGN_CFG, [], A['unrelated']), 'checkout:%s:local:foreign' % kind, ['local']),
            (E(kind, OWN_CFG, [], A['nbdime']), 'checkout:%s:local:own' % kind, ['local']),
            (E(kind, [], [], A['unrelated-noeol']), 'checkout:%s:local:noeol' % kind, ['local']),
            (E(kind, FOREIGN_CFG[:2], [], A['nbdime-diff-only']), 'checkout:%s:local:diff-only' % kind, ['local']),
            (E(kind, [], [], None, None), 'checkout:%s:global:empty' % kind, ['global']),
            (E(kind, [], FOREIGN_CFG, None, A['unrelated']), 'checkout:%s:global:foreign' % kind, ['global']),
            (E(kind, FOREIGN_CFG, OWN_CFG, A['unrelated'], A['nbdime']), 'checkout:%s:both' % kind, SCOPES),
        ]
        for _ in range(n_drawn):
            init, name, sc = r.choice(grid)
            out.append((dict(copy.deepcopy(init), kind=kind), 'checkout:%s:%s' % (kind, name), [sc]))
    for kind in NOTREE_KINDS:
        # a directory that is no repository has no repository configuration; a stray .gitattributes file may lie in either
        loc = FOREIGN_CFG if kind == 'bare' else []
        out += [
            (E(kind, [], []), 'checkout:%s:empty' % kind, SCOPES),
            (E(kind, loc, FOREIGN_CFG, A['unrelated'], A['unrelated']), 'checkout:%s:foreign' % kind, SCOPES),
            (E(kind, [], OWN_CFG, None, A['nbdime']), 'checkout:%s:global-own' % kind, SCOPES),
        ]
        if kind == 'bare':
            out.append((E(kind, OWN_CFG, FOREIGN_CFG[:2], None, A['unrelated-noeol']), 'checkout:bare:local-own', SCOPES))
        for _ in range(max(1, n_drawn // 2)):
            init, name, sc = r.choice([g for g in grid if g[2] == 'global'])
            out.append((dict(copy.deepcopy(init), kind=kind), 'checkout:%s:%s' % (kind, name), SCOPES))
    return out

def single_commands(scopes):
    out = []
    for sc in scopes:
        for t in ('diffdriver', 'mergedriver'):
            out += [cmd(t, True, sc), cmd(t, False, sc)]
        for t in ('difftool', 'mergetool'):
            out += [cmd(t, True, sc), cmd(t, True, sc, True), cmd(t, False, sc), cmd(t, False, sc, True)]
        out += [cmd('all', True, sc), cmd('all', False, sc)]
    return out

WITNESS_F10 = ({'cfg': {'local': [['merge.tool', 'meld']], 'global': []}, 'att': {'local': None, 'global': None}, 'attrloc': 'xdg'},
               [cmd('mergetool', False, 'local')])

def gen_cases(chk, tier):
    r = chk.rng
    cases = [mk_case(WITNESS_F10[0], WITNESS_F10[1], 'witness:F10')]
    cdir = os.path.join(core.VERIF, 'corpus', PROP)
    if os.path.isdir(cdir):
        for f in sorted(os.listdir(cdir)):
            c = json.load(open(os.path.join(cdir, f)))
            cases.append(mk_case(c['init'], c['cmds'], 'corpus:' + f))
    grid = grid_inits(); cross = cross_inits()
    allc = single_commands(SCOPES)
    # every grid configuration x every single command of the scope the settings live in
    for init, name, sc in grid:
        for c in single_commands([sc]):
            cases.append(mk_case(init, [c], 'grid-x-1'))
    # both-scope configurations x every command of either scope
    for init, name in cross:
        for c in allc:
            cases.append(mk_case(init, [c], 'cross-x-1'))
    if tier == 'quick':
        n2, n3, n4, nsub = 500, 500, 0, 24
        pairs = []
    else:
        n2, n3, n4, nsub = 0, 6000, 3000, 120
        # all ordered pairs of same-scope commands from a spread of grid configurations, all pairs of any scope from the cross ones
        sel = [g for i, g in enumerate(grid) if i % 9 == 0]
        pairs = [(init, [a, b], 'grid-x-2') for init, name, sc in sel for a in single_commands([sc]) for b in single_commands([sc])]
        pairs += [(init, [a, b], 'cross-x-2') for init, name in cross for a in allc for b in allc]
    for init, cs, src in pairs:
        cases.append(mk_case(init, cs, src))
    pool = [g[0] for g in grid] + [c[0] for c in cross] * 6
    for n, k in ((n2, 2), (n3, 3), (n4, 4)):
        for _ in range(n):
            init = r.choice(pool)
            cases.append(mk_case(init, [r.choice(allc) for _ in range(k)], 'random-x-%d' % k))
    # the same through the real command lines (python -m nbdime config-git ..., python -m nbdime.vcs.git.<tool> config ...)
    for _ in range(nsub):
        init = r.choice(pool)
        cases.append(mk_case(init, [r.choice(allc) for _ in range(r.choice([1, 2]))], 'cli-subprocess', mode='subproc'))
    # look-alike names (drawn after everything else, so that the cases above are the same as without this family)
    nd, nseq, nlsub = (4, 120, 6) if tier == 'quick' else (12, 1500, 30)
    look = lookalike_inits(r, nd)
    for init, name, scs in look:
        for c in single_commands(scs):
            if name.startswith('lookalike-sections') or c['tool'] not in DRIVER_ATTR:
                cases.append(mk_case(init, [c], 'lookalike-x-1'))
    lpool = [l[0] for l in look]
    toolc = [c for c in allc if c['tool'] not in DRIVER_ATTR]
    for _ in range(nseq):
        cases.append(mk_case(r.choice(lpool), [r.choice(toolc) for _ in range(r.choice([2, 3]))], 'lookalike-x-seq'))
    for _ in range(nlsub):
        cases.append(mk_case(r.choice(lpool), [r.choice(toolc) for _ in range(r.choice([1, 2]))], 'lookalike-cli-subprocess', mode='subproc'))
    # kinds of checkout (drawn after everything else, so that the cases above are the same as without this family)
    nd, nseq, nksub = (3, 100, 10) if tier == 'quick' else (12, 2000, 60)
    co = checkout_inits(r, nd)
    for init, name, scs in co:
        for c in single_commands(scs):
            cases.append(mk_case(init, [c], 'checkout-x-1'))
    kinds = FILE_KINDS + NOTREE_KINDS
    cpool = {k: [(i, scs) for i, n, scs in co if i['kind'] == k] for k in kinds}
    for j in range(nseq):
        init, scs = r.choice(cpool[kinds[j % len(kinds)]])
        cc = single_commands(scs if r.random() < 0.7 else SCOPES)
        cases.append(mk_case(init, [r.choice(cc) for _ in range(r.choice([2, 3]))], 'checkout-x-seq'))
    for j in range(nksub):
        init, scs = r.choice(cpool[kinds[j % len(kinds)]])
        cases.append(mk_case(init, [r.choice(single_commands(scs)) for _ in range(r.choice([1, 2]))], 'checkout-cli-subprocess', mode='subproc'))
    return cases

# ------------------------------------------------------------------ T1: the Coq model on the same transitions
class CoqWriter:
    def __init__(self):
        self.strs = {}; self.states = {}; self.lines = []
    def s(self, text):
        if text not in self.strs:
            name = 'k%d' % len(self.strs)
            if all(32 <= ord(ch) < 127 for ch in text):
                term = 'asc "%s"' % text.replace('"', '""')
            else:
                term = '[' + '; '.join('%d%%N' % ord(ch) for ch in text) + ']'
            self.lines.append('Definition %s : pystr := %s.' % (name, term))
            self.strs[text] = name
        return self.strs[text]
    def cfg(self, pairs):
        items = []
        for k, v in pairs:
            sec, var = split_key(k)
            items.append('((%s, %s), %s)' % (self.s(sec), self.s(var), self.s(v)))
        return '[' + '; '.join(items) + ']'
    def att(self, t):
        return 'None' if t is None else '(Some %s)' % self.s(t)
    def state(self, obs):
        key = json.dumps([obs['cfg']['local'], obs['cfg']['global'], obs['att']], sort_keys=True)
        if key not in self.states:
            name = 's%d' % len(self.states)
            term = 'mkState %s %s %s %s' % (self.cfg(obs['cfg']['local']), self.cfg(obs['cfg']['global']),
                                            self.att(obs['att']['local']), self.att(obs['att']['global']))
            self.lines.append('Definition %s : state := %s.' % (name, term))
            self.states[key] = name
        return self.states[key]

def coq_command(c):
    sc = 'Local' if c['scope'] == 'local' else 'Global'
    en = 'true' if c['enable'] else 'false'
    if c['tool'] == 'all': return '(All %s %s)' % (en, sc)
    return '(One %s %s %s %s)' % (COQ_TOOL[c['tool']], en, sc, 'true' if c.get('sd') else 'false')

def modelable(obs):
    for s in SCOPES:
        ks = [k for k, v in obs['cfg'][s]]
        if len(set(ks)) != len(ks): return False
        if any(k != k.lower() for k in ks): return False
    return not obs['cfg']['other']

def run_model_transitions(trans):
    """trans: list of (obs_before, cmd, ok, obs_after).  Returns (set of indices where the model disagrees, error text or None)"""
    w = CoqWriter(); rows = []
    for i, (B, c, ok, A) in enumerate(trans):
        rows.append('(%d%%N, (%s, %s, %s, %s))' % (i, w.state(B), coq_command(c), 'true' if ok else 'false', w.state(A)))
    src = ['From Coq Require Import String List NArith Bool.', 'From NB Require Import Base.Json.', 'From NB Require Import Sys.GitCfg.', 'Require Import GitCfgNow.',
           'Import ListNotations.', 'Local Open Scope string_scope.'] + w.lines
    chunks = [rows[i:i + 400] for i in range(0, len(rows), 400)]
    for j, ch in enumerate(chunks):
        src.append('Definition t%d : list (N * (state * command * bool * state)) := [\n %s].' % (j, ';\n '.join(ch)))
    src.append('Definition agrees (t : N * (state * command * bool * state)) : bool :=\n'
               "  let '(_, (s, c, ok, s')) := t in let o := run tbl c s in Bool.eqb (exit_ok o) ok && state_same (final o) s'.")
    src.append('Definition bad : list N := map fst (filter (fun t => negb (agrees t)) (%s)).' % ' ++ '.join('t%d' % j for j in range(len(chunks))) if chunks else 'Definition bad : list N := [].')
    src.append('Eval vm_compute in bad.')
    d = tempfile.mkdtemp(prefix='nbv_c18coq_')
    try:
        # the programs are translated afresh from $NBDIME_REPO into the scratch directory, so that the comparison never
        # runs against a Gen/GitCfg.vo that a concurrent build regenerated from another tree
        g = os.path.join(d, 'GitCfgNow.v')
        p = subprocess.run([os.path.join(core.VERIF, 'tools', 'gen', 'gen_gitcfg.py'), '--out', g], capture_output=True, text=True,
                           env=dict(os.environ, NBDIME_REPO=core.REPO))
        if p.returncode != 0:
            return None, 'translator: ' + (p.stderr + p.stdout)[-800:]
        p = subprocess.run(['timeout', '300', 'coqc', '-Q', core.COQ, 'NB', '-R', d, '', g], capture_output=True, text=True, cwd=d)
        if p.returncode != 0:
            return None, 'translated programs do not compile: ' + (p.stderr + p.stdout)[-800:]
        f = os.path.join(d, 'Cases.v'); open(f, 'w').write('\n'.join(src) + '\n')
        p = subprocess.run(['timeout', '900', 'coqc', '-Q', core.COQ, 'NB', '-R', d, '', f], capture_output=True, text=True, cwd=d)
        if p.returncode != 0:
            return None, (p.stderr + p.stdout)[-1500:]
        m = re.search(r'=\s*(\[.*?\])\s*:\s*list N', p.stdout, re.S)
        if not m: return None, 'unparsable coqc output: ' + p.stdout[-500:]
        return set(int(x) for x in re.findall(r'(\d+)%N', m.group(1))), None
    finally:
        shutil.rmtree(d, ignore_errors=True)

OWN_CHAIN = ['Base/Json.v', 'Sys/GitCfg.v', 'Gen/GitCfg.v', 'Sys/GitCfgProofs.v', 'Props/C18.v']

def build():
    """core.build() (all translators + nbmodel).  When a translator that C18 does not depend on fails closed, C18's own
    translator is run alone, under the same lock, so that another property's breakage is not reported against C18."""
    b = core.build()
    if not b.gen_error:
        return b
    import fcntl
    lock = open(os.path.join(core.VERIF, '.coq-build.lock'), 'w'); fcntl.flock(lock, fcntl.LOCK_EX)
    try:
        p = subprocess.run([os.path.join(core.VERIF, 'tools', 'gen', 'gen_gitcfg.py')], capture_output=True, text=True,
                           env=dict(os.environ, NBDIME_REPO=core.REPO))
        if p.returncode != 0:
            b.gen_error = (p.stderr + p.stdout)[-3000:]
        elif 'gen_gitcfg' not in b.gen_error:
            b.gen_error = None; b.ok = True
        return b
    finally:
        fcntl.flock(lock, fcntl.LOCK_UN); lock.close()

def gen_in_tree_is_current():
    d = tempfile.mkdtemp(prefix='nbv_c18gen_')
    try:
        g = os.path.join(d, 'G.v')
        p = subprocess.run([os.path.join(core.VERIF, 'tools', 'gen', 'gen_gitcfg.py'), '--out', g], capture_output=True, text=True,
                           env=dict(os.environ, NBDIME_REPO=core.REPO))
        if p.returncode != 0: return True      # the translator failing closed is reported by the build
        try:
            return open(g).read() == open(os.path.join(core.COQ, 'Gen', 'GitCfg.v')).read()
        except OSError:
            return False
    finally:
        shutil.rmtree(d, ignore_errors=True)

# ------------------------------------------------------------------ shrinking
def init_from_obs(obs, attrloc, kind='plain'):
    base = ('core.repositoryformatversion', 'core.filemode', 'core.bare', 'core.logallrefupdates', 'core.attributesfile')
    # what git itself writes into the configuration of a submodule / linked worktree
    own = (lambda k: False) if kind == 'plain' else (lambda k: k == 'core.worktree' or k.split('.')[0] in ('remote', 'branch', 'submodule', 'extensions'))
    init = {'cfg': {s: [[k, v] for k, v in obs['cfg'][s] if not (k in base) and not (s == 'local' and own(k))] for s in SCOPES},
            'att': dict(obs['att']), 'attrloc': attrloc}
    if kind != 'plain': init['kind'] = kind
    return init

def kinds_of(case, res):
    return [(k, i) for k, i, _ in judge_case(case, res)]

def minimise(case, res, kind, step):
    """smallest reproduction found: one command, from a configuration holding as little as possible"""
    attrloc = case['init'].get('attrloc', 'xdg')
    c = case['cmds'][step]
    start = step - 1 if (case.get('probe', {}).get(str(step)) and kind == 'enable-not-idempotent') else step
    init0 = init_from_obs(res['obs'][start], attrloc, kind_of(case))
    cands_cmd = ([cmd(t, c['enable'], c['scope'], c.get('sd')) for t in TOOLS] if c['tool'] == 'all' else []) + [c]
    def reproduces(cands):
        results = core.run_impl(cands, shards=4, script='c18_runner.py')
        for cand, rr in zip(cands, results):
            if 'err' not in rr and any(k == kind for k, _ in kinds_of(cand, rr)):
                return cand, rr
        return None, None
    best, bres = reproduces([mk_case(init0, [cc], 'shrink', case.get('mode', 'inproc')) for cc in cands_cmd])
    if best is None:
        return case, res, step
    # drop configuration entries / attributes one at a time while the same kind of violation still shows
    for _ in range(12):
        init = best['init']; cands = []
        for s in SCOPES:
            for j in range(len(init['cfg'][s])):
                ni = copy.deepcopy(init); del ni['cfg'][s][j]; cands.append(mk_case(ni, best['base_cmds'], 'shrink', best['mode']))
            if init['att'][s] is not None:
                ni = copy.deepcopy(init); ni['att'][s] = None; cands.append(mk_case(ni, best['base_cmds'], 'shrink', best['mode']))
        if init.get('attrloc') != 'xdg':
            ni = copy.deepcopy(init); ni['attrloc'] = 'xdg'; cands.append(mk_case(ni, best['base_cmds'], 'shrink', best['mode']))
        if kind_of(init) != 'plain':
            ni = copy.deepcopy(init); del ni['kind']; cands.append(mk_case(ni, best['base_cmds'], 'shrink', best['mode']))
        if not cands: break
        nb, nr = reproduces(cands)
        if nb is None: break
        best, bres = nb, nr
    st = [i for k, i in kinds_of(best, bres) if k == kind][0]
    return best, bres, st

def signature(kind, case, step):
    k = kind_of(case)
    return '%s:by=%s%s' % (kind, case['cmds'][step]['tool'], '' if k == 'plain' else ':in=' + k)

def public_case(case, step):
    return {'init': case['init'], 'cmds': case['base_cmds'], 'failing_step_of_expanded_sequence': step,
            'mode': case.get('mode', 'inproc'), 'command_lines': [cmd_str(c) for c in case['base_cmds']]}

# ------------------------------------------------------------------ the check
def run(tier, seed):
    chk = core.Check(PROP, tier, seed)
    b = build()
    for attempt in range(2):
        # another check running with a different $NBDIME_REPO may have regenerated Gen/GitCfg.v in between
        if gen_in_tree_is_current(): break
        b = build()
    else:
        if not gen_in_tree_is_current():
            chk.broken_obligation('gen-race', 'coq/Gen/GitCfg.v does not correspond to %s (concurrent build from another tree?)' % core.REPO)
    proofs_ok = chk.proof_obligations('Props/C18.v', b)
    if tier == 'thorough' and proofs_ok:
        p = subprocess.run(['timeout', '900', 'coqchk', '-silent', '-o', '-Q', core.COQ, 'NB', 'NB.Props.C18'], capture_output=True, text=True, cwd=core.COQ)
        if p.returncode != 0:
            chk.broken_obligation('coqchk', (p.stdout + p.stderr)[-800:])
        else:
            chk.cov['trusted_base'].append('coqchk -o NB.Props.C18: ok')
    cases = gen_cases(chk, tier)
    results = core.run_impl(cases, shards=14, script='c18_runner.py')
    # ---- T2
    found = {}         # kind -> (case, res, step, detail)
    nontrivial = set(); hist = {}; steps = 0; by_cmd = {}
    for case, res in zip(cases, results):
        hist[case['src']] = hist.get(case['src'], 0) + 1
        if 'err' in res:
            chk.broken_obligation('harness:runner', res); continue
        steps += len(case['cmds'])
        for c in case['base_cmds']:
            key = '%s:%s:%s' % (c['tool'], 'enable' if c['enable'] else 'disable', c['scope']); by_cmd[key] = by_cmd.get(key, 0) + 1
        if any(not same_state(res['obs'][i], res['obs'][i + 1]) for i in range(len(case['cmds']))):
            nontrivial.add(json.dumps([case['init'], case['base_cmds'], case['mode']], sort_keys=True))
        for kind, step, det in judge_case(case, res):
            k2 = (kind, case['cmds'][step]['tool'])
            if k2 not in found or len(case['cmds']) < len(found[k2][0]['cmds']):
                found[k2] = (case, res, step, det)
    reported = set()
    for (kind, _), (case, res, step, det) in sorted(found.items(), key=lambda x: x[0]):
        mc, mr, ms = minimise(case, res, kind, step)
        sig = signature(kind, mc, ms)
        if sig in reported: continue
        reported.add(sig)
        det2 = [d for k, i, d in judge_case(mc, mr) if k == kind and i == ms]
        chk.violation(sig, public_case(mc, ms), {'violated': kind, 'at': cmd_str(mc['cmds'][ms]), 'observed': det2[0] if det2 else det,
                                                 'before': strip_obs(mr['obs'][ms]), 'after': strip_obs(mr['obs'][ms + 1])})
    # the witness of the refutation theorem must still fail on the implementation
    props_src = open(os.path.join(core.COQ, 'Props', 'C18.v')).read()
    props_src = re.sub(r'\(\*.*?\*\)', '', props_src, flags=re.S)
    if 'mergetool_disable_alters_foreign_refuted' in props_src and 'err' not in results[0]:
        if not any(k == 'disable-alters-foreign:merge.tool' for k, _ in kinds_of(cases[0], results[0])):
            chk.broken_obligation('stale-refutation', 'Props/C18.v refutes foreign-preservation for merge.tool but the implementation no longer fails on the witness '
                                  '(merge.tool=meld, git-nbmergetool config --disable): swap BLOCK F10 of Props/C18.v')
    # ---- T1
    trans = []; owner = []; index = {}
    unmodelable = 0; outside_space = 0
    for ci, (case, res) in enumerate(zip(cases, results)):
        if 'err' in res: continue
        for i, c in enumerate(case['cmds']):
            B, A = res['obs'][i], res['obs'][i + 1]
            if not in_space(c, kind_of(case)):
                # the model states git's behaviour INSIDE a repository with the attributes file at cwd; these are judged by T2 only
                outside_space += 1; continue
            if not (modelable(B) and modelable(A)):
                unmodelable += 1; continue
            key = json.dumps([B['cfg'], B['att'], c, res['status'][i] == 'ok', A['cfg'], A['att']], sort_keys=True)
            if key not in index:
                index[key] = len(trans); trans.append((B, c, res['status'][i] == 'ok', A))
            owner.append((ci, i, index[key]))
    bad, err = (set(), None)
    if trans:
        bad, err = run_model_transitions(trans)
    validated = 0
    if err is not None:
        chk.broken_obligation('correspondence:model-run', err)
    else:
        badcases = {}
        for ci, i, ti in owner:
            if ti in bad: badcases.setdefault(ci, i)
        validated = len([1 for ci, res in enumerate(results) if 'err' not in res and ci not in badcases])
        for ci in sorted(badcases, key=lambda x: len(cases[x]['cmds']))[:3]:
            i = badcases[ci]
            chk.broken_obligation('correspondence:gitcfg', {'init': cases[ci]['init'], 'cmds': [cmd_str(c) for c in cases[ci]['cmds']], 'step': i,
                                                            'before': strip_obs(results[ci]['obs'][i]), 'impl_after': strip_obs(results[ci]['obs'][i + 1]),
                                                            'impl_status': results[ci]['status'][i]})
    if outside_space:
        chk.notes.append('%d executions of repository-scope commands in a bare repository / outside any repository were judged on what real git reports only '
                         '(nothing foreign touched), not compared with the model' % outside_space)
    if unmodelable:
        chk.notes.append('%d transitions outside the model (multi-valued or upper-case keys, unknown config source) were not compared' % unmodelable)
    chk.cov.update({
        'evaluations': len(cases), 'distinct_nontrivial': len(nontrivial),
        'rule': 'a case = initial configuration (grid: merge.tool and diff.guitool unset/nbdime/other, prompts unset/true/false, attributes absent/unrelated/unrelated '
                'without final newline/nbdime lines/diff line only, repository or global scope; plus both-scope and other-attributes-location configurations; '
                'plus look-alike configurations: merge.tool / diff.guitool naming ANOTHER tool whose name resembles nbdime (nbdime-wrapper, my_nbdime, NBDIME, nbdim, drawn prefix/suffix/case/piece variants), '
                'in one scope or against nbdime in the other scope, and foreign sections resembling nbdime\'s own (diff.jupyternotebook2, mergetool.nbdime-wrapper, ...); '
                'plus kinds of checkout: the same configurations (fixed empty / foreign / nbdime\'s own / unterminated-attributes ones and drawn grid ones) with the commands run in a linked worktree (git worktree add), '
                'a --separate-git-dir checkout and a submodule -- `.git` is a FILE there and the repository configuration lives elsewhere; model and implementation are compared as for a plain repository -- '
                'and in a bare repository and a directory that is no repository: there global-scope commands are judged in full (routing observed from an untouched probe repository) and compared with the model, '
                'repository-scope commands only on "changes nothing outside their own footprint" (exit status, attributes line and routing are not required, the model is not consulted)) '
                'x a sequence of 1-%d commands of {per driver/tool, config-git} x {enable, disable} x {repo, --global} x {--set-default}, every enable followed by its repetition; '
                'run through nbdime\'s real main() against real git in a sandbox.  Non-trivial = some command of the sequence changed what git reports; distinct by (configuration, sequence, mode).' % (3 if tier == 'quick' else 4),
        'input_distribution': hist, 'commands_by_kind': by_cmd, 'command_executions': steps,
        'traces_validated_against_impl': validated, 'distinct_transitions_checked_in_coq': len(trans), 'model_impl_mismatching_transitions': len(bad or []),
        'exhaustive': False,
        'exhaustive_part': 'all single commands from every grid configuration' + ('' if tier == 'quick' else '; all ordered pairs of commands from 30 grid and all both-scope configurations'),
    })
    for case in (cases[0], cases[len(cases) // 3], cases[-1]):
        chk.sample({'init': case['init'], 'commands': [cmd_str(c) for c in case['base_cmds']], 'mode': case['mode']})
    return chk.finish('proof', ASSUME)

def replay(path):
    body = json.load(open(path))
    if body.get('kind') != 'failing-input':
        print(json.dumps(body, indent=1)[:3000]); print('not a failing-input replay: re-run bin/check %s' % PROP); return 1
    pc = body['case']
    case = mk_case(pc['init'], pc['cmds'], 'replay', pc.get('mode', 'inproc'))
    res = core.run_impl([case], script='c18_runner.py')[0]
    v = judge_case(case, res)
    out = [{'violated': k, 'signature': signature(k, case, i), 'at': cmd_str(case['cmds'][i]), 'observed': d} for k, i, d in v]
    print(json.dumps({'commands': pc.get('command_lines'), 'violations': out}, indent=1, default=str)[:4000])
    if v:
        print('VIOLATION property=%s replay=%s' % (PROP, path)); return 1
    return 0
