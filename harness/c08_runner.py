"""C08 runner: executes ONE real nbdime entry point (nbmerge / git-nbmergedriver) in this fresh interpreter,
with observation + fault-injection hooks installed from outside (nothing in /repo is edited).

    /venv/bin/python c08_runner.py <spec.json>                       one run in this fresh interpreter
    /venv/bin/python c08_runner.py --serve <specs.json> <results.json>   many runs: nbdime is imported once, then every
        run is a fork()ed child process that installs its hooks, runs the entry point and ends through the interpreter's
        own top level (no frame of this file catches anything), so its exit status is a real process status; the parent
        only waitpid()s.  spec gains "cwd", "env", "stdout", "stderr" (files the child's fd 1 / 2 are redirected to).

spec = {"entry": "nbmerge"|"driver", "argv": [...], "roles": {abs path: "base"|"local"|"remote"|"out"},
        "trace": <file the event lines are appended to with os.write, survives SIGKILL>,
        "fault": null | {"k": <1-based index of the boundary at which it fires>,
                         "kind": "OSError"|"MemoryError"|"KeyboardInterrupt"|"SIGKILL",
                         "partial": bool  (at a write boundary: hand a strict prefix of the chunk to the OS first)}}

Boundaries (events), each recorded BEFORE the real operation is performed:
  openr <role>   builtins.open / io.open of an input path for reading (pathlib.Path.open goes through io.open)
  openw <role>   ... of a designated path for writing (w/a/x/+): the returned file is proxied ->
  write <role>   each .write() on it (flushed at once so that the bytes on disk are a function of the events)
  close <role>   its close / context exit
  remove <role>  os.remove / os.unlink of a designated path
  diff, decide, apply   nbdime.merging.notebooks.{diff_notebooks, decide_merge_with_diff, apply_decisions}
  serialise      nbformat.writes
The process then ends exactly as the console-script shim ends it: sys.exit(main(argv)); exceptions are NOT caught
here, so the exit status is CPython's own (uncaught exception -> 1, KeyboardInterrupt -> SIGINT, kill -> SIGKILL).
This file imports nothing from the harness."""
import sys, os, json, io, builtins, signal

spec = None
ROLES = {}
FAULT = None
_tfd = -1
_count = [0]
_real_open = builtins.open
_real_remove = os.remove
_real_unlink = os.unlink


def setup(sp):
    global spec, ROLES, FAULT, _tfd
    spec = sp
    ROLES = {os.path.abspath(p): r for p, r in spec['roles'].items()}
    FAULT = spec.get('fault')
    _tfd = os.open(spec['trace'], os.O_WRONLY | os.O_APPEND | os.O_CREAT, 0o644)


def _fire(kind):
    if kind == 'SIGKILL':
        os.kill(os.getpid(), signal.SIGKILL)
        while True:
            signal.pause()
    if kind == 'KeyboardInterrupt':
        # what Ctrl-C does: SIGINT -> CPython's handler -> KeyboardInterrupt in the main thread
        signal.raise_signal(signal.SIGINT)
        for _ in range(1000):
            pass
        raise KeyboardInterrupt()
    if kind == 'OSError':
        raise OSError(5, 'Input/output error (injected)')
    if kind == 'MemoryError':
        raise MemoryError('injected')
    raise RuntimeError('unknown fault kind %r' % (kind,))


def boundary(name, role=None, partial_action=None):
    """Record the event; fire the fault if this is its boundary."""
    _count[0] += 1
    k = _count[0]
    os.write(_tfd, (json.dumps([k, name, role]) + '\n').encode())
    if FAULT and FAULT['k'] == k:
        if FAULT.get('partial') and partial_action is not None:
            partial_action()
        os.write(_tfd, (json.dumps([k, 'FAULT', FAULT['kind']]) + '\n').encode())
        _fire(FAULT['kind'])


def _role_of(f):
    try:
        p = os.fspath(f)
    except TypeError:
        return None
    if isinstance(p, bytes):
        p = os.fsdecode(p)
    return ROLES.get(os.path.abspath(p))


class FileProxy(object):
    def __init__(self, real, role):
        object.__setattr__(self, '_real', real)
        object.__setattr__(self, '_role', role)
        object.__setattr__(self, '_closed_once', False)

    def write(self, data):
        real = self._real

        def part():
            n = len(data) // 2
            if n:
                real.write(data[:n]); real.flush()
        boundary('write', self._role, part)
        r = real.write(data)
        real.flush()
        return r

    def writelines(self, lines):
        for ln in lines:
            self.write(ln)

    def close(self):
        if not self._closed_once:
            object.__setattr__(self, '_closed_once', True)
            boundary('close', self._role)
        return self._real.close()

    def __enter__(self):
        self._real.__enter__()
        return self

    def __exit__(self, *a):
        self.close()
        return False

    def __iter__(self):
        return iter(self._real)

    def __getattr__(self, name):
        return getattr(self._real, name)


def hooked_open(file, mode='r', *a, **kw):
    role = _role_of(file) if not isinstance(file, int) else None
    if role is None:
        return _real_open(file, mode, *a, **kw)
    writing = any(c in mode for c in 'wax+')
    boundary('openw' if writing else 'openr', role)
    f = _real_open(file, mode, *a, **kw)
    if writing:
        return FileProxy(f, role)
    return f


def hooked_remove(path, *a, **kw):
    role = _role_of(path)
    if os.path.abspath(os.fspath(path)) == os.path.abspath(os.devnull):
        # never let a test run delete the system's null device (the harness may run as root)
        boundary('remove', 'devnull')
        raise PermissionError(1, 'refusing to remove the null device (harness guard)')
    if role is not None:
        boundary('remove', role)
    return _real_remove(path, *a, **kw)


def fn_hook(mod, attr, name):
    orig = getattr(mod, attr)          # AttributeError here = hook target gone: fail closed (exit 97)

    def wrapper(*a, **kw):
        boundary(name)
        return orig(*a, **kw)
    wrapper.__wrapped__ = orig
    wrapper.__name__ = getattr(orig, '__name__', attr)
    setattr(mod, attr, wrapper)


def install(entry_name):
    try:
        import nbformat
        import nbdime.merging.notebooks as MN
        if entry_name == 'driver':
            import nbdime.vcs.git.mergedriver as ENTRY
        else:
            import nbdime.nbmergeapp as ENTRY
        fn_hook(MN, 'diff_notebooks', 'diff')
        fn_hook(MN, 'decide_merge_with_diff', 'decide')
        fn_hook(MN, 'apply_decisions', 'apply')
        fn_hook(nbformat, 'writes', 'serialise')
        main = ENTRY.main
    except Exception as e:   # the harness cannot observe this entry point any more
        sys.stderr.write('C08-HOOK-FAILURE %s: %s\n' % (type(e).__name__, e))
        sys.stderr.flush()
        os._exit(97)
    builtins.open = hooked_open
    io.open = hooked_open
    os.remove = hooked_remove
    os.unlink = hooked_remove
    os.write(_tfd, b'[0, "START", null]\n')
    return main


def serve(specs_file, results_file):
    specs = json.load(_real_open(specs_file))
    try:
        import nbformat, nbdime.nbmergeapp, nbdime.vcs.git.mergedriver, nbdime.merging.notebooks   # warm the imports
    except Exception as e:
        sys.stderr.write('C08-HOOK-FAILURE %s: %s\n' % (type(e).__name__, e))
        os._exit(97)
    results = []
    i = 0
    while i < len(specs):
        sp = specs[i]
        i += 1
        sys.stdout.flush(); sys.stderr.flush()
        pid = os.fork()
        if pid == 0:
            # ---- child: from here on nothing is caught; the process ends the way CPython ends it
            os.chdir(sp['cwd'])
            os.environ.clear(); os.environ.update(sp['env'])
            fo = os.open(sp['stdout'], os.O_WRONLY | os.O_CREAT | os.O_TRUNC, 0o644); os.dup2(fo, 1); os.close(fo)
            fe = os.open(sp['stderr'], os.O_WRONLY | os.O_CREAT | os.O_TRUNC, 0o644); os.dup2(fe, 2); os.close(fe)
            setup(sp)
            sys.exit(install(sp['entry'])(sp['argv']))
        _, st = os.waitpid(pid, 0)
        results.append(-os.WTERMSIG(st) if os.WIFSIGNALED(st) else os.WEXITSTATUS(st))
    json.dump(results, _real_open(results_file, 'w'))


if __name__ == '__main__':
    if sys.argv[1] == '--serve':
        serve(sys.argv[2], sys.argv[3])
    else:
        setup(json.load(open(sys.argv[1])))
        # the console-script shim:  sys.exit(main())
        sys.exit(install(spec['entry'])(spec['argv']))
