"""Correspondence of the Coq schema validator (Schema/Schema.v + Gen/NbSchemas.v) with jsonschema.Draft4Validator on
the same schema files: generated valid documents (notebooks, cells, outputs, diffs, decision lists) and invalid ones
obtained from them by structural mutations, plus the regex matchers against Python's re.search.
Shared by the C04 and C09 checks.  No nbdime import."""
import os, re, json, copy, importlib.util
import genjson, gennb, c04_coq

REGEXES = {'PAny': '.*', 'PLine': '^.*$', 'PNonEmptyLine': '^.+$', 'PNoComma': '^[^,]+$',
           'PCellId': '^[a-zA-Z0-9-_]+$', 'PJsonMime': '^application/(.*\\+)?json$'}


def nbformat_schema(k):
    spec = importlib.util.find_spec('nbformat')
    d = os.path.join(list(spec.submodule_search_locations)[0], 'v4')
    return json.load(open(os.path.join(d, 'nbformat.v4.%d.schema.json' % k), encoding='utf-8'))


class Ref:
    """jsonschema reference validators for the schema keys understood by c04_coq.schema_expr"""
    def __init__(self, repo):
        import jsonschema
        from referencing import Registry, Resource
        from referencing.jsonschema import DRAFT4
        self.js = jsonschema
        self.nb = [nbformat_schema(k) for k in range(6)]
        self.diff = json.load(open(os.path.join(repo, 'nbdime', 'diff_format.schema.json'), encoding='utf-8'))
        self.merge = json.load(open(os.path.join(repo, 'nbdime', 'merge_format.schema.json'), encoding='utf-8'))
        self.reg = Registry().with_resources([
            ('diff_format.schema.json', Resource(contents=self.diff, specification=DRAFT4)),
            ('merge_format.schema.json', Resource(contents=self.merge, specification=DRAFT4))])
        self.cache = {}

    def validator(self, key):
        if key in self.cache: return self.cache[key]
        V = self.js.Draft4Validator
        if key.startswith('nb'):
            k = int(key[2]); rest = key[3:]
            s = self.nb[k] if not rest else {'$ref': '#' + rest[1:], 'definitions': self.nb[k]['definitions']}
            v = V(s)
        elif key.startswith('merge'):
            rest = key[5:]
            s = self.merge if not rest else {'$ref': 'merge_format.schema.json#' + rest[1:]}
            v = V(s, registry=self.reg)
        elif key.startswith('diff'):
            rest = key[4:]
            s = self.diff if not rest else {'$ref': 'diff_format.schema.json#' + rest[1:]}
            v = V(s, registry=self.reg)
        else:
            raise ValueError(key)
        self.cache[key] = v
        return v

    def is_valid(self, key, doc):
        return self.validator(key).is_valid(doc)

    def errors(self, key, doc, limit=3):
        out = []
        for e in self.validator(key).iter_errors(doc):
            out.append('/'.join(str(p) for p in e.absolute_path) + ': ' + e.message[:160])
            if len(out) >= limit: break
        return out


# ---------------------------------------------------------------- document generators
def paths(v, p=()):
    yield p
    if isinstance(v, dict):
        for k in v: yield from paths(v[k], p + (k,))
    elif isinstance(v, list):
        for i, x in enumerate(v): yield from paths(x, p + (i,))


def get(v, p):
    for k in p: v = v[k]
    return v


def setp(v, p, x):
    if not p: return x
    get(v, p[:-1])[p[-1]] = x
    return v


OTHER = [None, True, False, 0, 1, -1, 5, 1.0, 4.0, 0.5, -0.0, '', 'a', 'a\n', 'a\nb', 'a,b', 'markdown', 'code', 'stream',
         'auto', [], ['a'], ['a', 'a'], [1], [True, 1], [1, 1.0], {}, {'a': 1}, {'text/plain': 'x'}, {'application/json': {'a': [1]}}]
KEYS = ['zzz', 'id', 'cell_type', 'metadata', 'source', 'outputs', 'execution_count', 'attachments', 'name', 'tags', 'data',
        'text', 'op', 'key', 'value', 'valuelist', 'length', 'diff', 'action', 'conflict', 'local_diff', 'common_path',
        'application/json', 'application/x+json', 'application/x+json\n', 'application/\n+json', 'text/plain', 'a\nb', 'jupyter',
        'execution', 'collapsed', 'scrolled', 'format', 'kernelspec', 'language_info', 'orig_nbformat', 'authors', 'title']


def mutate(r, doc):
    """one structural mutation somewhere in a deep copy of doc"""
    doc = copy.deepcopy(doc)
    ps = list(paths(doc))
    for _ in range(20):
        p = r.choice(ps); v = get(doc, p); c = r.random()
        if c < 0.3:
            return setp(doc, p, copy.deepcopy(r.choice(OTHER)))
        if c < 0.45 and isinstance(v, dict) and v:
            del v[r.choice(sorted(v))]; return doc
        if c < 0.6 and isinstance(v, dict):
            v[r.choice(KEYS)] = copy.deepcopy(r.choice(OTHER)); return doc
        if c < 0.7 and isinstance(v, str):
            return setp(doc, p, r.choice([v + '\n', v + ',', '', v + '\n\n', v + ' ', 'x' * 65, 'x' * 64, v + chr(0xe9), '\n', ',']))
        if c < 0.8 and isinstance(v, list) and v:
            v.insert(r.randint(0, len(v)), copy.deepcopy(r.choice(v))); return doc
        if c < 0.85 and isinstance(v, list):
            v.append(copy.deepcopy(r.choice(OTHER))); return doc
        if c < 0.95 and isinstance(v, int) and not isinstance(v, bool):
            return setp(doc, p, r.choice([v - 1, -v, float(v), v + 0.5, v + 1, bool(v), -1, 3, 4, 5, 6]))
        if c < 1.0 and isinstance(v, bool):
            return setp(doc, p, r.choice([int(v), 'auto', 'true', None]))
    return doc


def gen_diff_entry(r, depth=2):
    op = r.choice(['add', 'remove', 'replace', 'addrange', 'removerange', 'patch'])
    seq = r.random() < 0.5
    key = r.randint(0, 5) if (seq or op in ('addrange', 'removerange')) else r.choice(['a', 'cells', 'source', 'metadata', 'x/y'])
    e = {'op': op, 'key': key}
    if op in ('add', 'replace'): e['value'] = genjson.gen_value(r, 1)
    elif op == 'addrange': e['valuelist'] = r.choice([['a\n', 'b'], 'abc', [genjson.gen_value(r, 1)], []])
    elif op == 'removerange': e['length'] = r.randint(0, 4)
    elif op == 'patch': e['diff'] = [gen_diff_entry(r, depth - 1) for _ in range(r.choice([0, 1, 2]))] if depth > 0 else []
    return e


def gen_decision(r):
    d = {}
    for k in ('local_diff', 'remote_diff', 'custom_diff', 'similar_insert'):
        c = r.random()
        if c < 0.5: d[k] = [gen_diff_entry(r) for _ in range(r.choice([0, 1, 2]))]
        elif c < 0.65: d[k] = None
    if r.random() < 0.9: d['conflict'] = r.choice([True, False])
    if r.random() < 0.95:
        d['action'] = r.choice(['local', 'remote', 'base', 'clear', 'clear_all', 'remove', 'either', 'local_then_remote',
                                'remote_then_local', 'custom', 'take_max', 'Local', ''])
    if r.random() < 0.9: d['common_path'] = [r.choice(['cells', 'metadata', 0, 3, 'source', 'outputs']) for _ in range(r.randint(0, 4))]
    return d


def gen_documents(r, n):
    """-> [(schema key, document, kind)]"""
    out = []
    while len(out) < n:
        c = r.random()
        if c < 0.40:
            minor = r.choice([0, 1, 2, 3, 4, 4, 5, 5, 5])
            nb = gennb.gen_notebook(r, minor=minor, ncells=r.choice([0, 1, 2, 3]))
            k = r.choice([minor, minor, minor, r.randint(0, 5)])     # also judge against another minor's schema
            sub = r.random()
            if sub < 0.35 or not nb['cells']:
                out.append(('nb%d' % k, nb, 'notebook'))
                for _ in range(3): out.append(('nb%d' % k, mutate(r, nb), 'notebook-mutant'))
            else:
                cell = r.choice(nb['cells'])
                key = 'nb%d:/definitions/%s' % (k, r.choice(['cell', 'cell', cell['cell_type'] + '_cell', 'unrecognized_cell']))
                out.append((key, cell, 'cell'))
                for _ in range(4): out.append((key, mutate(r, cell), 'cell-mutant'))
                if cell.get('outputs'):
                    o = r.choice(cell['outputs'])
                    key = 'nb%d:/definitions/%s' % (k, r.choice(['output', 'output', o['output_type'], 'unrecognized_output', 'misc/mimebundle']))
                    out.append((key, o, 'output'))
                    for _ in range(4): out.append((key, mutate(r, o), 'output-mutant'))
                md = cell['metadata']
                if md:
                    for key in ('nb%d:/definitions/misc/metadata_tags' % k, 'nb%d:/definitions/misc/metadata_name' % k):
                        out.append((key, md.get('tags', ['a', 'b']), 'tags'))
                        out.append((key, mutate(r, md.get('tags', ['a', 'b'])), 'tags-mutant'))
        elif c < 0.6:
            d = [gen_diff_entry(r) for _ in range(r.choice([0, 1, 2, 3]))]
            key = r.choice(['diff', 'diff:/definitions/diff', 'merge:/definitions/decision'])
            doc = d if key == 'diff' else (d[0] if d else None)
            out.append((key, doc, 'diff'))
            for _ in range(3): out.append((key, mutate(r, doc), 'diff-mutant'))
        elif c < 0.9:
            ds = [gen_decision(r) for _ in range(r.choice([0, 1, 2, 3]))]
            out.append(('merge', ds, 'decisions'))
            for _ in range(3): out.append(('merge', mutate(r, ds), 'decisions-mutant'))
        else:
            key = r.choice(['nb%d' % r.randint(0, 5), 'nb5:/definitions/cell', 'nb4:/definitions/output', 'merge', 'diff',
                            'nb5:/definitions/cell_id', 'nb3:/definitions/misc/mimebundle', 'nb4:/definitions/misc/attachments'])
            out.append((key, genjson.gen_value(r, r.choice([0, 1, 2])), 'random-json'))
    return out[:n]


def pattern_cases(r, n):
    alphabet = ['a', 'Z', '0', '-', '_', ',', '\n', '+', ' ', '/', chr(0xe9), '\r', 'json', 'application/', 'application/json', '.']
    out = []
    for p in REGEXES:
        for s in ['', '\n', 'a', 'a\n', 'a\n\n', '\na', 'a\nb', 'application/json', 'application/json\n', 'application/x+json',
                  'application/+json', 'application/x\n+json', 'application/jsonjson', 'xapplication/json', 'application/x+json\n',
                  'application/x+jsonx', ',', 'a,b', 'a-b_c', 'a b']:
            out.append((p, s))
    while len(out) < n:
        out.append((r.choice(sorted(REGEXES)), ''.join(r.choice(alphabet) for _ in range(r.randint(0, 5)))))
    return out[:n]


def run(chk, repo, ndocs, npat):
    """Runs the correspondence; reports broken obligations on chk; returns summary dict."""
    ref = Ref(repo)
    r = chk.rng
    docs = gen_documents(r, ndocs)
    try:
        coq = c04_coq.coq_validate([(k, d) for k, d, _ in docs])
    except RuntimeError as e:
        chk.broken_obligation('correspondence:validator-run', str(e)[-800:])
        return {'validator_cases': 0, 'validator_mismatches': 0, 'pattern_cases': 0}
    mism = 0; nvalid = 0; hist = {}
    for (k, d, kind), cv in zip(docs, coq):
        pv = ref.is_valid(k, d)
        hist[kind] = hist.get(kind, 0) + 1
        nvalid += 1 if pv else 0
        if cv is not pv:
            mism += 1
            if mism <= 3:
                chk.broken_obligation('correspondence:validator', {'schema': k, 'document': d, 'jsonschema': pv, 'coq': cv,
                                                                     'errors': ref.errors(k, d)})
    pats = pattern_cases(r, npat)
    pm = 0
    try:
        cres = c04_coq.coq_pat_match(pats)
        for (p, s), c in zip(pats, cres):
            py = re.search(REGEXES[p], s) is not None
            if py != c:
                pm += 1
                if pm <= 3: chk.broken_obligation('correspondence:regex', {'pattern': REGEXES[p], 'string': s, 're.search': py, 'coq': c})
    except RuntimeError as e:
        chk.broken_obligation('correspondence:regex-run', str(e)[-800:])
    return {'validator_cases': len(docs), 'validator_valid_docs': nvalid, 'validator_mismatches': mism,
            'validator_case_kinds': hist, 'pattern_cases': len(pats), 'pattern_mismatches': pm}
