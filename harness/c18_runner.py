"""C18 implementation runner -- executed INSIDE /venv/bin/python with PYTHONPATH=$NBDIME_REPO (core.run_impl).

usage: c18_runner.py tasks.json results.json
Each task: {'init': INIT, 'cmds': [CMD...], 'mode': 'inproc'|'subproc'}
  INIT = {'cfg': {'local': [[key, value]...], 'global': [[key, value]...]},
          'att': {'local': text|None, 'global': text|None}, 'attrloc': 'xdg'|'home'|'custom',
          'kind': 'plain'|'worktree'|'separate'|'submodule'|'bare'|'norepo'   (optional, default 'plain')}
  kind = the kind of checkout the commands are run in (cwd): a `git init` repository; a linked worktree (`git worktree add`);
  a `git init --separate-git-dir` checkout; a submodule of a superproject (in these three `.git` is a FILE "gitdir: ...");
  a bare repository (cwd = the git dir itself); a directory that is no repository at all.  In the last two there is no work
  tree at cwd, so `git check-attr` / `git diff` are observed from an untouched probe repository (what the GLOBAL settings do).
  CMD  = {'tool': 'diffdriver'|'mergedriver'|'difftool'|'mergetool'|'all', 'enable': bool, 'scope': 'local'|'global', 'sd': bool}
Result: {'obs': [OBS0, OBS1, ...], 'status': [st1, ...]}  (OBS0 = the initial state as real git reports it)

The runner contains no property logic: it builds a sandbox (HOME, XDG_CONFIG_HOME, a fresh repository, fake driver
executables on PATH), runs nbdime's REAL entry points (main(args) of the four modules / main_dispatch of
nbdime.__main__, or the same through `python -m ...` in 'subproc' mode) and reports what real git then says:
`git config --list --show-origin -z`, the bytes of the attributes files, `git check-attr diff merge -- x.ipynb`,
whether `git diff` on a modified notebook reaches the diff driver, and a snapshot of every file of the sandbox."""
import sys, os, json, subprocess, tempfile, shutil, hashlib, importlib, io

MODS = {'diffdriver': 'nbdime.vcs.git.diffdriver', 'mergedriver': 'nbdime.vcs.git.mergedriver',
        'difftool': 'nbdime.vcs.git.difftool', 'mergetool': 'nbdime.vcs.git.mergetool'}
MARK = 'C18-ROUTED-TO-NBDIME-DIFFDRIVER'
ENV_DROP = ['GIT_CONFIG_GLOBAL', 'GIT_CONFIG_SYSTEM', 'GIT_DIR', 'GIT_WORK_TREE', 'GIT_CONFIG', 'GIT_CONFIG_COUNT',
            'GIT_ATTR_NOSYSTEM', 'GIT_EXTERNAL_DIFF', 'GIT_DIFF_OPTS', 'GIT_EDITOR', 'GIT_CONFIG_PARAMETERS']

STUBS = {
 'jinja2/__init__.py': "class Environment:\n    def __init__(self, *a, **k): pass\nclass FileSystemLoader:\n    def __init__(self, *a, **k): pass\n",
 'jupyter_server/__init__.py': "",
 'jupyter_server/base/__init__.py': "",
 'jupyter_server/base/handlers.py': "import tornado.web\nclass JupyterHandler(tornado.web.RequestHandler):\n    pass\nclass APIHandler(JupyterHandler):\n    pass\n",
 'jupyter_server/utils.py': "def url_path_join(*p):\n    return '/'.join(s.strip('/') for s in p)\n",
 'jupyter_server/log.py': "def log_request(handler):\n    pass\n",
}

class Sandbox:
    def __init__(self):
        self.base = tempfile.mkdtemp(prefix='nbv_c18_')
        b = self.base
        self.home = os.path.join(b, 'home'); self.xdg = os.path.join(b, 'xdg'); self.repo = os.path.join(b, 'repo')
        self.bin = os.path.join(b, 'bin'); self.custom = os.path.join(b, 'custom', 'attrs'); self.stubs = os.path.join(b, 'stubs')
        for d in (self.home, self.xdg, self.repo, self.bin, os.path.join(b, 'jupyter'), self.stubs):
            os.makedirs(d)
        for k in ENV_DROP:
            os.environ.pop(k, None)
        os.environ.update({'HOME': self.home, 'XDG_CONFIG_HOME': self.xdg, 'GIT_CONFIG_NOSYSTEM': '1',
                           'GIT_CEILING_DIRECTORIES': b, 'PATH': self.bin + os.pathsep + os.environ.get('PATH', ''),
                           'JUPYTER_CONFIG_DIR': os.path.join(b, 'jupyter'), 'JUPYTER_DATA_DIR': os.path.join(b, 'jupyter'),
                           'JUPYTER_CONFIG_PATH': os.path.join(b, 'jupyter'), 'JUPYTER_PATH': os.path.join(b, 'jupyter'),
                           'JUPYTER_RUNTIME_DIR': os.path.join(b, 'jupyter'), 'GIT_TERMINAL_PROMPT': '0', 'LC_ALL': 'C'})
        for name in ('git-nbdiffdriver', 'git-nbmergedriver', 'git-nbdifftool', 'git-nbmergetool'):
            p = os.path.join(self.bin, name)
            with open(p, 'w') as f:
                f.write('#!/bin/sh\necho %s "$@"\n' % MARK)
            os.chmod(p, 0o755)
        # stand-ins for uninstalled optional packages, only so that the tool modules import
        need = []
        for pkg in ('jinja2', 'jupyter_server'):
            try:
                importlib.import_module(pkg)
            except Exception:
                need.append(pkg)
        for rel, src in STUBS.items():
            if rel.split('/')[0] in need:
                p = os.path.join(self.stubs, rel); os.makedirs(os.path.dirname(p), exist_ok=True)
                open(p, 'w').write(src)
        sys.path.insert(0, self.stubs)
        self.git(['init', '-q', '--template=', self.repo], cwd=b)
        os.chdir(self.repo)
        self.commit_nb(self.repo); self.modify_nb(self.repo)
        self.pristine = open(os.path.join(self.repo, '.git', 'config'), 'rb').read()
        self.attrloc = 'xdg'
        # kind of checkout -> where commands run (work), the repository's config file (cfgpath), directories whose files are
        # snapshotted (roots), git dirs inside them (objects / index not snapshotted), where routing is observed (routing)
        self.layouts = {'plain': {'work': self.repo, 'cfgpath': os.path.join(self.repo, '.git', 'config'), 'roots': [self.repo],
                                  'gitdirs': [os.path.join(self.repo, '.git')], 'routing': self.repo, 'pristine': self.pristine,
                                  'keep': {self.repo: set(os.listdir(self.repo))}}}
        self.use('plain')

    NB = {"cells": [], "metadata": {}, "nbformat": 4, "nbformat_minor": 5}

    def commit_nb(self, d):
        json.dump(self.NB, open(os.path.join(d, 'x.ipynb'), 'w'))
        self.git(['add', 'x.ipynb'], cwd=d)
        self.git(['-c', 'user.name=t', '-c', 'user.email=t@example.org', 'commit', '-q', '-m', 'init'], cwd=d)

    def modify_nb(self, d):
        json.dump(dict(self.NB, metadata={'changed': True}), open(os.path.join(d, 'x.ipynb'), 'w'))

    def probe_repo(self):
        p = os.path.join(self.base, 'probe')
        if not os.path.isdir(p):
            self.git(['init', '-q', '--template=', p], cwd=self.base)
            self.commit_nb(p); self.modify_nb(p)
        return p

    def make_kind(self, kind):
        b = self.base; j = os.path.join
        if kind == 'worktree':
            main, wt = j(b, 'wtmain'), j(b, 'wt')
            self.git(['init', '-q', '--template=', main], cwd=b); self.commit_nb(main)
            self.git(['worktree', 'add', '-q', '--detach', wt], cwd=main); self.modify_nb(wt)
            lay = {'work': wt, 'cfgpath': j(main, '.git', 'config'), 'roots': [main, wt], 'gitdirs': [j(main, '.git')], 'routing': wt}
        elif kind == 'separate':
            sep, gd = j(b, 'sep'), j(b, 'sepgit')
            os.makedirs(sep)
            self.git(['init', '-q', '--template=', '--separate-git-dir', gd, sep], cwd=b); self.commit_nb(sep); self.modify_nb(sep)
            lay = {'work': sep, 'cfgpath': j(gd, 'config'), 'roots': [sep, gd], 'gitdirs': [gd], 'routing': sep}
        elif kind == 'submodule':
            src, sup = j(b, 'subsrc'), j(b, 'super')
            self.git(['init', '-q', '--template=', src], cwd=b); self.commit_nb(src)
            self.git(['init', '-q', '--template=', sup], cwd=b)
            self.git(['-c', 'protocol.file.allow=always', 'submodule', 'add', '-q', src, 'sub'], cwd=sup)
            sub = j(sup, 'sub'); self.modify_nb(sub)
            lay = {'work': sub, 'cfgpath': j(sup, '.git', 'modules', 'sub', 'config'), 'roots': [sup], 'gitdirs': [j(sup, '.git')], 'routing': sub}
        elif kind == 'bare':
            gd = j(b, 'bare.git')
            self.git(['init', '-q', '--bare', '--template=', gd], cwd=b)
            lay = {'work': gd, 'cfgpath': j(gd, 'config'), 'roots': [gd, self.probe_repo()], 'gitdirs': [gd, j(self.probe_repo(), '.git')], 'routing': self.probe_repo()}
        elif kind == 'norepo':
            d = j(b, 'norepo'); os.makedirs(d)
            lay = {'work': d, 'cfgpath': None, 'roots': [d, self.probe_repo()], 'gitdirs': [j(self.probe_repo(), '.git')], 'routing': self.probe_repo()}
        else:
            raise RuntimeError('unknown kind of checkout %r' % (kind,))
        if kind in ('worktree', 'separate', 'submodule'):
            assert os.path.isfile(j(lay['work'], '.git')), '.git is expected to be a file in a %s checkout' % kind
        lay['pristine'] = open(lay['cfgpath'], 'rb').read() if lay['cfgpath'] else None
        lay['keep'] = {r: set(os.listdir(r)) for r in lay['roots'] + [lay['work']]}
        self.layouts[kind] = lay

    def use(self, kind):
        if kind not in self.layouts:
            self.make_kind(kind)
        self.kind = kind; lay = self.layouts[kind]
        self.work, self.cfgpath, self.roots, self.gitdirs, self.routing = lay['work'], lay['cfgpath'], lay['roots'], lay['gitdirs'], lay['routing']

    def git(self, args, cwd=None, check=True):
        p = subprocess.run(['git'] + args, cwd=cwd, stdout=subprocess.PIPE, stderr=subprocess.PIPE)
        if check and p.returncode != 0:
            raise RuntimeError('sandbox git %r failed: %s' % (args, p.stderr.decode('utf8', 'replace')))
        return p

    def global_attr_path(self):
        if self.attrloc == 'custom': return self.custom
        if self.attrloc == 'home': return os.path.join(self.home, '.config', 'git', 'attributes')
        return os.path.join(self.xdg, 'git', 'attributes')

    def reset(self, init):
        for d in (self.home, self.xdg, os.path.dirname(self.custom)):
            shutil.rmtree(d, ignore_errors=True)
        os.makedirs(self.home); os.makedirs(self.xdg)
        self.use(init.get('kind', 'plain'))
        lay = self.layouts[self.kind]
        for d, keep in lay['keep'].items():
            for f in os.listdir(d):
                if f not in keep:
                    p = os.path.join(d, f)
                    shutil.rmtree(p) if os.path.isdir(p) and not os.path.islink(p) else os.unlink(p)
        if self.cfgpath:
            open(self.cfgpath, 'wb').write(lay['pristine'])
        elif init['cfg'].get('local'):
            raise RuntimeError('a %s directory has no repository configuration to put %r in' % (self.kind, init['cfg']['local']))
        self.attrloc = init.get('attrloc', 'xdg')
        if self.attrloc == 'home':
            os.environ.pop('XDG_CONFIG_HOME', None)
        else:
            os.environ['XDG_CONFIG_HOME'] = self.xdg
        gcfg = os.path.join(self.home, '.gitconfig')
        glob = list(init['cfg'].get('global', []))
        if self.attrloc == 'custom':
            glob = [['core.attributesfile', self.custom]] + glob
        for k, v in glob:
            self.git(['config', '--file', gcfg, k, v])
        for k, v in init['cfg'].get('local', []):
            self.git(['config', '--file', self.cfgpath, k, v])
        for sc, path in (('local', os.path.join(self.work, '.gitattributes')), ('global', self.global_attr_path())):
            t = init['att'].get(sc)
            if t is not None:
                os.makedirs(os.path.dirname(path), exist_ok=True)
                open(path, 'wb').write(t.encode('latin-1'))

    def snapshot(self):
        out = {}
        for root in [self.home, self.xdg, os.path.dirname(self.custom)] + self.roots:
            for dp, dns, fns in os.walk(root):
                ingit = any(dp == g or dp.startswith(g + os.sep) for g in self.gitdirs)
                if ingit and 'objects' in dns:
                    dns.remove('objects')
                for fn in fns:
                    if ingit and fn == 'index':
                        continue
                    p = os.path.join(dp, fn)
                    out[os.path.relpath(p, self.base)] = hashlib.sha1(open(p, 'rb').read()).hexdigest()[:12]
        return out

    def observe(self):
        p = self.git(['config', '--list', '--show-origin', '-z'], cwd=self.work, check=False)
        toks = p.stdout.decode('utf8', 'replace').split('\0')
        cfg = {'local': [], 'global': [], 'other': []}
        lreal = os.path.realpath(self.cfgpath) if self.cfgpath else None
        gpaths = ('file:' + os.path.join(self.home, '.gitconfig'), 'file:' + os.path.join(self.xdg, 'git', 'config'),
                  'file:' + os.path.join(self.home, '.config', 'git', 'config'))
        for i in range(0, len(toks) - 1, 2):
            origin, kv = toks[i], toks[i + 1]
            k, _, v = kv.partition('\n')
            if lreal and origin.startswith('file:') and os.path.realpath(os.path.join(self.work, origin[5:])) == lreal:
                cfg['local'].append([k, v.replace(self.base, '<BASE>')])
            elif origin in gpaths:
                if k == 'core.attributesfile' and v == self.custom: v = '<CUSTOM>'
                cfg['global'].append([k, v])
            else: cfg['other'].append([origin.replace(self.base, '<BASE>'), k, v])
        att = {}
        for sc, path in (('local', os.path.join(self.work, '.gitattributes')), ('global', self.global_attr_path())):
            att[sc] = open(path, 'rb').read().decode('latin-1') if os.path.isfile(path) else None
        ca = self.git(['check-attr', 'diff', 'merge', '--', 'x.ipynb'], cwd=self.routing, check=False).stdout.decode('utf8', 'replace')
        attr = {}
        for ln in ca.splitlines():
            parts = ln.split(': ')
            if len(parts) == 3: attr[parts[1]] = parts[2]
        d = self.git(['diff', '--no-color', '--', 'x.ipynb'], cwd=self.routing, check=False)
        return {'cfg': cfg, 'att': att, 'check_attr': attr, 'routed_diff': MARK in d.stdout.decode('utf8', 'replace'),
                'git_list_rc': p.returncode, 'files': self.snapshot()}

    def close(self):
        os.chdir('/')
        shutil.rmtree(self.base, ignore_errors=True)

def argv_of(c):
    a = ['--enable' if c['enable'] else '--disable']
    if c['scope'] == 'global': a.append('--global')
    if c.get('sd'): a.append('--set-default')
    return a

def run_inproc(c):
    """the real main(args) of the entry point; returns 'ok' or a description of how it ended"""
    from subprocess import CalledProcessError
    try:
        if c['tool'] == 'all':
            m = importlib.import_module('nbdime.__main__')
            rc = m.main_dispatch(['config-git'] + argv_of(c))
        else:
            m = importlib.import_module(MODS[c['tool']])
            rc = m.main(['config'] + argv_of(c))
    except SystemExit as e:
        rc = e.code
    except CalledProcessError as e:
        return 'raised:CalledProcessError'
    except BaseException as e:
        return 'raised:' + type(e).__name__
    return 'ok' if not rc else 'exit:%s' % (rc,)

def run_subproc(c, sb):
    if c['tool'] == 'all':
        cmd = [sys.executable, '-m', 'nbdime', 'config-git'] + argv_of(c)
    else:
        cmd = [sys.executable, '-m', MODS[c['tool']], 'config'] + argv_of(c)
    env = dict(os.environ)
    env['PYTHONPATH'] = os.pathsep.join([env.get('PYTHONPATH', ''), sb.stubs])
    p = subprocess.run(cmd, cwd=sb.work, env=env, stdout=subprocess.PIPE, stderr=subprocess.PIPE)
    if p.returncode == 0: return 'ok'
    err = p.stderr.decode('utf8', 'replace')
    if 'CalledProcessError' in err: return 'raised:CalledProcessError'
    return 'exit:%d' % p.returncode

def main():
    tasks = json.load(open(sys.argv[1])); outpath = os.path.abspath(sys.argv[2])
    sb = Sandbox()
    out = []
    # git's own complaints (missing key/section) go to fd 2 of the children; keep the harness log clean
    devnull = os.open(os.devnull, os.O_WRONLY); saved = os.dup(2); os.dup2(devnull, 2)
    py_err = sys.stderr; sys.stderr = io.StringIO()
    try:
        for t in tasks:
            try:
                sb.reset(t['init'])
                obs = [sb.observe()]; status = []
                for c in t['cmds']:
                    os.chdir(sb.work)
                    status.append(run_subproc(c, sb) if t.get('mode') == 'subproc' else run_inproc(c))
                    os.chdir(sb.work)
                    obs.append(sb.observe())
                out.append({'obs': obs, 'status': status})
            except Exception as e:
                out.append({'err': 'HarnessCrash', 'msg': '%s: %s' % (type(e).__name__, e)})
    finally:
        os.dup2(saved, 2); sys.stderr = py_err
        sb.close()
    json.dump(out, open(outpath, 'w'))

if __name__ == '__main__':
    main()
