"""Python side of the C15 check: runs /repo's nbdime (PYTHONPATH) on a batch of tasks.
   /venv/bin/python c15_pyrun.py <tasks.json> <results.json>
ops: gdiff {a,b} | nbdiff {a,b} | patch {base,diff} | merge {base,local,remote} | apply {base,decisions} | split {s}
Imports nothing from the harness."""
import sys, json, copy, traceback

def clean(x):
    if isinstance(x, dict): return {k: clean(v) for k, v in x.items()}
    if isinstance(x, (list, tuple)): return [clean(v) for v in x]
    return x

def exc_info(e):
    return {'err': type(e).__name__, 'msg': str(e)[:300], 'tb': traceback.format_exc(limit=-3)[-1200:]}

def guarded(f):
    try: return {'ok': f()}
    except Exception as e: return exc_info(e)

_ARGS = None
def merge_args():
    """what nbdime/webapp/nbdimeserver.py:ApiMergeHandler builds"""
    global _ARGS
    if _ARGS is None:
        from nbdime.nbmergeapp import _build_arg_parser as bp     # imported as build_merge_parser by nbdimeserver.py
        a = bp().parse_args(['', '', ''])
        a.merge_strategy = 'mergetool'
        _ARGS = a
    return _ARGS

def run_task(t):
    import nbdime, nbformat
    from nbdime.diff_utils import to_diffentry_dicts
    op = t['op']
    if op == 'split':
        return {'ok': t['s'].splitlines(True)}
    if op in ('gdiff', 'nbdiff'):
        a, b = copy.deepcopy(t['a']), copy.deepcopy(t['b'])
        if op == 'gdiff':
            d = nbdime.diff(a, b)
        else:
            d = nbdime.diff_notebooks(nbformat.from_dict(a), nbformat.from_dict(b))
        return {'ok': json.loads(json.dumps(clean(d)))}
    if op == 'patch':
        base = copy.deepcopy(t['base']); d = to_diffentry_dicts(copy.deepcopy(t['diff']))
        return {'ok': clean(nbdime.patch(base, d))}
    if op == 'merge':
        from nbdime.merging.notebooks import decide_notebook_merge
        from nbdime.merging.decisions import apply_decisions
        base, local, remote = (nbformat.from_dict(copy.deepcopy(t[k])) for k in ('base', 'local', 'remote'))
        decs = decide_notebook_merge(base, local, remote, args=merge_args())
        dj = json.loads(json.dumps(clean(decs)))          # what ApiMergeHandler.finish() sends
        merged = guarded(lambda: clean(apply_decisions(nbformat.from_dict(copy.deepcopy(t['base'])), decs)))
        return {'ok': dj, 'merged': merged}
    if op == 'apply':
        from nbdime.merging.decisions import apply_decisions
        from nbdime.merging.decisions import MergeDecision
        decs = []
        for d in copy.deepcopy(t['decisions']):
            d = dict(d)
            for k in ('local_diff', 'remote_diff', 'custom_diff'):
                if d.get(k) is not None: d[k] = to_diffentry_dicts(d[k])
            d['common_path'] = tuple(d.get('common_path', ()))
            decs.append(MergeDecision(**d))
        return {'ok': clean(apply_decisions(nbformat.from_dict(copy.deepcopy(t['base'])), decs))}
    raise ValueError('unknown op ' + op)

def main():
    tasks = json.load(open(sys.argv[1]))
    results = []
    for t in tasks:
        try: results.append(run_task(t))
        except Exception as e: results.append(exc_info(e))
    json.dump(results, open(sys.argv[2], 'w'))

if __name__ == '__main__':
    main()
