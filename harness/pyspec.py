"""Independent oracles that share no code with nbdime: the documented meaning of the diff format
(position-wise, no cursor), strict JSON equality, and diff well-formedness (property C11)."""
import json, math

LINESEPS = {'\n', '\r', '\x0b', '\x0c', '\x1c', '\x1d', '\x1e', '\x85', '\u2028', '\u2029'}

def splitlines_keepends(s):
    """Own implementation of str.splitlines(True) (checked against Python's in the self test)."""
    out, cur, i, n = [], [], 0, len(s)
    while i < n:
        c = s[i]
        if c == '\r' and i + 1 < n and s[i + 1] == '\n':
            cur.append('\r\n'); out.append(''.join(cur)); cur = []; i += 2; continue
        cur.append(c)
        if c in LINESEPS:
            out.append(''.join(cur)); cur = []
        i += 1
    if cur: out.append(''.join(cur))
    return out

def canon(v):
    """Canonical serialisation distinguishing true/1/1.0/-0.0 (what sort_keys JSON shows)."""
    return json.dumps(v, sort_keys=True, ensure_ascii=True, allow_nan=False)

def strict_eq(a, b):
    return canon(a) == canon(b)

def py_eq_confusions(a, b, path=''):
    """Positions where a and b hold values equal under Python == but with different canonical JSON."""
    out = []
    if isinstance(a, dict) and isinstance(b, dict):
        for k in a:
            if k in b: out += py_eq_confusions(a[k], b[k], path + '/' + k)
    elif isinstance(a, list) and isinstance(b, list):
        # any pairing may be made by the aligner: look at all pairs
        for i, x in enumerate(a):
            for j, y in enumerate(b):
                if x == y and not strict_eq(x, y):
                    out.append('%s/[%d~%d]' % (path, i, j))
    else:
        if a == b and not strict_eq(a, b):
            out.append(path or '/')
    return out

class SpecError(Exception):
    pass

def _seq_apply(items, d, sub):
    n = len(items)
    inserts = {}; removed = set(); patches = {}
    for e in d:
        op, k = e['op'], e['key']
        if not isinstance(k, int) or isinstance(k, bool): raise SpecError('sequence key must be int')
        if op == 'addrange':
            inserts.setdefault(k, []).extend(list(e['valuelist']))
        elif op == 'removerange':
            for p in range(k, k + e['length']): removed.add(p)
        elif op == 'patch':
            patches[k] = e['diff']
        else:
            raise SpecError('op %r not documented for sequences' % op)
    out = []
    for p in range(n + 1):
        out.extend(inserts.get(p, []))
        if p < n and p not in removed:
            out.append(sub(items[p], patches[p]) if p in patches else items[p])
    return out

def spec_patch(a, d):
    if isinstance(a, list):
        return _seq_apply(a, d, spec_patch)
    if isinstance(a, str):
        lines = splitlines_keepends(a)
        def line_patch(line, dd):
            return ''.join(_seq_apply(list(line), dd, lambda c, _d: c))
        return ''.join(_seq_apply(lines, d, line_patch))
    if isinstance(a, dict):
        out = dict(a)
        for e in d:
            op, k = e['op'], e['key']
            if not isinstance(k, str): raise SpecError('mapping key must be str')
            if op == 'remove': del out[k]
            elif op == 'add': out[k] = e['value']
            elif op == 'replace': out[k] = e['value']
            elif op == 'patch': out[k] = spec_patch(a[k], e['diff'])
            else: raise SpecError('op %r not documented for mappings' % op)
        return out
    raise SpecError('cannot patch %r' % type(a))

# ---------------- well-formedness (C11) ----------------
def _is_int(x): return isinstance(x, int) and not isinstance(x, bool)

def _wf_seq(n, d, kind, item_check):
    """kind: 'list' | 'lines' | 'chars'.  Returns list of problems."""
    probs = []
    c, add_ok = 0, True
    for e in d:
        op, k = e.get('op'), e.get('key')
        if not _is_int(k) or k < 0:
            probs.append('non-integer key %r' % (k,)); continue
        if op == 'addrange':
            vl = e.get('valuelist')
            if kind == 'chars':
                if not isinstance(vl, str): probs.append('char addrange valuelist not str')
            else:
                if not isinstance(vl, list): probs.append('addrange valuelist not list')
                elif kind == 'lines' and not all(isinstance(x, str) for x in vl): probs.append('line addrange holds non-str')
            if vl is not None and len(vl) == 0: probs.append('empty addrange at %d' % k)
            if k > n: probs.append('addrange key %d beyond length %d' % (k, n))
            if not (c < k or (c == k and add_ok)): probs.append('addrange at %d out of order/overlapping (cursor %d)' % (k, c))
            c, add_ok = k, False
        elif op == 'removerange':
            ln = e.get('length')
            if not _is_int(ln) or ln <= 0: probs.append('bad removerange length %r' % (ln,)); ln = 1
            if k < c: probs.append('removerange at %d out of order/overlapping (cursor %d)' % (k, c))
            if k + ln > n: probs.append('removerange %d+%d beyond length %d' % (k, ln, n))
            c, add_ok = k + ln, True
        elif op == 'patch' and kind != 'chars':
            if k < c: probs.append('patch at %d out of order/overlapping (cursor %d)' % (k, c))
            if k >= n: probs.append('patch key %d beyond length %d' % (k, n))
            else: probs += item_check(k, e.get('diff'))
            c, add_ok = k + 1, True
        else:
            probs.append('op %r not produced for sequences (%s)' % (op, kind))
    return probs

def wf_problems(a, d):
    if not isinstance(d, list): return ['diff is not a list']
    if isinstance(a, list):
        def item(k, dd):
            x = a[k]
            if not isinstance(x, (list, dict, str)): return ['patch descends into non-container at %d' % k]
            if not dd: return ['empty nested patch at %d' % k]
            return ['[%d]: %s' % (k, p) for p in wf_problems(x, dd)]
        return _wf_seq(len(a), d, 'list', item)
    if isinstance(a, str):
        lines = splitlines_keepends(a)
        def item(k, dd):
            if not dd: return ['empty nested patch at line %d' % k]
            return ['line %d: %s' % (k, p) for p in _wf_seq(len(lines[k]), dd, 'chars', None)]
        return _wf_seq(len(lines), d, 'lines', item)
    if isinstance(a, dict):
        probs = []; prev = None
        for e in d:
            op, k = e.get('op'), e.get('key')
            if not isinstance(k, str): probs.append('non-string key %r' % (k,)); continue
            if prev is not None and not (prev < k): probs.append('keys not strictly increasing at %r' % k)
            prev = k
            if op == 'add':
                if k in a: probs.append('add names present key %r' % k)
            elif op in ('remove', 'replace'):
                if k not in a: probs.append('%s names absent key %r' % (op, k))
            elif op == 'patch':
                if k not in a: probs.append('patch names absent key %r' % k)
                else:
                    x = a[k]; dd = e.get('diff')
                    if not isinstance(x, (list, dict, str)): probs.append('patch descends into non-container at %r' % k)
                    elif not dd: probs.append('empty nested patch at %r' % k)
                    else: probs += ['%s: %s' % (k, p) for p in wf_problems(x, dd)]
            else:
                probs.append('op %r not legal for mappings' % op)
        return probs
    return ['base is not a container']

if __name__ == '__main__':
    import random
    r = random.Random(1)
    alpha = 'ab\n\r\x0b\x0c\x1c\x1d\x1e\x85\u2028\u2029 '
    for _ in range(20000):
        s = ''.join(r.choice(alpha) for _ in range(r.randint(0, 8)))
        assert splitlines_keepends(s) == s.splitlines(True), repr(s)
    print('pyspec self test ok')

def atoms(v, out=None):
    if out is None: out = []
    if isinstance(v, dict):
        for x in v.values(): atoms(x, out)
    elif isinstance(v, list):
        for x in v: atoms(x, out)
    else:
        out.append(v)
    return out

def py_eq_confusions_deep(a, b):
    """atoms x of a, y of b with x == y in Python but different canonical JSON (True/1/1.0/-0.0...)"""
    out = []
    bs = [y for y in atoms(b) if isinstance(y, (bool, int, float))]
    for x in atoms(a):
        if isinstance(x, (bool, int, float)):
            for y in bs:
                if x == y and not strict_eq(x, y):
                    out.append([x, y]); break
    return out
