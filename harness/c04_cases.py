"""Case generation shared by the C04 and C09 checks: notebook triples (gennb.gen_triple, fixture triples of
/repo/nbdime/tests/files, hand-made minimal triples for each conflict renderer) and the strategy configuration space."""
import os, json, copy, itertools
import gennb

MERGE = ['inline', 'use-base', 'use-local', 'use-remote']
INPUT = [None] + MERGE
OUTPUT = [None] + MERGE + ['remove', 'clear-all']


def cli_configs():
    """the 4 x 5 x 7 x 2 command-line configurations"""
    out = []
    for m, i, o, t in itertools.product(MERGE, INPUT, OUTPUT, [True, False]):
        out.append({'merge_strategy': m, 'input_strategy': i, 'output_strategy': o, 'ignore_transients': t})
    return out


def api_configs():
    """strategies reachable through the Python / web API only"""
    return [{'merge_strategy': 'mergetool', 'ignore_transients': True}, {'merge_strategy': 'mergetool', 'ignore_transients': False},
            {'merge_strategy': 'union', 'ignore_transients': True}, {'merge_strategy': 'union', 'ignore_transients': False}]


def is_cli(cfg):
    return cfg.get('merge_strategy') in MERGE


def cfg_name(c):
    return '%s/%s/%s/%s' % (c.get('merge_strategy'), c.get('input_strategy') or '-', c.get('output_strategy') or '-',
                            'T' if c.get('ignore_transients', True) else 'noT')


def sample_configs(r, n):
    """default first, then the API strategies, then a seeded sample of the CLI space"""
    cli = cli_configs()
    head = [{'merge_strategy': 'inline', 'input_strategy': None, 'output_strategy': None, 'ignore_transients': True}] + api_configs()
    rest = [c for c in cli if c not in head]
    r.shuffle(rest)
    return (head + rest)[:max(n, len(head))]


# ---------------------------------------------------------------- hand-made triples (one per renderer)
def _nb(minor, cells, md=None):
    return {'cells': cells, 'metadata': md or {}, 'nbformat': 4, 'nbformat_minor': minor}


def _md(minor, src, i, **kw):
    c = {'cell_type': 'markdown', 'metadata': {}, 'source': src}
    if minor >= 5: c['id'] = 'cell%d' % i
    c.update(kw); return c


def _code(minor, src, i, outputs=None, ec=None, **kw):
    c = {'cell_type': 'code', 'metadata': {}, 'source': src, 'execution_count': ec, 'outputs': outputs or []}
    if minor >= 5: c['id'] = 'cell%d' % i
    c.update(kw); return c


def one_sided_id_triples():
    """similar concurrent inserts where exactly one side has cell ids: base 4.<m> without ids, one side still pre-4.5 adds a
    cell, the other side was re-saved as 4.5 (every cell gets an id) and adds a near-identical cell; both orders, code and
    markdown, base minor 4 and 2 (repair f2e9526: the combined cell takes the one existing id)"""
    out = []
    for bm in (4, 2):
        for kind in ('code', 'markdown'):
            mk = _code if kind == 'code' else _md
            base = _nb(bm, [_md(bm, 'base cell\n', 0)])
            old = copy.deepcopy(base); old['cells'].insert(0, mk(bm, 'def f(x):\n    y = x\n    z = y\n    return x+1\n', 1))
            new = copy.deepcopy(base); new['nbformat_minor'] = 5
            new['cells'][0]['id'] = 'basecell'
            c = mk(5, 'def f(x):\n    y = x\n    z = y\n    return x+2\n', 1); c['id'] = 'inserted-1'
            new['cells'].insert(0, c)
            out.append(('hand:insert_insert_similar_one_sided_id:remote_has_ids:%s@4.%d' % (kind, bm), base, old, new))
            out.append(('hand:insert_insert_similar_one_sided_id:local_has_ids:%s@4.%d' % (kind, bm), base, copy.deepcopy(new), copy.deepcopy(old)))
    return out


def handmade(minor):
    """[(name, base, local, remote)] exercising each conflict renderer at the given minor"""
    out = []
    b = _nb(minor, [_md(minor, 'base\n', 0)])
    # dissimilar concurrent inserts -> marker cells
    l = copy.deepcopy(b); l['cells'].insert(0, _code(minor, 'import numpy as np\nx = 1\n', 1))
    r = copy.deepcopy(b); r['cells'].insert(0, _md(minor, '# A completely different heading\n\nwith prose\n', 2))
    out.append(('insert_insert_different', b, l, r))
    # similar concurrent inserts -> one combined cell (id / metadata placeholders)
    l = copy.deepcopy(b); l['cells'].insert(0, _code(minor, 'x = 1\ny = 2\nz = 3\nprint(x)\n', 1))
    r = copy.deepcopy(b); r['cells'].insert(0, _code(minor, 'x = 1\ny = 2\nz = 3\nprint(y)\n', 2, metadata={'tags': ['t']}))
    out.append(('insert_insert_similar', b, l, r))
    # similar concurrent inserts that also differ in execution count / outputs
    so = {'output_type': 'stream', 'name': 'stdout', 'text': '1\n'}
    l = copy.deepcopy(b); l['cells'].insert(0, _code(minor, 'x = 1\ny = 2\nz = 3\nprint(x)\n', 1, outputs=[so], ec=1))
    r = copy.deepcopy(b); r['cells'].insert(0, _code(minor, 'x = 1\ny = 2\nz = 3\nprint(y)\n', 2, outputs=[dict(so, text='2\n')], ec=2))
    out.append(('insert_insert_similar_ran', b, l, r))
    # similar concurrent inserts of markdown cells whose attachments differ / exist on one side only
    for nm, la, ra in (('differ', {'a.png': {'image/png': 'AAAA'}, 's.png': {'image/png': 'SSSS'}}, {'a.png': {'image/png': 'BBBB'}, 's.png': {'image/png': 'SSSS'}}),
                       ('oneside', None, {'a.png': {'image/png': 'BBBB'}}), ('otherside', {'a.png': {'image/png': 'AAAA'}}, None)):
        lc = _md(minor, '# Title\nline two\nline three\nlocal\n', 1); rc = _md(minor, '# Title\nline two\nline three\nremote\n', 2)
        if la is not None: lc['attachments'] = la
        if ra is not None: rc['attachments'] = ra
        l = copy.deepcopy(b); l['cells'].insert(0, lc)
        r = copy.deepcopy(b); r['cells'].insert(0, rc)
        out.append(('insert_insert_similar_attachments_' + nm, b, l, r))
    # both sides make the "same" change up to the JSON number type (agreement under Python ==)
    ba = _nb(minor, [_code(minor, 'x\n', 0, metadata={'k': 0, 'f': False})], md={'k': 0})
    l = copy.deepcopy(ba); l['cells'][0]['metadata'].update({'k': 1, 'f': 1}); l['metadata']['k'] = 1
    r = copy.deepcopy(ba); r['cells'][0]['metadata'].update({'k': 1.0, 'f': True}); r['metadata']['k'] = True
    out.append(('agree_up_to_number_type', ba, l, r))
    # source conflict
    b2 = _nb(minor, [_code(minor, 'a = 1\nb = 2\n', 0)])
    l = copy.deepcopy(b2); l['cells'][0]['source'] = 'a = 10\nb = 2\n'
    r = copy.deepcopy(b2); r['cells'][0]['source'] = 'a = 11\nb = 2\n'
    out.append(('source_source', b2, l, r))
    # output conflict -> marker outputs
    o = {'output_type': 'stream', 'name': 'stdout', 'text': 'one\n'}
    b3 = _nb(minor, [_code(minor, 'print(1)\n', 0, outputs=[o], ec=1)])
    l = copy.deepcopy(b3); l['cells'][0]['outputs'][0]['text'] = 'two\n'
    r = copy.deepcopy(b3); r['cells'][0]['outputs'][0]['text'] = 'three\n'
    out.append(('output_output', b3, l, r))
    l = copy.deepcopy(b3); l['cells'][0]['outputs'].append({'output_type': 'stream', 'name': 'stderr', 'text': 'L\n'})
    r = copy.deepcopy(b3); r['cells'][0]['outputs'].append({'output_type': 'display_data', 'data': {'text/plain': 'R'}, 'metadata': {}})
    out.append(('output_insert_insert', b3, l, r))
    # one side only INSERTS an output in front of a base output that the other side modifies / removes (chunk types
    # A/P, A/R, P/A, R/A on /cells/*/outputs: one side of the rendered conflict is the "<unchanged>" base output)
    o1 = {'output_type': 'stream', 'name': 'stdout', 'text': 'first\n'}
    o2 = {'output_type': 'display_data', 'data': {'text/plain': 'second'}, 'metadata': {}}
    bo = _nb(minor, [_code(minor, 'show()\n', 0, outputs=[o1, o2], ec=3)])
    new_out = {'output_type': 'stream', 'name': 'stderr', 'text': 'warning\n'}
    for at in (0, 1):
        ins = copy.deepcopy(bo); ins['cells'][0]['outputs'].insert(at, copy.deepcopy(new_out))
        mod = copy.deepcopy(bo)
        if at == 0: mod['cells'][0]['outputs'][0]['text'] = 'first, changed\n'
        else: mod['cells'][0]['outputs'][1]['data']['text/plain'] = 'second, changed'
        rem = copy.deepcopy(bo); del rem['cells'][0]['outputs'][at]
        out.append(('output_insert_vs_modify_at%d' % at, bo, ins, mod)); out.append(('output_modify_vs_insert_at%d' % at, bo, copy.deepcopy(mod), copy.deepcopy(ins)))
        out.append(('output_insert_vs_remove_at%d' % at, bo, copy.deepcopy(ins), rem)); out.append(('output_remove_vs_insert_at%d' % at, bo, copy.deepcopy(rem), copy.deepcopy(ins)))
    # a genuine conflict inside a metadata dict (decisions are lifted back to the dict by record-conflict) next to two
    # non-conflicting one-sided edits below one common sub-key -- notebook level and cell level
    bm_ = _nb(minor, [_code(minor, 'x\n', 0, metadata={'grp': {'p': 1, 'q': 2, 'r': 3}, 'ver': 'v0'})],
              md={'kernelspec': {'display_name': 'Python 3', 'name': 'python3'}, 'language_info': {'name': 'python', 'version': '3.8.0'}})
    l = copy.deepcopy(bm_); r = copy.deepcopy(bm_)
    l['metadata']['kernelspec']['display_name'] = 'Python 3 (conda)'; r['metadata']['kernelspec']['name'] = 'conda-env-py'
    l['metadata']['language_info']['version'] = '3.9.1'; r['metadata']['language_info']['version'] = '3.10.2'
    l['cells'][0]['metadata']['grp']['p'] = 10; r['cells'][0]['metadata']['grp']['q'] = 20
    l['cells'][0]['metadata']['ver'] = 'vL'; r['cells'][0]['metadata']['ver'] = 'vR'
    out.append(('metadata_conflict_plus_onesided_edits_under_one_key', bm_, l, r))
    # one side only re-executed a cell (transient fields only), the other side replaced / deleted that cell -- both orders
    oc = {'output_type': 'execute_result', 'data': {'text/plain': '2'}, 'metadata': {}, 'execution_count': 2}
    bt = _nb(minor, [_code(minor, 'a = 1\n', 0, ec=1), _code(minor, 'b = a + 1\nb\n', 1, outputs=[oc], ec=2), _code(minor, 'c = 3\n', 2, ec=3)])
    rerun = copy.deepcopy(bt); rerun['cells'][1]['execution_count'] = 7; rerun['cells'][1]['outputs'][0]['execution_count'] = 7
    rerun['cells'][1]['metadata']['collapsed'] = True
    newc = _code(minor, 'import math\nx = math.pi\nprint(x)\n', 9, ec=None)
    repl = copy.deepcopy(bt); repl['cells'][1:2] = [copy.deepcopy(newc)]
    dele = copy.deepcopy(bt); del dele['cells'][1]
    insb = copy.deepcopy(bt); insb['cells'].insert(1, copy.deepcopy(newc))
    out.append(('rerun_vs_replace', bt, copy.deepcopy(rerun), repl)); out.append(('replace_vs_rerun', bt, copy.deepcopy(repl), copy.deepcopy(rerun)))
    out.append(('rerun_vs_delete', bt, copy.deepcopy(rerun), dele)); out.append(('delete_vs_rerun', bt, copy.deepcopy(dele), copy.deepcopy(rerun)))
    out.append(('rerun_vs_insert_before', bt, copy.deepcopy(rerun), insb))
    if minor >= 5:
        # both sides gave the same matched cell a new, different id (cut / paste back, id-regenerating tools)
        for acc in ('plain', 'source_local', 'source_both'):
            l = copy.deepcopy(bt); r = copy.deepcopy(bt)
            l['cells'][1]['id'] = 'local-new-id'; r['cells'][1]['id'] = 'remote-new-id'
            if acc != 'plain': l['cells'][0]['source'] = 'a = 10\n'
            if acc == 'source_both': r['cells'][2]['source'] = 'c = 30\n'
            out.append(('reid_both_' + acc, bt, l, r))
        l = copy.deepcopy(bt); r = copy.deepcopy(bt)
        for c_ in l['cells']: c_['id'] = 'L-' + c_['id']
        for c_ in r['cells']: c_['id'] = 'R-' + c_['id']
        out.append(('reid_all_both', bt, l, r))
    # metadata conflicts -> nbdime-conflicts record (cell and notebook level)
    b4 = _nb(minor, [_code(minor, 'x\n', 0, metadata={'k': 1})], md={'title': 't', 'k': 1})
    l = copy.deepcopy(b4); l['cells'][0]['metadata']['k'] = 2; l['metadata']['k'] = 2
    r = copy.deepcopy(b4); r['cells'][0]['metadata']['k'] = 3; r['metadata']['k'] = 3
    out.append(('metadata_metadata', b4, l, r))
    # conflicts on the schema-constrained ("transient") cell metadata flags
    b7 = _nb(minor, [_code(minor, 'x\n', 0, metadata={'scrolled': False, 'collapsed': False, 'tags': ['a'], 'name': 'n'})])
    l = copy.deepcopy(b7); l['cells'][0]['metadata'].update({'scrolled': True, 'tags': ['a', 'l'], 'name': 'nl'})
    r = copy.deepcopy(b7); r['cells'][0]['metadata'].update({'scrolled': 'auto', 'tags': ['a', 'r'], 'name': 'nr'})
    out.append(('metadata_constrained_keys', b7, l, r))
    b8 = _nb(minor, [_code(minor, 'x\n', 0)])
    l = copy.deepcopy(b8); l['cells'][0]['metadata'] = {'collapsed': True, 'scrolled': True}
    r = copy.deepcopy(b8); r['cells'][0]['metadata'] = {'collapsed': False, 'scrolled': 'auto'}
    out.append(('metadata_flags_added_both', b8, l, r))
    # attachment conflict -> LOCAL_/REMOTE_ renaming
    att = {'image.png': {'image/png': 'AAAA'}}
    b5 = _nb(minor, [_md(minor, '![i](attachment:image.png)\n', 0, attachments=att)])
    l = copy.deepcopy(b5); l['cells'][0]['attachments']['image.png']['image/png'] = 'BBBB'
    r = copy.deepcopy(b5); r['cells'][0]['attachments']['image.png']['image/png'] = 'CCCC'
    out.append(('attachment_attachment', b5, l, r))
    # the same attachment name added on both sides with different content
    b5b = _nb(minor, [_md(minor, 'text\n', 0, attachments={'other.png': {'image/png': 'OOOO'}})])
    l = copy.deepcopy(b5b); l['cells'][0]['attachments']['image.png'] = {'image/png': 'BBBB'}
    r = copy.deepcopy(b5b); r['cells'][0]['attachments']['image.png'] = {'image/png': 'CCCC'}
    out.append(('attachment_added_both', b5b, l, r))
    # delete vs edit
    b6 = _nb(minor, [_code(minor, 'keep\n', 0), _code(minor, 'victim = 1\n', 1)])
    l = copy.deepcopy(b6); del l['cells'][1]
    r = copy.deepcopy(b6); r['cells'][1]['source'] = 'victim = 2\n'
    out.append(('delete_edit', b6, l, r))
    return out


def _join(v):
    return ''.join(v) if isinstance(v, list) and all(isinstance(x, str) for x in v) else v


def _join_bundle(b):
    import re
    if not isinstance(b, dict): return b
    return {k: (v if re.search(r'^application/(.*\+)?json$', k) else _join(v)) for k, v in b.items()}


def rejoin_lines(nb):
    """what nbformat.read does to the on-disk form: multi-line strings stored as lists of lines become strings"""
    for c in nb.get('cells', []):
        if 'source' in c: c['source'] = _join(c['source'])
        if isinstance(c.get('attachments'), dict):
            c['attachments'] = {k: _join_bundle(v) for k, v in c['attachments'].items()}
        for o in c.get('outputs', []) or []:
            if o.get('output_type') == 'stream': o['text'] = _join(o.get('text'))
            elif o.get('output_type') in ('display_data', 'execute_result') and 'data' in o: o['data'] = _join_bundle(o['data'])
    return nb


def fixture_triples(repo):
    """(base, local, remote) triples named <stem>--1/2/3 or <stem>, <stem>--x, <stem>--y in tests/files"""
    d = os.path.join(repo, 'nbdime', 'tests', 'files')
    out = []
    if not os.path.isdir(d): return out
    def load(n):
        with open(os.path.join(d, n), encoding='utf8') as f: return rejoin_lines(json.load(f))
    names = sorted(x for x in os.listdir(d) if x.endswith('.ipynb'))
    for stem in sorted(set(n.split('--')[0].replace('.ipynb', '') for n in names)):
        tri = [stem + '--%d.ipynb' % i for i in (1, 2, 3)]
        if all(t in names for t in tri):
            try: out.append(('fixture:' + stem, load(tri[0]), load(tri[1]), load(tri[2])))
            except Exception: pass
        tri = [stem + '--base.ipynb', stem + '--local.ipynb', stem + '--remote.ipynb']
        if all(t in names for t in tri):
            try: out.append(('fixture:' + stem, load(tri[0]), load(tri[1]), load(tri[2])))
            except Exception: pass
    return out


def vary_minors(r, b, l, rm, allow5=False):
    """give the three sides pairwise different nbformat_minor values (all below 5 unless allow5, so that the presence of
    cell ids stays consistent with every side's declared minor)"""
    pool = [0, 1, 2, 3, 4]
    ms = r.sample(pool, 3)
    for nb, m in zip((b, l, rm), ms): nb['nbformat_minor'] = m
    return b, l, rm


def upgrade_triple(r):
    """a pre-4.5 notebook re-saved as 4.5 on one side (minor 5, every cell gets an id, maybe a source edit) while the other
    side keeps a pre-4.5 minor (possibly another one) and only edits existing cells"""
    bm = r.choice([0, 2, 3, 4, 4])
    b = gennb.gen_notebook(r, minor=bm, ncells=r.choice([1, 2, 3, 4]), rich=False)
    up = copy.deepcopy(b); up['nbformat_minor'] = 5
    used = set()
    for c in up['cells']: c['id'] = gennb.gen_id(r, used)
    other = copy.deepcopy(b); other['nbformat_minor'] = r.choice([m for m in (0, 1, 2, 3, 4) if m >= bm])
    i = r.randrange(len(b['cells']))
    other['cells'][i]['source'] = other['cells'][i]['source'] + ('' if other['cells'][i]['source'].endswith('\n') or not other['cells'][i]['source'] else '\n') + 'appended = 1\n'
    if r.random() < 0.5:
        j = r.randrange(len(b['cells']))
        up['cells'][j]['source'] = gennb.edit_source_text(r, up['cells'][j]['source'], up['cells'][j]['cell_type'])
    if r.random() < 0.5: return ('upgrade45:local', b, up, other)
    return ('upgrade45:remote', b, other, up)


def multi_insert_triple(r, minor=None):
    """both sides insert runs of cells at the same position; some remote cells are near-copies of local ones, surrounded
    by unmatched cells on either side (exercises the pairing of similar concurrent inserts)"""
    minor = r.choice([3, 4, 5, 5]) if minor is None else minor
    b = gennb.gen_notebook(r, minor=minor, ncells=r.choice([0, 1, 2, 3]), rich=False)
    used = gennb.used_ids(b)
    pos = r.randint(0, len(b['cells']))
    L = [gennb.gen_cell(r, minor, used, rich=False) for _ in range(r.choice([1, 1, 2, 3]))]
    R = []
    for c in L:
        for _ in range(r.choice([0, 0, 1, 2])): R.append(gennb.gen_cell(r, minor, used, rich=False))
        if r.random() < 0.75:
            c2 = copy.deepcopy(c)
            if 'id' in c2: c2['id'] = gennb.gen_id(r, used)
            c2['source'] = c2['source'] + ('' if c2['source'].endswith('\n') or not c2['source'] else '\n') + r.choice(['# remote tweak\n', 'extra = 2\n'])
            R.append(c2)
    for _ in range(r.choice([0, 1, 1, 2])): R.append(gennb.gen_cell(r, minor, used, rich=False))
    if not R: R.append(gennb.gen_cell(r, minor, used, rich=False))
    l = copy.deepcopy(b); rm = copy.deepcopy(b)
    l['cells'][pos:pos] = copy.deepcopy(L); rm['cells'][pos:pos] = R
    if r.random() < 0.5: l, rm = rm, l
    return ('multiinsert@4.%d' % minor, b, l, rm)


CORPUS_ARGS = {}     # name -> strategy configuration a corpus case must be run with


def corpus_triples(prop='C04'):
    """minimised failures kept in /verif/corpus/<prop>/*.json: {name, base, local, remote, args}; run first"""
    d = os.path.join(os.path.dirname(os.path.dirname(os.path.abspath(__file__))), 'corpus', prop)
    out = []
    if os.path.isdir(d):
        for f in sorted(os.listdir(d)):
            if not f.endswith('.json'): continue
            c = json.load(open(os.path.join(d, f)))
            name = 'corpus:' + c.get('name', f[:-5])
            CORPUS_ARGS[name] = c.get('args') or {'merge_strategy': 'inline'}
            out.append((name, c['base'], c['local'], c['remote']))
    return out


def output_insert_vs_change_triple(r):
    """generated version of the A/P, A/R, P/A, R/A output conflicts: one side inserts a fresh output directly in front of
    base output i (everything else untouched), the other side edits or removes output i"""
    minor = r.choice([0, 3, 4, 5, 5])
    used = set()
    cell = gennb.gen_cell(r, minor, used, rich=True, kind='code')
    ec = cell.get('execution_count') or r.randint(1, 9); cell['execution_count'] = ec
    cell['outputs'] = [gennb.gen_output(r, ec) for _ in range(r.choice([1, 2, 3]))]
    b = {'cells': [gennb.gen_cell(r, minor, used, rich=False) for _ in range(r.choice([0, 1]))] + [cell],
         'metadata': {}, 'nbformat': 4, 'nbformat_minor': minor}
    ci = len(b['cells']) - 1; i = r.randrange(len(cell['outputs']))
    ins = copy.deepcopy(b); ins['cells'][ci]['outputs'].insert(i, gennb.gen_output(r, ec, kind=r.choice(['stream', 'display_data', 'error'])))
    oth = copy.deepcopy(b)
    if r.random() < 0.5: how = 'remove'; del oth['cells'][ci]['outputs'][i]
    else: how = 'modify'; gennb.edit_output(r, oth['cells'][ci]['outputs'][i])
    if r.random() < 0.5: return ('outins_vs_%s:local_inserts@4.%d' % (how, minor), b, ins, oth)
    return ('outins_vs_%s:remote_inserts@4.%d' % (how, minor), b, oth, ins)


def _leaf_edit(r, v):
    if isinstance(v, bool): return not v
    if isinstance(v, int): return v + r.randint(1, 9)
    if isinstance(v, float): return v + 0.5
    if isinstance(v, str): return v + r.choice(['-x', ' (new)', '.1'])
    return r.choice(['replaced', 7])


def lifted_patches_triple(r):
    """a metadata dict (notebook level or cell level) holding a sub-dict G with >= 2 leaves and another key C: local edits
    one leaf of G, remote another leaf of G (no conflict), and both change C differently (genuine conflict in the same
    dict, so strategies such as record-conflict lift all decisions of the dict back to one path)"""
    minor = r.choice([0, 3, 4, 5, 5])
    b = gennb.gen_notebook(r, minor=minor, ncells=r.choice([1, 2]), rich=False)
    keys = r.sample(['alpha', 'beta', 'gamma', 'delta', 'x/y', 'name2', 'n'], r.choice([2, 3, 4]))
    grp = {k: r.choice([1, 2.5, 'text', True, 'python3', 'v1.0']) for k in keys}
    gname = r.choice(['grp', 'custom', 'kernelspec2', 'slideshow2']); cname = r.choice(['conf', 'ver', 'zz'])
    nb_level = r.random() < 0.5
    def md(nb): return nb['metadata'] if nb_level else nb['cells'][0]['metadata']
    md(b)[gname] = grp; md(b)[cname] = 'c0'
    if r.random() < 0.4: md(b)['deep'] = {gname: dict(grp)}
    l = copy.deepcopy(b); rm = copy.deepcopy(b)
    k1, k2 = r.sample(keys, 2)
    md(l)[gname][k1] = _leaf_edit(r, grp[k1]); md(rm)[gname][k2] = _leaf_edit(r, grp[k2])
    if 'deep' in md(b):
        md(l)['deep'][gname][k1] = _leaf_edit(r, grp[k1]); md(rm)['deep'][gname][k2] = _leaf_edit(r, grp[k2])
    md(l)[cname] = 'cL'; md(rm)[cname] = 'cR'
    return ('lifted:%s@4.%d' % ('nb' if nb_level else 'cell', minor), b, l, rm)


def reid_both_triple(r):
    """4.5 notebook in which both sides changed the id of the same cell(s) to different fresh values, possibly next to
    ordinary edits elsewhere"""
    b = gennb.gen_notebook(r, minor=5, ncells=r.choice([1, 2, 3, 4]), rich=False)
    used = gennb.used_ids(b)
    l = copy.deepcopy(b); rm = copy.deepcopy(b)
    idx = r.sample(range(len(b['cells'])), r.choice([1, 1, 2]) if len(b['cells']) > 1 else 1)
    for i in idx:
        l['cells'][i]['id'] = gennb.gen_id(r, used); rm['cells'][i]['id'] = gennb.gen_id(r, used)
    rest = [i for i in range(len(b['cells'])) if i not in idx]
    if rest and r.random() < 0.6:
        j = r.choice(rest); side = r.choice([l, rm])
        side['cells'][j]['source'] = gennb.edit_source_text(r, side['cells'][j]['source'], side['cells'][j]['cell_type'], 'line')
    return ('reid_both@4.5', b, l, rm)


def rerun_vs_replace_triple(r):
    """one side only re-executed code cell i (execution counts, nothing else), the other side replaced it (new cell(s)
    directly before it, the cell itself removed), deleted it, or only inserted before it; either side"""
    minor = r.choice([3, 4, 5, 5]); used = set()
    cells = [gennb.gen_cell(r, minor, used, rich=False) for _ in range(r.choice([1, 2, 3, 4]))]
    i = r.randrange(len(cells))
    c = gennb.gen_cell(r, minor, used, rich=False, kind='code'); c['execution_count'] = r.randint(1, 20)
    c['outputs'] = [gennb.gen_output(r, c['execution_count'], rich=False) for _ in range(r.choice([0, 1, 2]))]
    cells[i] = c
    b = {'cells': cells, 'metadata': {}, 'nbformat': 4, 'nbformat_minor': minor}
    rerun = copy.deepcopy(b); n = c['execution_count'] + r.randint(1, 30)
    rerun['cells'][i]['execution_count'] = n
    for o in rerun['cells'][i]['outputs']:
        if o['output_type'] == 'execute_result': o['execution_count'] = n
    other = copy.deepcopy(b); how = r.choice(['replace', 'replace', 'delete', 'insert_before'])
    new = [gennb.gen_cell(r, minor, used, rich=False) for _ in range(r.choice([1, 1, 2]))]
    if how == 'replace': other['cells'][i:i + 1] = new
    elif how == 'delete': del other['cells'][i]
    else: other['cells'][i:i] = new
    if r.random() < 0.5: return ('rerun_vs_%s:local_reran@4.%d' % (how, minor), b, rerun, other)
    return ('rerun_vs_%s:remote_reran@4.%d' % (how, minor), b, other, rerun)


def gen_triples(r, n, repo, minors_mix=0.15):
    """-> [(name, base, local, remote)]: hand-made (every minor), fixtures, generated"""
    out = corpus_triples('C04')
    for k in range(6): out += [('hand:%s@4.%d' % (nm, k), b, l, rm) for nm, b, l, rm in handmade(k)]
    out += one_sided_id_triples()
    out += fixture_triples(repo)
    for _ in range(max(6, n // 12)): out.append(upgrade_triple(r))
    for _ in range(max(10, n // 8)): out.append(multi_insert_triple(r))
    for _ in range(max(8, n // 12)): out.append(output_insert_vs_change_triple(r))
    for _ in range(max(8, n // 12)): out.append(lifted_patches_triple(r))
    for _ in range(max(8, n // 12)): out.append(reid_both_triple(r))
    for _ in range(max(10, n // 10)): out.append(rerun_vs_replace_triple(r))
    for i in range(max(40, n // 2)):
        minor = r.choice([0, 1, 2, 3, 4, 4, 5, 5, 5])
        b, l, rm = gennb.gen_triple(r, conflict_bias=0.75, minor=minor, ncells=r.choice([0, 1, 2, 2, 3, 4, 5]))
        name = 'gen%d@4.%d' % (i, minor)
        if minor < 5 and r.random() < minors_mix:
            b, l, rm = vary_minors(r, b, l, rm); name += '+minors%d%d%d' % (b['nbformat_minor'], l['nbformat_minor'], rm['nbformat_minor'])
        out.append((name, b, l, rm))
    return out


# ---------------------------------------------------------------- one side REMOVES a dict key, the other side changes only transients below it
REMOVALS = ('to_markdown', 'to_raw', 'to_markdown_edited', 'drop_flags', 'to_markdown_drop_flags')
RERUNS = ('count', 'count_result', 'count_flags', 'count_noout', 'count_from_null')
_FLAG_TOGGLE = {'collapsed': {False: True, True: False}, 'scrolled': {False: 'auto', True: False, 'auto': True}}


def _retype_to_text(cell, to):
    """code cell -> markdown / raw in place, as the notebook front ends do it: cell_type replaced, execution_count and
    outputs removed, id / source / metadata kept"""
    cell['cell_type'] = to
    cell.pop('outputs', None); cell.pop('execution_count', None)
    return cell


def _rerun_counts_only(cell, n, flags=()):
    """re-execution that changes transient fields only: the cell's execution_count, the execution_count of its
    execute_result outputs, and (flags) the display flags collapsed / scrolled of its metadata"""
    cell['execution_count'] = n
    for o in cell.get('outputs', []):
        if o.get('output_type') == 'execute_result': o['execution_count'] = n
    for f in flags:
        if f in cell['metadata'] and cell['metadata'][f] in _FLAG_TOGGLE[f]:
            cell['metadata'][f] = _FLAG_TOGGLE[f][cell['metadata'][f]]
    return cell


def _apply_removal(cell, removal):
    if removal.startswith('to_'):
        _retype_to_text(cell, 'raw' if removal == 'to_raw' else 'markdown')
        if removal == 'to_markdown_edited': cell['source'] = '# now a text cell\n' + cell['source']
    if removal.endswith('drop_flags'):
        for f in ('collapsed', 'scrolled'): cell['metadata'].pop(f, None)
    return cell


def removed_vs_transient_handmade(minor, removals=REMOVALS, reruns=RERUNS):
    """[(name, base, local, remote)]: base [code, executed code cell X, markdown].  One side REMOVES keys of X -- converts it
    to a markdown / raw cell (cell_type replaced, execution_count and outputs removed; optionally the source edited too)
    and / or drops the display flags metadata.collapsed / scrolled -- while the other side only re-executes X: a new
    execution_count (from a number or from null), the same outputs (none / a stream / a stream and an execute_result whose
    own execution_count follows), optionally the display flags toggled.  Everything the re-executing side changes is
    transient, so with transients ignored the removal simply wins.  Both orientations."""
    out = []
    stream = {'output_type': 'stream', 'name': 'stdout', 'text': 'out\n'}
    for removal in removals:
        for rerun in reruns:
            ec = None if rerun == 'count_from_null' else 2
            outs = [] if rerun in ('count_noout', 'count_from_null') else [copy.deepcopy(stream)]
            if rerun == 'count_result': outs.append({'output_type': 'execute_result', 'data': {'text/plain': '2'}, 'metadata': {}, 'execution_count': ec})
            md = {'collapsed': False, 'scrolled': False, 'name': 'x'} if (rerun == 'count_flags' or removal.endswith('drop_flags')) else {}
            base = _nb(minor, [_code(minor, 'a = 1\n', 0, ec=1),
                               _code(minor, 'first line of the text\nsecond line of the text\nthird line\n', 1, outputs=outs, ec=ec, metadata=md),
                               _md(minor, 'closing remarks\n', 2)])
            removed = copy.deepcopy(base); _apply_removal(removed['cells'][1], removal)
            reran = copy.deepcopy(base)
            _rerun_counts_only(reran['cells'][1], 7, ('collapsed', 'scrolled') if (rerun == 'count_flags' or removal == 'drop_flags') else ())
            out.append(('rm_vs_transient:%s:%s:local_removes' % (removal, rerun), base, removed, reran))
            out.append(('rm_vs_transient:%s:%s:remote_removes' % (removal, rerun), base, copy.deepcopy(reran), copy.deepcopy(removed)))
    return out


def removed_vs_transient_triple(r):
    """generated version: a random notebook (any minor, mostly 4.5) with an executed code cell X (random outputs, random
    metadata incl. display flags); one side removes keys of X (retypes it to markdown / raw, maybe edits its source, maybe
    drops display flags), the other side changes only transient fields of X (execution counts, display flags); either side
    may also edit another cell.  Either orientation."""
    minor = r.choice([0, 2, 3, 4, 4, 5, 5, 5, 5, 5]); used = set()
    cells = [gennb.gen_cell(r, minor, used, rich=False) for _ in range(r.choice([1, 1, 2, 3, 4]))]
    i = r.randrange(len(cells))
    x = gennb.gen_cell(r, minor, used, rich=r.random() < 0.5, kind='code')
    ec = None if r.random() < 0.15 else r.randint(1, 40)
    x['execution_count'] = ec
    x['outputs'] = [] if ec is None else [gennb.gen_output(r, ec, rich=False, kind=r.choice(['stream', 'stream', 'execute_result', 'display_data', 'error']))
                                          for _ in range(r.choice([0, 1, 1, 2, 3]))]
    for o in x['outputs']:
        if o['output_type'] == 'execute_result': o['execution_count'] = ec
    flags = r.sample(['collapsed', 'scrolled'], r.choice([0, 0, 1, 2]))
    for f in ('collapsed', 'scrolled'): x['metadata'].pop(f, None)
    for f in flags: x['metadata'][f] = r.choice([True, False])
    cells[i] = x
    b = {'cells': cells, 'metadata': {}, 'nbformat': 4, 'nbformat_minor': minor}
    removal = r.choice(REMOVALS if flags else REMOVALS[:3])
    removed = copy.deepcopy(b); _apply_removal(removed['cells'][i], removal)
    reran = copy.deepcopy(b)
    tog = [f for f in flags if r.random() < (0.9 if removal == 'drop_flags' else 0.4)]
    if removal == 'drop_flags' and not tog: tog = flags[:1]
    _rerun_counts_only(reran['cells'][i], (ec or 0) + r.randint(1, 30), tog)
    rest = [j for j in range(len(cells)) if j != i]
    for side in (removed, reran):
        if rest and r.random() < 0.3:
            j = r.choice(rest)
            side['cells'][j]['source'] = gennb.edit_source_text(r, side['cells'][j]['source'], side['cells'][j]['cell_type'], 'line')
            rest = [k for k in rest if k != j]
    if r.random() < 0.5: return ('rm_vs_transient:%s:gen:local_removes@4.%d' % (removal, minor), b, removed, reran)
    return ('rm_vs_transient:%s:gen:remote_removes@4.%d' % (removal, minor), b, reran, removed)


def removed_vs_transient_triples(r, n):
    """hand-made product at 4.5 (cells matched by id: the removal meets the transient change inside ONE cell), a rotating
    part of it at each older minor (there a retyped cell is a delete + insert), then n generated triples"""
    out = [('hand:%s@4.5' % nm, b, l, rm) for nm, b, l, rm in removed_vs_transient_handmade(5)]
    for k in range(5):
        hm = removed_vs_transient_handmade(k)
        out += [('hand:%s@4.%d' % (nm, k), b, l, rm) for j, (nm, b, l, rm) in enumerate(hm) if j % 5 == k]
    for _ in range(n): out.append(removed_vs_transient_triple(r))
    return out
