// Runs nbdime's TypeScript patch / decision code on JSON-lines tasks.
//   node --import ./c15_register.mjs c15_run.mjs <tasks.jsonl> <results.jsonl>      (NBDIME_REPO selects the tree)
// task ops: patch {base, diff} | split {s} | apply {base, decisions} | action {action} | resolve {base, decision}
// result: {"ok": value} or {"err": "<ErrorClass>", "msg": "..."}
import { readFileSync, writeFileSync } from 'node:fs';
import { pathToFileURL } from 'node:url';
import { join } from 'node:path';
const REPO = process.env.NBDIME_REPO || '/repo';
const SRC = join(REPO, 'packages', 'nbdime', 'src');
console.warn = () => {}; console.log = () => {}; console.error = () => {};
const imp = (p) => import(pathToFileURL(join(SRC, p)).href);
const generic = await imp('patch/generic.ts');
const util = await imp('common/util.ts');
let decisions = null, decErr = null;
try { decisions = await imp('merge/decisions.ts'); } catch (e) { decErr = e; }

function canon(v) {
  // own enumerable properties only, keys sorted; mirrors what JSON serialisation of the result would keep
  if (v === null || typeof v !== 'object') return v === undefined ? { __undefined__: true } : v;
  if (Array.isArray(v)) return Array.from(v, canon);
  const o = {};
  for (const k of Object.keys(v).sort()) Object.defineProperty(o, k, { value: canon(v[k]), enumerable: true, configurable: true, writable: true });
  return o;
}
function run(t) {
  if (t.op === 'patch') return generic.patch(t.base, t.diff);
  if (t.op === 'split') return util.splitLines(t.s);
  if (t.op === 'action' || t.op === 'apply' || t.op === 'resolve') {
    if (!decisions) throw decErr;
    if (t.op === 'action') { const d = new decisions.MergeDecision({ common_path: [], action: t.action }); return d.action; }
    if (t.op === 'apply') {
      const mds = t.decisions.map((d) => new decisions.MergeDecision(d));
      return decisions.applyDecisions(t.base, mds);
    }
    if (t.op === 'resolve') {
      const md = new decisions.MergeDecision(t.decision);
      return decisions.applyDecisions(t.base, [md]);
    }
  }
  throw new Error('unknown op ' + t.op);
}
const lines = readFileSync(process.argv[2], 'utf8').split('\n').filter((l) => l.length > 0);
const out = [];
for (const ln of lines) {
  let r;
  try { r = { ok: canon(run(JSON.parse(ln))) }; }
  catch (e) { r = { err: (e && e.constructor && e.constructor.name) || 'Error', msg: String(e && e.message).slice(0, 300) }; }
  out.push(JSON.stringify(r));
}
writeFileSync(process.argv[3], out.join('\n') + '\n');
