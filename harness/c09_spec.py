"""Independent reading of the published merge-decision format (docs/source/merging.rst + merge_format.schema.json):
an applier built on pyspec.spec_patch that shares no code with nbdime, the 'choose one side' relabelling used by the
web merge tool, and the ordering clause.  Pure functions on plain JSON values."""
import copy
import pyspec


class ApplyError(Exception):
    pass


def _cleared(v):
    if isinstance(v, list): return []
    if isinstance(v, dict): return {}
    if isinstance(v, str): return ''
    return None


def _is_int(x): return isinstance(x, int) and not isinstance(x, bool)


def resolve_action(obj, dec):
    """the diff (relative to the object at common_path) that a decision stands for"""
    a = dec.get('action')
    ld = dec.get('local_diff') or []; rd = dec.get('remote_diff') or []
    if a == 'base': return []
    if a in ('local', 'either'): return list(ld)
    if a == 'remote': return list(rd)
    if a == 'custom': return list(dec.get('custom_diff') or [])
    if a == 'local_then_remote': return list(ld) + list(rd)
    if a == 'remote_then_local': return list(rd) + list(ld)
    if a in ('clear', 'remove', 'take_max'):
        keys = set(e['key'] for e in ld + rd)
        if len(keys) != 1: raise ApplyError('action %s needs exactly one key, got %r' % (a, sorted(keys, key=str)))
        key = keys.pop()
        if a == 'clear':
            if isinstance(obj, list):    # a sequence item is replaced by its cleared value (insert + remove at the same index)
                return [{'op': 'addrange', 'key': key, 'valuelist': [_cleared(obj[key])]}, {'op': 'removerange', 'key': key, 'length': 1}]
            return [{'op': 'replace', 'key': key, 'value': _cleared(obj[key])}]
        if a == 'remove':
            if isinstance(obj, (list, str)): return [{'op': 'removerange', 'key': key, 'length': 1}]
            return [{'op': 'remove', 'key': key}]
        bval = obj[key]
        lval = ld[0]['value'] if ld else bval
        rval = rd[0]['value'] if rd else bval
        m = max(bval, lval, rval)
        return [] if m == bval else [{'op': 'replace', 'key': key, 'value': m}]
    if a == 'clear_all':
        if isinstance(obj, dict): return [{'op': 'remove', 'key': k} for k in obj]
        return [{'op': 'removerange', 'key': 0, 'length': len(obj) if not isinstance(obj, str) else len(pyspec.splitlines_keepends(obj))}]
    raise ApplyError('action %r is not defined' % (a,))


def combine(diff):
    """several decisions of one path group may each patch the same key: merge those patch entries (recursively);
    everything else is kept, ordered by key for sequences (stable), as the documented simultaneous semantics wants"""
    out = []; patches = {}
    for e in diff:
        if e['op'] == 'patch':
            k = e['key']; kk = (type(k).__name__, k)
            if kk in patches:
                patches[kk]['diff'] = patches[kk]['diff'] + list(e['diff'])
            else:
                p = {'op': 'patch', 'key': k, 'diff': list(e['diff'])}
                patches[kk] = p; out.append(p)
        else:
            out.append(e)
    for p in patches.values(): p['diff'] = combine(p['diff'])
    return out


def _replace_mapping_ops(obj, diff):
    """spec_patch handles one op per mapping key; local_then_remote style concatenations may hold add+add /
    replace+replace on the same key, of which the later wins (sequential reading)"""
    if not isinstance(obj, dict): return diff
    last = {}
    for i, e in enumerate(diff): last[e['key']] = i
    return [e for i, e in enumerate(diff) if last[e['key']] == i]


def split_path(doc, path):
    """a path may end inside a string (line index [, char index]); returns (container path, rest)"""
    cur = doc
    for i, k in enumerate(path):
        if isinstance(cur, str): return list(path[:i]), list(path[i:])
        cur = cur[k]
    return list(path), []


def apply_decisions(base, decisions):
    merged = copy.deepcopy(base)
    i = 0; n = len(decisions)
    while i < n:
        path, _ = split_path(merged, decisions[i].get('common_path') or [])
        # the path group: consecutive decisions addressing the same container
        j = i; group = []
        while j < n:
            p2, line2 = split_path(merged, decisions[j].get('common_path') or [])
            if p2 != path: break
            group.append((decisions[j], line2)); j += 1
        obj = merged
        for k in path: obj = obj[k]
        diffs = []
        ca = [g for g in group if g[0].get('action') == 'clear_all']
        if ca: group = [ca[0]]
        for dec, line in group:
            d = resolve_action(obj, dec)
            for k in reversed(line): d = [{'op': 'patch', 'key': k, 'diff': d}]
            diffs += d
        diffs = _replace_mapping_ops(obj, combine(diffs))
        new = pyspec.spec_patch(obj, diffs)
        if not path: merged = new
        else:
            parent = merged
            for k in path[:-1]: parent = parent[k]
            parent[path[-1]] = new
        i = j
    return merged


def relabel(decisions, side):
    out = []
    for d in decisions:
        d = copy.deepcopy(d)
        d['action'] = side
        if d.get(side + '_diff') is None: d[side + '_diff'] = []
        out.append(d)
    return out


def is_strict_prefix(p, q):
    return len(p) < len(q) and list(q[:len(p)]) == list(p)


def order_problems(decisions):
    """pairs (i, j), i < j, where decision i sits on a strict prefix of decision j's path (an enclosing document is
    decided before something inside it)"""
    out = []
    paths = [list(d.get('common_path') or []) for d in decisions]
    for i in range(len(paths)):
        for j in range(i + 1, len(paths)):
            if is_strict_prefix(paths[i], paths[j]): out.append((i, j))
    return out
