"""Case family of the C10 check: CONFLICTS ON THE CELL ID.

The notebook strategy table gives every field that can conflict either a strategy the leaf resolution implements
(use-X, clear, take-max, union) or a container strategy handled further out (inline-*, record-conflict, remove on outputs,
clear-all) -- with one exception: '/cells/*/id' carries 'remove', which the leaf resolution does not implement.  A conflict
on a cell's id is therefore the one leaf conflict that, under a use-X strategy, cannot be settled where it arises and has to
be settled by the use-X that sits further out (the cell, the cell list, the root).  The random triples of gennb never make
both branches change the id of one cell, so this path needs its own family.

A triple of the family = a generated notebook + an ID SCENARIO + an ACCOMPANIMENT, both cycled systematically:

  id scenarios
    reid-both          4.5 base; both branches give the same cell(s) a new, different id (some further cells may be
                       re-id'd on one branch only, or get the SAME new id on both = agreement)
    upgrade-both       4.0..4.4 base (no ids); both branches upgrade to 4.5, every cell gets an id, different on the two
                       branches for at least one cell (add/add)
    downgrade-vs-reid  4.5 base; one branch downgrades to 4.4 (ids removed), the other re-ids some cell(s) (remove/replace)
  accompaniments
    none               nothing else changes
    same-cell-source   both branches also edit the source of a re-id'd cell differently
    other-conflict     one of gennb's alignment-preserving forced collisions somewhere in the notebook
    one-sided-edit     one branch also edits a re-id'd cell (source / metadata / outputs), the other leaves it alone

All three notebooks of a triple are schema-valid for their own minor version (checked here, gennb.validate)."""
import copy
import gennb

SCENARIOS = ('reid-both', 'upgrade-both', 'downgrade-vs-reid')
ACCOMPANIMENTS = ('none', 'same-cell-source', 'other-conflict', 'one-sided-edit')
ALIGNED_KINDS = ('source_source', 'output_output', 'metadata_metadata', 'nb_metadata', 'attachment_attachment', 'outputs_rerun', 'type_source')


def _strip_ids(nb, minor):
    for c in nb['cells']: c.pop('id', None)
    nb['nbformat_minor'] = minor


def id_conflict_triple(r, scenario, accompaniment):
    """-> {'b','l','r','src','hit'}: hit = indices (aligned in all three) of the cells whose id the branches disagree on"""
    rich = r.random() < 0.5
    ncells = r.choice([1, 2, 2, 3, 4])
    base = gennb.gen_notebook(r, minor=5, ncells=ncells, rich=rich)
    used = gennb.used_ids(base)
    if scenario == 'upgrade-both': _strip_ids(base, r.choice([0, 2, 4, 4, 4]))
    local = copy.deepcopy(base); remote = copy.deepcopy(base)
    n = len(base['cells'])
    hit = sorted(r.sample(range(n), r.randint(1, n)))
    # accompaniment first: gennb's forced collisions want cells that are still copies of the base cell
    if accompaniment == 'other-conflict':
        for _try in range(8):
            if gennb.force_conflict(r, base, local, remote, used, kind=r.choice(ALIGNED_KINDS)) is not None: break
    elif accompaniment == 'same-cell-source':
        i = r.choice(hit); cb = base['cells'][i]; t = cb['cell_type']
        local['cells'][i]['source'] = gennb.edit_source_text(r, cb['source'], t, r.choice(['tiny', 'line', None]))
        for _try in range(5):
            remote['cells'][i]['source'] = gennb.edit_source_text(r, cb['source'], t, r.choice(['tiny', 'line', None]))
            if remote['cells'][i]['source'] != local['cells'][i]['source']: break
    elif accompaniment == 'one-sided-edit':
        side = r.choice([local, remote])
        gennb._own_edit(r, side['cells'][r.choice(hit)], True)
    assert len(local['cells']) == n and len(remote['cells']) == n
    # the id scenario
    if scenario == 'reid-both':
        for i in range(n):
            if i in hit:
                local['cells'][i]['id'] = gennb.gen_id(r, used); remote['cells'][i]['id'] = gennb.gen_id(r, used)
            else:
                c = r.random()
                if c < 0.2: r.choice([local, remote])['cells'][i]['id'] = gennb.gen_id(r, used)          # one branch only
                elif c < 0.3: local['cells'][i]['id'] = remote['cells'][i]['id'] = gennb.gen_id(r, used)   # agreement
    elif scenario == 'upgrade-both':
        local['nbformat_minor'] = remote['nbformat_minor'] = 5
        for i in range(n):
            local['cells'][i]['id'] = gennb.gen_id(r, used)
            remote['cells'][i]['id'] = gennb.gen_id(r, used) if (i in hit or r.random() < 0.6) else local['cells'][i]['id']
    elif scenario == 'downgrade-vs-reid':
        down, other = (local, remote) if r.random() < 0.5 else (remote, local)
        _strip_ids(down, 4)
        for i in hit: other['cells'][i]['id'] = gennb.gen_id(r, used)
    else:
        raise ValueError(scenario)
    for k, nb in (('base', base), ('local', local), ('remote', remote)):
        probs = gennb.validate(nb)
        if probs: raise AssertionError('c10_gen produced an invalid %s notebook (%s/%s): %s' % (k, scenario, accompaniment, probs[:2]))
    return {'b': base, 'l': local, 'r': remote, 'src': 'id-conflict:%s+%s' % (scenario, accompaniment), 'hit': hit}


def id_conflict_triples(r, n):
    """n triples; scenario x accompaniment cycled so that every combination occurs once per 12 triples"""
    out = []
    for i in range(n):
        out.append(id_conflict_triple(r, SCENARIOS[i % len(SCENARIOS)], ACCOMPANIMENTS[(i // len(SCENARIOS)) % len(ACCOMPANIMENTS)]))
    return out


def id_conflicts(decisions):
    """conflicted decisions (of an open run) whose diffs touch a cell's 'id' key: common_path ['cells', i]"""
    out = []
    for d in decisions:
        p = d.get('common_path') or []
        if d.get('conflict') and len(p) == 2 and p[0] == 'cells':
            if any(e.get('key') == 'id' for side in ('local_diff', 'remote_diff') for e in (d.get(side) or [])): out.append(d)
    return out
