"""Implementation runner for C03 / C10 (executed by /venv/bin/python with PYTHONPATH=$NBDIME_REPO, never imported by
the harness).   usage: c03_runner.py <tasks.json> <results.json>
Tasks:
  {"op": "merge_all", "b":…, "l":…, "r":…, "cfgs": [[merge, input, output, ignore_transients, how], …]}
        how = "cli": args from the real nbmerge parser via its command-line flags; "web": ApiMergeHandler's recipe
        (default parse + merge_strategy attribute); "attr": default parse + attributes set (for non-CLI values)
        -> {"res": [ {"ok": {"ndec": n, "nconf": k}} | {"err": cls, "frame": "file:function", "line": n, "msg": …}, … ]}
  {"op": "merge_full", … same … } -> per cfg {"ok": {"merged": nb, "decisions": [...]}} | error
  {"op": "apply", "b":…, "decisions": [...]} -> {"ok": merged} | error
  {"op": "tools"} -> which external helpers this process sees
"""
import sys, os, json, copy, traceback, logging


def exc_info(e):
    tb = traceback.extract_tb(e.__traceback__)
    frame = None; line = None
    for fr in tb:
        fn = fr.filename.replace('\\', '/')
        if '/nbdime/' in fn and '/harness/' not in fn:
            frame = 'nbdime/' + fn.split('/nbdime/')[-1] + ':' + fr.name; line = fr.lineno
    return {'err': type(e).__name__, 'frame': frame, 'line': line, 'msg': str(e)[:300]}


_parser = None
def parser():
    global _parser
    if _parser is None:
        import nbdime.nbmergeapp as A
        _parser = A._build_arg_parser()
    return _parser


def flag(dest):
    for a in parser()._actions:
        if a.dest == dest: return a.option_strings[0]
    raise KeyError(dest)


def make_args(m, i, o, t, how):
    p = parser()
    if how == 'cli':
        argv = []
        if m is not None: argv += [flag('merge_strategy'), m]
        if i is not None: argv += [flag('input_strategy'), i]
        if o is not None: argv += [flag('output_strategy'), o]
        if not t: argv += [flag('ignore_transients')]
        return p.parse_args(argv + ['b.ipynb', 'l.ipynb', 'r.ipynb'])
    args = p.parse_args(['', '', ''])
    if how == 'web':
        args.merge_strategy = m
        return args
    args.merge_strategy = m; args.input_strategy = i; args.output_strategy = o; args.ignore_transients = t
    return args


def as_nb(x):
    import nbformat
    return nbformat.from_dict(copy.deepcopy(x))


def clean(x):
    if isinstance(x, dict): return {k: clean(v) for k, v in x.items()}
    if isinstance(x, (list, tuple)): return [clean(v) for v in x]
    return x


def to_decisions(decs):
    from nbdime.merging.decisions import MergeDecision
    from nbdime.diff_utils import to_diffentry_dicts
    out = []
    for d in decs:
        kw = dict(d)
        kw['common_path'] = tuple(kw['common_path'])
        for k in ('local_diff', 'remote_diff', 'custom_diff', 'similar_insert'):
            if kw.get(k) is not None: kw[k] = to_diffentry_dicts(copy.deepcopy(kw[k]))
        out.append(MergeDecision(**kw))
    return out


def run_task(t):
    op = t['op']
    if op == 'tools':
        import nbdime.prettyprint as PP
        return {'ok': {'git': bool(PP.which('git')), 'diff3': bool(PP.which('diff3'))}}
    if op == 'choices':
        out = {}
        for a in parser()._actions:
            if a.dest in ('merge_strategy', 'input_strategy', 'output_strategy'):
                out[a.dest] = {'choices': list(a.choices), 'default': a.default}
            if a.dest == 'ignore_transients':
                out[a.dest] = {'default': a.default, 'flag': a.option_strings[0]}
        return {'ok': out}
    if op in ('merge_all', 'merge_full'):
        from nbdime.merging.notebooks import merge_notebooks
        res = []
        for (m, i, o, tr, how) in t['cfgs']:
            try:
                args = make_args(m, i, o, tr, how)
                out = merge_notebooks(as_nb(t['b']), as_nb(t['l']), as_nb(t['r']), args)
                merged, decisions = out          # "returns (merged, decisions)"
                if not isinstance(merged, dict) or not isinstance(decisions, list): raise TypeError('merge_notebooks returned %r' % (type(out),))
                if op == 'merge_all':
                    res.append({'ok': {'ndec': len(decisions), 'nconf': sum(1 for d in decisions if d.conflict)}})
                else:
                    res.append({'ok': {'merged': clean(merged), 'decisions': clean(decisions)}})
            except Exception as e:
                res.append(exc_info(e))
        return {'res': res}
    if op == 'apply':
        from nbdime.merging.decisions import apply_decisions
        merged = apply_decisions(as_nb(t['b']), to_decisions(t['decisions']))
        return {'ok': clean(merged)}
    raise ValueError('unknown op ' + op)


def main():
    logging.disable(logging.CRITICAL)        # nbdime logs warnings/errors for unknown strategies; they are not exceptions
    tasks = json.load(open(sys.argv[1]))
    results = []
    for t in tasks:
        try:
            results.append(run_task(t))
        except Exception as e:
            results.append(exc_info(e))
    json.dump(results, open(sys.argv[2], 'w'))


if __name__ == '__main__':
    main()
