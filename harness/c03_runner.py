"""Implementation runner for C03 / C10 (executed by /venv/bin/python with PYTHONPATH=$NBDIME_REPO, never imported by
the harness).   usage: c03_runner.py <tasks.json> <results.json>
Tasks:
  {"op": "merge_all", "b":…, "l":…, "r":…, "cfgs": [[merge, input, output, ignore_transients, how], …]}
        how = "cli": args from the real nbmerge parser via its command-line flags; "web": ApiMergeHandler's recipe
        (default parse + merge_strategy attribute); "attr": default parse + attributes set (for non-CLI values)
        -> {"res": [ {"ok": {"ndec": n, "nconf": k}} | {"err": cls, "frame": "file:function", "line": n, "msg": …}, … ]}
  {"op": "merge_full", … same … } -> per cfg {"ok": {"merged": nb, "decisions": [...]}} | error
  {"op": "apply", "b":…, "decisions": [...]} -> {"ok": merged} | error
  {"op": "tools"} -> which external helpers this process sees
  {"op": "locale"} -> the encodings this process uses (files opened without an encoding, file names, stdout), its temp directory
"""
import sys, os, json, copy, traceback, logging


def exc_info(e):
    tb = traceback.extract_tb(e.__traceback__)
    frame = None; line = None
    for fr in tb:
        fn = fr.filename.replace('\\', '/')
        if '/nbdime/' in fn and '/harness/' not in fn:
            frame = 'nbdime/' + fn.split('/nbdime/')[-1] + ':' + fr.name; line = fr.lineno
    return {'err': type(e).__name__, 'frame': frame, 'line': line, 'msg': str(e)[:300]}


_parser = None
def parser():
    global _parser
    if _parser is None:
        import nbdime.nbmergeapp as A
        _parser = A._build_arg_parser()
    return _parser


def flag(dest):
    for a in parser()._actions:
        if a.dest == dest: return a.option_strings[0]
    raise KeyError(dest)


def make_args(m, i, o, t, how):
    p = parser()
    if how == 'cli':
        argv = []
        if m is not None: argv += [flag('merge_strategy'), m]
        if i is not None: argv += [flag('input_strategy'), i]
        if o is not None: argv += [flag('output_strategy'), o]
        if not t: argv += [flag('ignore_transients')]
        return p.parse_args(argv + ['b.ipynb', 'l.ipynb', 'r.ipynb'])
    args = p.parse_args(['', '', ''])
    if how == 'web':
        args.merge_strategy = m
        return args
    args.merge_strategy = m; args.input_strategy = i; args.output_strategy = o; args.ignore_transients = t
    return args


def as_nb(x):
    import nbformat
    return nbformat.from_dict(copy.deepcopy(x))


def clean(x):
    if isinstance(x, dict): return {k: clean(v) for k, v in x.items()}
    if isinstance(x, (list, tuple)): return [clean(v) for v in x]
    return x


def to_decisions(decs):
    from nbdime.merging.decisions import MergeDecision
    from nbdime.diff_utils import to_diffentry_dicts
    out = []
    for d in decs:
        kw = dict(d)
        kw['common_path'] = tuple(kw['common_path'])
        for k in ('local_diff', 'remote_diff', 'custom_diff', 'similar_insert'):
            if kw.get(k) is not None: kw[k] = to_diffentry_dicts(copy.deepcopy(kw[k]))
        out.append(MergeDecision(**kw))
    return out


DISPATCHERS = ['tryresolve', 'resolve_strategy_generic', 'resolve_conflicted_decisions_list',
               'resolve_conflicted_decisions_dict', 'resolve_conflicted_decisions_strings']


def probe():
    """Run the five real dispatchers on every strategy string of a universe and report the observable effect."""
    import itertools
    import nbdime.log
    import nbdime.merging.strategies as S
    import nbdime.merging.generic as G
    import nbdime.merging.notebooks as N
    from nbdime.merging.decisions import MergeDecisionBuilder
    from nbdime.diff_format import op_replace, op_addrange
    universe = list(N.generic_conflict_strategies)
    p = parser()
    ch = {a.dest: list(a.choices) for a in p._actions if a.dest in ('merge_strategy', 'input_strategy', 'output_strategy')}
    for m in ch['merge_strategy']:
        for i in [None] + ch['input_strategy']:
            for o in [None] + ch['output_strategy']:
                for v in dict(N.notebook_merge_strategies(make_args(m, i, o, True, 'attr'))).values():
                    if v is not None: universe.append(v)
    universe += ['inline-attachments', 'inline', 'zz-unknown', 'use-', 'use-other', '', 'mergetool', 'USE-LOCAL', 'use-local ', 'fail', 'take-max']
    seen = set(); uni = []
    for s in universe:
        if s not in seen: seen.add(s); uni.append(s)
    out = []
    callees = [n for n in dir(S) if n.startswith('resolve_strategy_') and n != 'resolve_strategy_generic' and callable(getattr(S, n))]
    for di, disp in enumerate(DISPATCHERS):
        for s in uni:
            events = []
            saved = {n: getattr(S, n) for n in callees}
            saved_log = (nbdime.log.error, nbdime.log.warning)
            for n in callees:
                setattr(S, n, (lambda nm: (lambda *a, **k: events.append('called:' + nm)))(n))
            nbdime.log.error = lambda *a, **k: events.append('error')
            nbdime.log.warning = lambda *a, **k: events.append('warning')
            try:
                if disp.endswith('strings'):
                    path = ('source',); base = 'x\ny\n'
                    ld, rd = [op_addrange(0, ['a\n'])], [op_addrange(0, ['b\n'])]
                elif disp.endswith('dict'):
                    path = ('metadata',); base = {'k': 0, 'd': {'a': 0}}
                    ld, rd = [op_replace('k', 1)], [op_replace('k', 2)]
                else:
                    path = ('cells',); base = [{'a': 0}, 'x']
                    ld, rd = [op_addrange(1, ['a'])], [op_addrange(1, ['b'])]
                B = MergeDecisionBuilder()
                B.conflict(path, ld, rd)
                B.custom(path, ld, rd, [], conflict=True, strategy='marked')
                sub = ('d',) if disp.endswith('dict') else (0,)
                if disp.endswith('dict'):
                    B.conflict(path + sub, [op_replace('a', 1)], [op_replace('a', 2)])
                else:   # int-keyed ops on purpose: collect_diffs sorts the diffs of all levels together
                    B.conflict(path + sub, [op_addrange(0, ['p'])], [op_addrange(0, ['q'])])
                ret = None; raised = None
                try:
                    if disp == 'tryresolve':
                        ret = B.tryresolve(path, ld, rd, s)
                    elif disp == 'resolve_strategy_generic':
                        S.resolve_strategy_generic(path, B, s)
                    elif disp.endswith('strings'):
                        S.resolve_conflicted_decisions_strings(path, B, s)
                    else:
                        getattr(S, disp)(path, base, B, s)
                except Exception as e:
                    raised = type(e).__name__
                decs = [[d.action, bool(d.conflict)] for d in B.decisions]
            finally:
                for n, f in saved.items(): setattr(S, n, f)
                nbdime.log.error, nbdime.log.warning = saved_log
            out.append({'d': di, 's': s, 'ret': ret, 'raise': raised, 'events': sorted(set(events)), 'decs': decs})
    return out


def run_task(t):
    op = t['op']
    if op == 'tools':
        import nbdime.prettyprint as PP
        return {'ok': {'git': bool(PP.which('git')), 'diff3': bool(PP.which('diff3'))}}
    if op == 'probe':
        return {'ok': probe()}
    if op == 'locale':
        import locale, tempfile
        return {'ok': {'preferred': locale.getpreferredencoding(False), 'fs': sys.getfilesystemencoding(), 'stdout': getattr(sys.stdout, 'encoding', None),
                       'utf8_mode': int(sys.flags.utf8_mode), 'tmp_ascii': all(ord(c) < 128 for c in tempfile.gettempdir())}}
    if op == 'clear_all':
        # the real clear-all arm of resolve_conflicted_decisions_list on given builders (decisions installed as they are)
        import nbdime.merging.strategies as S
        from nbdime.merging.decisions import MergeDecisionBuilder
        out = []
        for c in t['cases']:
            B = MergeDecisionBuilder()
            B.decisions = to_decisions(c['decisions'])
            try:
                S.resolve_conflicted_decisions_list(tuple(c['path']), c['base'], B, 'clear-all')
                out.append({'ok': clean([dict(d) for d in B.decisions])})
            except Exception as e:
                out.append({'err': type(e).__name__})
        return {'ok': out}
    if op == 'choices':
        out = {}
        for a in parser()._actions:
            if a.dest in ('merge_strategy', 'input_strategy', 'output_strategy'):
                out[a.dest] = {'choices': list(a.choices), 'default': a.default}
            if a.dest == 'ignore_transients':
                out[a.dest] = {'default': a.default, 'flag': a.option_strings[0]}
        return {'ok': out}
    if op in ('merge_all', 'merge_full'):
        from nbdime.merging.notebooks import merge_notebooks
        res = []
        for (m, i, o, tr, how) in t['cfgs']:
            try:
                args = make_args(m, i, o, tr, how)
                out = merge_notebooks(as_nb(t['b']), as_nb(t['l']), as_nb(t['r']), args)
                merged, decisions = out          # "returns (merged, decisions)"
                if not isinstance(merged, dict) or not isinstance(decisions, list): raise TypeError('merge_notebooks returned %r' % (type(out),))
                if op == 'merge_all':
                    res.append({'ok': {'ndec': len(decisions), 'nconf': sum(1 for d in decisions if d.conflict)}})
                else:
                    res.append({'ok': {'merged': clean(merged), 'decisions': clean(decisions)}})
            except Exception as e:
                res.append(exc_info(e))
        return {'res': res}
    if op == 'apply':
        from nbdime.merging.decisions import apply_decisions
        merged = apply_decisions(as_nb(t['b']), to_decisions(t['decisions']))
        return {'ok': clean(merged)}
    raise ValueError('unknown op ' + op)


def main():
    logging.disable(logging.CRITICAL)        # nbdime logs warnings/errors for unknown strategies; they are not exceptions
    tasks = json.load(open(sys.argv[1]))
    import prelude
    prelude.maybe_abort_prelude()
    results = []
    for t in tasks:
        try:
            results.append(run_task(t))
        except Exception as e:
            results.append(exc_info(e))
    json.dump(results, open(sys.argv[2], 'w'))


if __name__ == '__main__':
    main()
