"""C16 -- generator of valid v4 notebooks, edited variants (pairs / triples) and renderer configurations.
Every random choice comes from the random.Random passed in.  Nothing here imports nbdime.
Texts deliberately contain conflict markers, non-ASCII, missing trailing newlines, base64 payloads.
No generated line starts with '## ' (the renderer's own header marker) and no text contains ESC, so that
header lines and ANSI escapes found in the output are the renderer's."""
import copy, base64, hashlib, itertools

CATS = ['sources', 'outputs', 'attachments', 'metadata', 'id', 'details']

U2028 = chr(0x2028)
LINES = [
    'import numpy as np', 'x = np.arange(10)', 'print(x)', 'def f(a, b):', '    return a + b', 'for i in range(3):',
    '    print(i)', '', '   ', '\tindented with tab', 'y = "héllo wörld ✓"', '# 日本語のコメント',
    '<<<<<<< local', '=======', '>>>>>>> remote', '||||||| base', '<<<<<<< HEAD', '@@ -1,2 +1,2 @@', '--- a/before', '+++ b/after',
    '- item', '+ plus', '< lt', '> gt', '# Title', '### Sub heading', 'Some *emphasis* and `code`', '![img](attachment:image.png)',
    'a' * 90, 'emoji \U0001F600 here', 'trailing space  ', '%matplotlib inline', '!ls -la', 'x\ty', '\\ backslash line',
]
EXOTIC_LINES = ['\\ No newline at end of file', 'form\x0cfeed', 'line' + U2028 + 'sep', 'nul-free \x7f del', 'cr\rinside']

def b64(r, n):
    raw = bytes(r.randrange(256) for _ in range(n))
    return base64.b64encode(raw).decode('ascii')

def gen_text(r, nlines=None, exotic=False, crlf=False):
    if nlines is None: nlines = r.choice([0, 1, 1, 2, 3, 4, 6, 10])
    pool = LINES + (EXOTIC_LINES if exotic else [])
    out = []
    for _ in range(nlines):
        out.append(r.choice(pool) + ('\r\n' if crlf and r.random() < 0.3 else '\n'))
    s = ''.join(out)
    if s and r.random() < 0.35: s = s[:-1]          # missing trailing newline
    return s

def edit_text(r, s, exotic=False):
    lines = s.splitlines(True)
    pool = LINES + (EXOTIC_LINES if exotic else [])
    for _ in range(r.choice([1, 1, 2, 3])):
        c = r.random()
        if c < 0.3 and lines:
            i = r.randrange(len(lines)); lines[i] = r.choice(pool) + '\n'
        elif c < 0.45 and lines:
            i = r.randrange(len(lines)); l = lines[i].rstrip('\n'); lines[i] = l + ' # edited\n'
        elif c < 0.7:
            lines.insert(r.randrange(len(lines) + 1), r.choice(pool) + '\n')
        elif c < 0.9 and lines:
            del lines[r.randrange(len(lines))]
        elif lines:
            l = lines[-1]
            lines[-1] = l[:-1] if l.endswith('\n') else l + '\n'     # toggle the trailing newline
    t = ''.join(lines)
    if t == s: t = s + 'changed'
    return t

def cell_id(r):
    return ''.join(r.choice('0123456789abcdef') for _ in range(8))

def gen_meta_value(r, depth=2):
    c = r.random()
    if depth == 0 or c < 0.5:
        return r.choice([True, False, None, 0, 1, 42, 1.5, 'value', 'hé', '12', 'multi\nline\ntext', 'x' * 100, b64(r, 60)])
    if c < 0.75:
        return [gen_meta_value(r, depth - 1) for _ in range(r.choice([0, 1, 2, 3]))]
    return {k: gen_meta_value(r, depth - 1) for k in r.sample(['a', 'b', 'key', '7', '+1', 'x y', 'tags', 'nön'], r.choice([0, 1, 2]))}

def gen_cell_metadata(r):
    md = {}
    if r.random() < 0.3: md['collapsed'] = r.choice([True, False])
    if r.random() < 0.3: md['tags'] = r.sample(['a', 'b', 'hide', 'skip'], r.choice([0, 1, 2]))
    if r.random() < 0.3: md['custom'] = gen_meta_value(r)
    if r.random() < 0.1: md['12'] = gen_meta_value(r, 1)
    return md

def gen_mimebundle(r):
    d = {}
    kinds = r.sample(['text/plain', 'text/html', 'image/png', 'application/json', 'image/svg+xml', 'text/latex'], r.choice([1, 1, 2, 3]))
    for k in kinds:
        if k == 'image/png': d[k] = b64(r, r.choice([48, 60, 90, 300])) + r.choice(['', '\n'])
        elif k == 'application/json': d[k] = {'a': [1, 2, {'b': None}], 'text': 'jäson'}
        elif k == 'image/svg+xml': d[k] = '<svg xmlns="http://www.w3.org/2000/svg">\n<circle r="%d"/>\n</svg>' % r.randrange(9)
        else: d[k] = gen_text(r, r.choice([1, 2, 3]))
    return d

def gen_output(r, exotic=False):
    t = r.choice(['stream', 'stream', 'display_data', 'execute_result', 'error'])
    if t == 'stream':
        return {'output_type': 'stream', 'name': r.choice(['stdout', 'stderr']), 'text': gen_text(r, r.choice([1, 2, 4]), exotic)}
    if t == 'display_data':
        return {'output_type': 'display_data', 'data': gen_mimebundle(r),
                'metadata': r.choice([{}, {}, {'isolated': True}, {'image/png': {'width': 640, 'height': 480}}, {'needs_background': 'light'}])}
    if t == 'execute_result':
        return {'output_type': 'execute_result', 'execution_count': r.choice([None, 1, 2, 17]), 'data': gen_mimebundle(r),
                'metadata': r.choice([{}, {}, {'custom': 1}])}
    return {'output_type': 'error', 'ename': r.choice(['ValueError', 'KeyError']), 'evalue': r.choice(['bad value', "'k'", 'müll']),
            'traceback': ['Traceback (most recent call last):', '  File "<stdin>", line 1', 'ValueError: bad value'][:r.choice([1, 2, 3])]}

def gen_attachments(r):
    return {name: {'image/png': b64(r, r.choice([30, 66, 120]))} for name in r.sample(['image.png', 'fig 1.png', 'bïld.png'], r.choice([1, 1, 2]))}

def gen_cell(r, minor, exotic=False):
    t = r.choice(['code', 'code', 'code', 'markdown', 'markdown', 'raw'])
    c = {'cell_type': t, 'metadata': gen_cell_metadata(r), 'source': gen_text(r, exotic=exotic, crlf=exotic)}
    if minor >= 5: c['id'] = cell_id(r)
    if t == 'code':
        c['execution_count'] = r.choice([None, 1, 2, 3, 10])
        c['outputs'] = [gen_output(r, exotic) for _ in range(r.choice([0, 0, 1, 1, 2, 3]))]
    elif r.random() < 0.35:
        c['attachments'] = gen_attachments(r)
    return c

def gen_nb_metadata(r):
    md = {}
    c = r.random()
    if c < 0.5:
        md['kernelspec'] = {'display_name': 'Python 3', 'language': 'python', 'name': 'python3'}
        md['language_info'] = {'name': 'python', 'version': '3.9.1', 'mimetype': 'text/x-python', 'file_extension': '.py'}
        if r.random() < 0.5: md['language_info']['pygments_lexer'] = r.choice(['ipython3', 'python3', 'python'])
        if r.random() < 0.3: md['language_info']['codemirror_mode'] = {'name': 'ipython', 'version': 3}
    elif c < 0.65:
        md['language_info'] = {'name': r.choice(['julia', 'R', 'no-such-language', 'c++', ''])}
    if r.random() < 0.3: md['custom'] = gen_meta_value(r)
    if r.random() < 0.15: md['authors'] = [{'name': 'A. Nöther'}]
    return md

def gen_notebook(r, ncells=None, exotic=False):
    minor = r.choice([2, 4, 5, 5, 5])
    if ncells is None: ncells = r.choice([0, 1, 2, 3, 4, 6])
    return {'nbformat': 4, 'nbformat_minor': minor, 'metadata': gen_nb_metadata(r),
            'cells': [gen_cell(r, minor, exotic) for _ in range(ncells)]}

# ------------------------------------------------------------------ edits, one category at a time
def _code_cells(nb): return [c for c in nb['cells'] if c['cell_type'] == 'code']

def edit_sources(r, nb, exotic=False):
    if not nb['cells']: return False
    c = r.choice(nb['cells']); c['source'] = edit_text(r, c['source'], exotic); return True

def edit_outputs(r, nb, exotic=False):
    cs = _code_cells(nb)
    if not cs: return False
    c = r.choice(cs); k = r.random()
    if k < 0.3 or not c['outputs']:
        c['outputs'].insert(r.randrange(len(c['outputs']) + 1), gen_output(r, exotic))
    elif k < 0.5:
        del c['outputs'][r.randrange(len(c['outputs']))]
    else:
        o = r.choice(c['outputs'])
        if o['output_type'] == 'stream': o['text'] = edit_text(r, o['text'], exotic)
        elif o['output_type'] == 'error': o['evalue'] = o['evalue'] + '!'; o['traceback'] = o['traceback'] + ['extra frame']
        else:
            key = r.choice(sorted(o['data']))
            v = o['data'][key]
            if isinstance(v, str): o['data'][key] = edit_text(r, v) if key != 'image/png' else b64(r, 90)
            else: o['data'][key] = {'a': [1, 3], 'text': 'changed'}
            if r.random() < 0.3: o['data']['text/markdown'] = '*new* mime\n'
    return True

def edit_output_metadata(r, nb):
    os_ = [o for c in _code_cells(nb) for o in c['outputs'] if 'metadata' in o]
    if not os_: return False
    o = r.choice(os_); o['metadata'] = dict(o['metadata'], changed=r.randrange(100)); return True

def edit_output_execution_count(r, nb):
    os_ = [o for c in _code_cells(nb) for o in c['outputs'] if o['output_type'] == 'execute_result']
    if not os_: return False
    o = r.choice(os_); o['execution_count'] = (o['execution_count'] or 0) + 1; return True

def edit_attachments(r, nb):
    cs = [c for c in nb['cells'] if c['cell_type'] != 'code']
    if not cs: return False
    c = r.choice(cs)
    if 'attachments' not in c: c['attachments'] = gen_attachments(r)
    elif r.random() < 0.4: del c['attachments']
    else:
        k = r.choice(sorted(c['attachments']))
        if r.random() < 0.5: c['attachments'][k] = {'image/png': b64(r, 80)}
        else: c['attachments']['new.png'] = {'image/png': b64(r, 70)}
    return True

def edit_cell_metadata(r, nb):
    if not nb['cells']: return False
    c = r.choice(nb['cells']); md = c['metadata']; k = r.random()
    if k < 0.4 or not md: md[r.choice(['new', 'extra', 'custom', '3'])] = gen_meta_value(r)
    elif k < 0.6: del md[r.choice(sorted(md))]
    else:
        key = r.choice(sorted(md)); old = md[key]
        if key == 'collapsed': md[key] = not old
        elif key == 'tags': md[key] = old + ['tag%d' % len(old)] if 'tag%d' % len(old) not in old else old[:-1]
        else:
            new = gen_meta_value(r); md[key] = new if new != old else [old]
    return True

def edit_nb_metadata(r, nb):
    md = nb['metadata']; k = r.random()
    if k < 0.4 or not md: md[r.choice(['custom', 'extra', '5'])] = gen_meta_value(r)
    elif k < 0.55: del md[r.choice(sorted(md))]
    elif isinstance(md.get('language_info'), dict) and k < 0.8:
        md['language_info'] = dict(md['language_info'], version='3.10.%d' % r.randrange(9))
    else:
        free = [x for x in sorted(md) if x not in ('kernelspec', 'language_info', 'authors')]
        if not free: md['extra'] = gen_meta_value(r); return True
        key = r.choice(free); old = md[key]; new = gen_meta_value(r)
        md[key] = new if new != old else [old]
    return True

def edit_id(r, nb):
    cs = [c for c in nb['cells'] if 'id' in c]
    if not cs: return False
    r.choice(cs)['id'] = cell_id(r); return True

def edit_details(r, nb):
    k = r.random(); cs = _code_cells(nb)
    if k < 0.6 and cs:
        c = r.choice(cs); c['execution_count'] = (c['execution_count'] or 0) + 1; return True
    if k < 0.8:
        if nb['nbformat_minor'] >= 5: return False
        nb['nbformat_minor'] = {2: 4, 4: 2}.get(nb['nbformat_minor'], 4); return True
    return edit_output_execution_count(r, nb)

def edit_cells(r, nb, exotic=False):
    k = r.random()
    if k < 0.4 or not nb['cells']:
        nb['cells'].insert(r.randrange(len(nb['cells']) + 1), gen_cell(r, nb['nbformat_minor'], exotic))
    elif k < 0.7: del nb['cells'][r.randrange(len(nb['cells']))]
    elif k < 0.85 and len(nb['cells']) > 1:
        c = nb['cells'].pop(r.randrange(len(nb['cells']))); nb['cells'].insert(r.randrange(len(nb['cells']) + 1), c)
    else:
        c = r.choice(nb['cells'])
        if c['cell_type'] == 'code':
            c['cell_type'] = 'markdown'; c.pop('outputs'); c.pop('execution_count')
        else:
            c['cell_type'] = 'code'; c['outputs'] = []; c['execution_count'] = None; c.pop('attachments', None)
    return True

EDITS = {
    'sources': edit_sources, 'outputs': edit_outputs, 'output_metadata': edit_output_metadata,
    'attachments': edit_attachments, 'cell_metadata': edit_cell_metadata, 'nb_metadata': edit_nb_metadata,
    'id': edit_id, 'details': edit_details, 'cells': edit_cells,
}

def mutate(r, nb, kinds=None, n=None, exotic=False):
    """returns (edited deep copy, list of edit kinds applied)"""
    b = copy.deepcopy(nb)
    if n is None: n = r.choice([1, 1, 2, 3, 5])
    applied = []
    for _ in range(n):
        k = r.choice(kinds or list(EDITS))
        f = EDITS[k]
        ok = f(r, b, exotic) if k in ('sources', 'outputs', 'cells') else f(r, b)
        if ok: applied.append(k)
    return b, applied

# ------------------------------------------------------------------ configurations
RENDERERS = ['git', 'diff', 'difflib']

def subset_flags(mask):
    """bit i set = category CATS[i] is IGNORED"""
    return {c: not (mask >> i) & 1 for i, c in enumerate(CATS)}

def all_tool_settings():
    """the 16 combinations of (use_git, use_diff, has_git, has_diff)"""
    return [dict(use_git=a, use_diff=b, has_git=c, has_diff=d) for a, b, c, d in itertools.product([True, False], repeat=4)]

def tools_for(renderer, variant=0):
    """a tool setting that must select the given renderer; variant picks among the equivalent ones"""
    if renderer == 'git':
        opts = [dict(use_git=True, use_diff=True, has_git=True, has_diff=True), dict(use_git=True, use_diff=False, has_git=True, has_diff=False)]
    elif renderer == 'diff':
        opts = [dict(use_git=True, use_diff=True, has_git=False, has_diff=True), dict(use_git=False, use_diff=True, has_git=True, has_diff=True)]
    else:
        opts = [dict(use_git=True, use_diff=True, has_git=False, has_diff=False), dict(use_git=False, use_diff=False, has_git=True, has_diff=True),
                dict(use_git=False, use_diff=True, has_git=True, has_diff=False)]
    return opts[variant % len(opts)]

def config_grid_full():
    out = []
    for mask in range(64):
        for color in (False, True):
            for cw in (False, True):
                for rn in RENDERERS:
                    out.append(dict(ignore=mask, use_color=color, color_words=cw, **tools_for(rn)))
    return out

def config_grid_light(r, k=0):
    """all 64 subsets, each with one of the 12 (colour, colour-words, renderer) combinations in rotation, plus the
    12 combinations with nothing ignored"""
    combos = [(c, w, rn) for c in (False, True) for w in (False, True) for rn in RENDERERS]
    out = []
    for mask in range(64):
        c, w, rn = combos[(mask + k) % 12]
        out.append(dict(ignore=mask, use_color=c, color_words=w, **tools_for(rn, mask + k)))
    for i, (c, w, rn) in enumerate(combos):
        out.append(dict(ignore=0, use_color=c, color_words=w, **tools_for(rn, i + k + 1)))
    return out

# ------------------------------------------------------------------ boundary values at dictionary entries
# Entries of the free-form dictionaries of a notebook (notebook / cell / output metadata and the dictionaries nested in
# them, kernelspec / language_info extras, MIME bundles of outputs and attachments) and the schema's own string fields,
# whose value is a boundary value of its type: the empty string, blank or newline-only strings, strings with / without a
# final newline, zero, negative and huge numbers, booleans, null, empty and nearly empty containers.  An edit makes such an
# entry appear, disappear, change type or change value (either side of the edit may hold the boundary value).
ABSENT = ('absent',)          # sentinel: the entry does not exist (compared with `is`)
BOUNDARY_STRINGS = ['', '', '', ' ', '\n', '\n\n', ' \n', '\t', 'x', 'no final newline', 'one line\n', 'two\nlines', 'two\nlines\n',
                    '\nleading newline', '0', 'null', 'é', '<<<<<<< local', '# x']
BOUNDARY_OTHERS = [0, -1, 0.0, -0.5, 1e100, 10 ** 20, True, False, None, [], {}, [''], [[]], [None], [{}], {'': ''}, {'k': ''}, {'k': []},
                   {'k': None}, ['', '\n'], [0, ''], {'a': {'b': ''}}, ['x' * 90, '']]
BOUNDARY_EXOTIC = ['\r', '\r\n', '\x0c', U2028, 'a' + U2028, '\x85', '\x1c\x1d', 'a\rb']
BOUNDARY_KEYS = ['label', 'c16', 'k 1', '7', '+1', 'with.dot', 'ключ', 'Label']
MIME_TEXT_KEYS = ['text/plain', 'text/x-c16', 'text/markdown', 'text/html']
MIME_JSON_KEYS = ['application/json', 'application/vnd.c16+json']
ATTACH_KEYS = ['image/png', 'text/plain', 'image/x-c16']
STRING_FIELDS = {'source', 'text', 'ename', 'evalue'}

def _at(doc, path):
    for k in path: doc = doc[k]
    return doc

def _nested_dicts(d, path, skip=()):
    return [path + (k,) for k in sorted(d) if isinstance(d[k], dict) and k not in skip]

def boundary_sites(nb):
    """kind -> list of (path of a dictionary, value class) into which entries may be put without leaving the v4 schema.
    value class: 'any' (free-form), 'text' (MIME bundle entry that must be a string), 'field:<name>' (an existing string field
    of the schema: the key is fixed)"""
    s = {}
    def add(kind, path, cls): s.setdefault(kind, []).append((path, cls))
    md = nb['metadata']
    add('nb_metadata', ('metadata',), 'any')
    for p in _nested_dicts(md, ('metadata',)): add('nb_metadata_nested', p, 'any')
    if isinstance(md.get('language_info'), dict): add('field', ('metadata', 'language_info'), 'field:name')
    if isinstance(md.get('kernelspec'), dict): add('field', ('metadata', 'kernelspec'), 'field:display_name')
    for i, c in enumerate(nb['cells']):
        cp = ('cells', i)
        add('cell_metadata', cp + ('metadata',), 'any')
        for p in _nested_dicts(c['metadata'], cp + ('metadata',)): add('cell_metadata_nested', p, 'any')
        add('field', cp, 'field:source')
        for name in sorted(c.get('attachments', {})): add('attachment_mime', cp + ('attachments', name), 'attach')
        for j, o in enumerate(c.get('outputs', [])):
            op = cp + ('outputs', j)
            if 'metadata' in o:
                add('output_metadata', op + ('metadata',), 'any')
                for p in _nested_dicts(o['metadata'], op + ('metadata',)): add('output_metadata_nested', p, 'any')
            if 'data' in o: add('output_data', op + ('data',), 'mime')
            if o['output_type'] == 'stream': add('field', op, 'field:text')
            if o['output_type'] == 'error':
                add('field', op, 'field:ename'); add('field', op, 'field:evalue')
    return s

def boundary_value(r, cls, exotic=False):
    """a value allowed at a slot of the given class, boundary values of the type first"""
    strings = BOUNDARY_STRINGS + (BOUNDARY_EXOTIC if exotic else [])
    if cls == 'text': return r.choice(strings)
    c = r.random()
    if c < 0.5: return r.choice(strings)
    if c < 0.9: return copy.deepcopy(r.choice(BOUNDARY_OTHERS))
    return gen_meta_value(r, 1)

def _same_json(x, y):
    if x is ABSENT or y is ABSENT: return x is y
    return repr(x) == repr(y)          # 0, 0.0 and False are different values here

def boundary_slots(r, nb, n=None):
    """n distinct (dictionary path, key, value class) slots of nb, spread over the kinds of site it has"""
    sites = boundary_sites(nb)
    if n is None: n = r.choice([1, 1, 1, 2, 3])
    slots = []; seen = set()
    for _ in range(n * 3):
        if len(slots) == n: break
        kind = r.choice(sorted(sites))
        path, cls = r.choice(sites[kind])
        if cls.startswith('field:'): key = cls[6:]; cls = 'text'; fixed = True
        elif cls == 'mime':
            key = r.choice(MIME_TEXT_KEYS + MIME_JSON_KEYS); cls = 'any' if key in MIME_JSON_KEYS else 'text'; fixed = False
        elif cls == 'attach': key = r.choice(ATTACH_KEYS); cls = 'text'; fixed = False
        else: key = r.choice(BOUNDARY_KEYS); fixed = False
        if (path, key) in seen: continue
        seen.add((path, key)); slots.append((path, key, cls, fixed))
    return slots

def boundary_fill(r, nb, slots, exotic=False, absent=0.4):
    """a deep copy of nb in which every slot holds a fresh value (or, for a removable entry, nothing at all) that differs
    from what nb holds there"""
    b = copy.deepcopy(nb)
    for path, key, cls, fixed in slots:
        d = _at(b, path); old = d.get(key, ABSENT)
        for _ in range(20):
            new = ABSENT if (not fixed and r.random() < absent) else boundary_value(r, cls, exotic)
            if not _same_json(old, new): break
        else: new = 'changed'
        if new is ABSENT: d.pop(key, None)
        else: d[key] = new
    return b

def boundary_base(r, exotic=False):
    """a generated notebook that certainly has a code cell with a rich output (metadata + MIME bundle) and, half of the time, a
    markdown cell with an attachment, so that every kind of site exists"""
    nb = gen_notebook(r, ncells=r.choice([0, 1, 2, 3]), exotic=exotic)
    cell = {'cell_type': 'code', 'execution_count': r.choice([None, 1]), 'metadata': r.choice([{}, {'custom': {'a': 1}}]), 'source': gen_text(r, r.choice([0, 1, 2])),
            'outputs': [{'output_type': r.choice(['display_data', 'execute_result']), 'data': gen_mimebundle(r), 'metadata': r.choice([{}, {'image/png': {'width': 3}}])}]}
    if cell['outputs'][0]['output_type'] == 'execute_result': cell['outputs'][0]['execution_count'] = cell['execution_count']
    if r.random() < 0.5: cell['outputs'].append({'output_type': 'stream', 'name': 'stdout', 'text': gen_text(r, r.choice([1, 2]))})
    cells = [cell]
    if r.random() < 0.5: cells.append({'cell_type': 'markdown', 'metadata': {}, 'source': '![img](attachment:image.png)\n', 'attachments': gen_attachments(r)})
    for c in cells:
        if nb['nbformat_minor'] >= 5: c['id'] = cell_id(r)
        nb['cells'].insert(r.randrange(len(nb['cells']) + 1), c)
    return nb

def boundary_triple(r, exotic=False):
    """(base, local, remote, slots): base holds some value (or nothing) in each slot, local another; remote is, in rotation,
    equal to base, another filling of the same slots (agreement or conflict) or an ordinary edit of base"""
    nb = boundary_base(r, exotic)
    slots = boundary_slots(r, nb)
    base = boundary_fill(r, nb, slots, exotic, absent=0.5)
    local = boundary_fill(r, base, slots, exotic)
    c = r.random()
    if c < 0.35: remote = copy.deepcopy(base)
    elif c < 0.75: remote = boundary_fill(r, base, slots, exotic)
    else: remote, _ = mutate(r, base, n=r.choice([1, 2]), exotic=exotic)
    return base, local, remote, slots

# ------------------------------------------------------------------ encodings of the process's standard streams
# The terminal the entry points write to need not be a UTF-8 one.  An environment below fixes the encoding (and error handler)
# Python gives sys.stdout / sys.stderr / sys.stdin: through the locale (LC_ALL / LC_CTYPE / LANG with Python's C-locale
# coercion and UTF-8 mode switched off -- the ASCII locales are the only non-UTF-8 ones installed here), or through
# PYTHONIOENCODING (Latin-1 and other 8-bit code pages).  kind:
#   'locale'    the locale makes the streams ASCII with Python's default handler: text outside ASCII cannot be written as is
#   'utf8'      the streams are UTF-8 in one of the several ways to get there (controls)
#   'io-lossy'  PYTHONIOENCODING names a replacing error handler (the user's own choice of how to degrade)
#   'io-strict' PYTHONIOENCODING asks for a strict codec: the user's explicit choice that unencodable text is an error, so
#               these environments are only combined with text (and file names) the codec can represent
ENC_OFF = {'PYTHONCOERCECLOCALE': '0', 'PYTHONUTF8': '0'}
STREAM_ENVS = [
    ('LC_ALL=C', dict(ENC_OFF, LC_ALL='C'), 'ascii', 'locale'),
    ('LC_ALL=POSIX', dict(ENC_OFF, LC_ALL='POSIX'), 'ascii', 'locale'),
    ('LANG=C', dict(ENC_OFF, LANG='C'), 'ascii', 'locale'),
    ('no locale variables', dict(ENC_OFF), 'ascii', 'locale'),
    ('LC_CTYPE=C over LANG=C.UTF-8', dict(ENC_OFF, LC_CTYPE='C', LANG='C.UTF-8'), 'ascii', 'locale'),
    ('LC_ALL=C over LANG=C.UTF-8', dict(ENC_OFF, LC_ALL='C', LANG='C.UTF-8'), 'ascii', 'locale'),
    ('LC_ALL=C.UTF-8', dict(LC_ALL='C.UTF-8'), 'utf-8', 'utf8'),
    ('LC_ALL=C coerced by Python', dict(LC_ALL='C'), 'utf-8', 'utf8'),
    ('LC_ALL=C PYTHONUTF8=1', dict(LC_ALL='C', PYTHONUTF8='1'), 'utf-8', 'utf8'),
    ('LANG=C.UTF-8 no coercion', dict(ENC_OFF, LANG='C.UTF-8'), 'utf-8', 'utf8'),
    ('PYTHONIOENCODING=latin-1:backslashreplace', dict(LC_ALL='C.UTF-8', PYTHONIOENCODING='latin-1:backslashreplace'), 'latin-1', 'io-lossy'),
    ('PYTHONIOENCODING=ascii:replace', dict(LC_ALL='C.UTF-8', PYTHONIOENCODING='ascii:replace'), 'ascii', 'io-lossy'),
    ('PYTHONIOENCODING=ascii:xmlcharrefreplace', dict(LC_ALL='C.UTF-8', PYTHONIOENCODING='ascii:xmlcharrefreplace'), 'ascii', 'io-lossy'),
    ('LC_ALL=C PYTHONIOENCODING=:backslashreplace', dict(ENC_OFF, LC_ALL='C', PYTHONIOENCODING=':backslashreplace'), 'ascii', 'io-lossy'),
    ('PYTHONIOENCODING=cp1252:replace', dict(LC_ALL='C.UTF-8', PYTHONIOENCODING='cp1252:replace'), 'cp1252', 'io-lossy'),
    ('PYTHONIOENCODING=koi8-r:backslashreplace', dict(LC_ALL='C.UTF-8', PYTHONIOENCODING='koi8-r:backslashreplace'), 'koi8-r', 'io-lossy'),
    ('PYTHONIOENCODING=latin-1', dict(LC_ALL='C.UTF-8', PYTHONIOENCODING='latin-1'), 'latin-1', 'io-strict'),
    ('PYTHONIOENCODING=cp1252:strict', dict(LC_ALL='C.UTF-8', PYTHONIOENCODING='cp1252:strict'), 'cp1252', 'io-strict'),
    ('LC_ALL=C PYTHONIOENCODING=utf-8', dict(ENC_OFF, LC_ALL='C', PYTHONIOENCODING='utf-8'), 'utf-8', 'io-strict'),
]

def stream_envs(kind):
    return [dict(name=n, vars=v, codec=c, kind=k) for n, v, c, k in STREAM_ENVS if k == kind]

# text by the smallest of the usual terminal encodings that can represent it
ENC_TEXTS = {
    'latin1': ['Zoë', 'résumé', 'señor ñandú', 'Grüße aus Köln', '½ × ¿qué?', 'naïve café', 'Ærø ÷ þ', 'a\xa0b'],
    'cp1252': ['€ 5', '“quoted”', 'dash – and — dash', 'œuvre', 'Š ž …', '™ ‰'],
    'bmp': ['α → β', 'Жизнь', '日本語のテキスト', '✓ done', 'e' + chr(0x301) + ' combining', 'العربية', 'ก ไก่', '∀x ∈ ℝ', 'ł ő ě'],
    'astral': [chr(0x1F600) + ' smile', chr(0x1D4B3) + ' math', chr(0x1F1E9) + chr(0x1F1EA) + ' flag', chr(0x20BB7) + '野家', chr(0x10348) + ' gothic'],
}
ENC_REPERTOIRES = ['latin1', 'bmp', 'astral', 'cp1252', 'mixed']
ENC_SITES = ['source', 'stream', 'markdown-cell', 'raw-cell', 'nb-metadata-value', 'nb-metadata-key', 'cell-metadata', 'error-output',
             'display-data', 'attachment-name', 'deleted-cell']
ENC_FILE_STEMS = ['n', 'gämma', '日本', 'two words é', 'Ж' + chr(0x1F600)]

def enc_text(r, rep):
    pool = ENC_TEXTS[rep] if rep in ENC_TEXTS else [t for k in sorted(ENC_TEXTS) for t in ENC_TEXTS[k]]
    return r.choice(pool)

def enc_restrict(x, codec):
    """the document with every character its strings (keys included) hold outside the codec replaced by '?'"""
    if isinstance(x, str): return x.encode(codec, 'replace').decode(codec)
    if isinstance(x, dict): return {enc_restrict(k, codec): enc_restrict(v, codec) for k, v in x.items()}
    if isinstance(x, list): return [enc_restrict(v, codec) for v in x]
    return x

def enc_base(r):
    """a generated notebook that certainly holds a code cell with a stream output, a markdown cell and a cell that an edit may
    delete; each carries a marker word (zq<n>x) of its own"""
    nb = gen_notebook(r, ncells=r.choice([0, 1, 2]))
    code = {'cell_type': 'code', 'execution_count': 1, 'metadata': {}, 'source': 'x = 1\nname = "Zoe"\nprint(name)\n',
            'outputs': [{'output_type': 'stream', 'name': 'stdout', 'text': 'Zoe\n'}]}
    md = {'cell_type': 'markdown', 'metadata': {}, 'source': '# Title\nsome text'}
    for c in (code, md):
        if nb['nbformat_minor'] >= 5: c['id'] = cell_id(r)
        nb['cells'].insert(r.randrange(len(nb['cells']) + 1), c)
    nb['metadata']['title'] = 'resume'
    return nb

def enc_edit(r, nb, site, text, marker):
    """put `text` (with the ASCII marker word next to it) into nb at the given kind of site, in place"""
    minor = nb['nbformat_minor']
    def new_cell(c):
        if minor >= 5: c['id'] = cell_id(r)
        nb['cells'].insert(r.randrange(len(nb['cells']) + 1), c)
    code = [c for c in nb['cells'] if c['cell_type'] == 'code' and any(o['output_type'] == 'stream' for o in c['outputs'])]
    if site == 'source':
        c = r.choice(nb['cells']); s = c['source']
        c['source'] = s + ('' if s.endswith('\n') or not s else '\n') + "name = '%s'  # %s" % (text, marker) + r.choice(['', '\n'])
    elif site == 'stream' and code:
        o = [o for o in r.choice(code)['outputs'] if o['output_type'] == 'stream'][0]
        o['text'] = o['text'] + ('' if o['text'].endswith('\n') else '\n') + '%s %s\n' % (text, marker)
    elif site == 'markdown-cell': new_cell({'cell_type': 'markdown', 'metadata': {}, 'source': '## %s\n%s' % (marker, text)})
    elif site == 'raw-cell': new_cell({'cell_type': 'raw', 'metadata': {}, 'source': '%s %s' % (text, marker)})
    elif site == 'nb-metadata-value': nb['metadata']['title'] = '%s %s' % (text, marker)
    elif site == 'nb-metadata-key': nb['metadata']['%s %s' % (text, marker)] = r.choice([1, True, 'v', [text]])
    elif site == 'cell-metadata':
        md = r.choice(nb['cells'])['metadata']; md['tags'] = list(md.get('tags', [])) + ['%s-%s' % (marker, text)]
    elif site == 'error-output' and code:
        r.choice(code)['outputs'].append({'output_type': 'error', 'ename': 'Error' + marker, 'evalue': text, 'traceback': ['%s: %s' % (marker, text)]})
    elif site == 'display-data' and code:
        r.choice(code)['outputs'].append({'output_type': 'display_data', 'metadata': {}, 'data': {'text/plain': '%s %s' % (text, marker), 'text/html': '<b>%s</b>' % text}})
    elif site == 'attachment-name':
        new_cell({'cell_type': 'markdown', 'metadata': {}, 'source': '![i](attachment:%s.png)' % marker, 'attachments': {'%s %s.png' % (marker, text): {'image/png': b64(r, 30)}}})
    elif site == 'deleted-cell' and len(nb['cells']) > 2:
        i = r.randrange(len(nb['cells']))
        if not (nb['cells'][i]['cell_type'] == 'code' and len(code) == 1 and nb['cells'][i] is code[0]): del nb['cells'][i]
    else:
        nb['metadata']['note ' + marker] = text

def enc_documents(r, rep, codec=None):
    """(base, local, remote): base holds text of the repertoire at a few sites, local and remote are edits of base that add
    more of it at other sites (each piece next to a marker word of its own).  With a codec everything is restricted to it."""
    base = enc_base(r)
    k = [0]
    def edits(nb, n):
        for site in r.sample(ENC_SITES, n):
            k[0] += 1
            enc_edit(r, nb, site, enc_text(r, rep), 'zq%dx' % k[0])
    edits(base, r.choice([1, 2]))
    local = copy.deepcopy(base); edits(local, r.choice([2, 3, 4]))
    remote = copy.deepcopy(base); edits(remote, r.choice([1, 2, 3]))
    docs = [base, local, remote]
    if codec: docs = [enc_restrict(d, codec) for d in docs]
    return docs
