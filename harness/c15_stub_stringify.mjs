// Stand-in for json-stable-stringify (only used by the stringified patch routines, which the C15 check does not compare).
function stable(v, opts) {
  const space = opts && opts.space ? opts.space : undefined;
  const sortv = (x) => (x === null || typeof x !== 'object') ? x : Array.isArray(x) ? x.map(sortv)
    : Object.keys(x).sort().reduce((o, k) => { o[k] = sortv(x[k]); return o; }, {});
  return JSON.stringify(sortv(v), null, space);
}
export default stable;
