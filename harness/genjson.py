"""Grammar-based generators of JSON documents and document pairs/triples.  Every random choice comes
from the random.Random passed in (derived from VERIF_SEED), so cases replay exactly."""
import random, itertools, copy

SEPS = ['\n', '\r', '\r\n', '\x0b', '\x0c', '\x1c', '\x1d', '\x1e', '\x85', '\u2028', '\u2029']
WORDS = ['alpha', 'beta', 'gamma', 'delta', 'x = 1', 'print(x)', 'import os', 'def f(a, b):', '    return a + b',
         'for i in range(10):', '    pass', '# comment', 'y = x ** 2', 'plt.plot(x, y)', '']

ATOMS = [None, True, False, 0, 1, -1, 2, 7, 1.0, 0.0, -0.0, 2.0, 1.5, -2.25, 1e100, 2**53 + 1, float(2**53),
         10**30, 1e30, '', 'a', 'b', 'ab', 'a\nb', 'a\nb\n']
KEYS = ['a', 'b', 'c', 'k', 'key', 'x/y', '*', 'A', 'aa', '']

def gen_line(r):
    w = r.choice(WORDS)
    if r.random() < 0.3: w += ' ' + r.choice(WORDS)
    return w

def gen_text(r, nlines=None, seps=None):
    """multi-line text; mostly \\n, sometimes exotic separators, sometimes no trailing newline"""
    if nlines is None: nlines = r.choice([0, 1, 1, 2, 3, 4, 6, 9])
    lines = []
    for i in range(nlines):
        sep = '\n'
        if seps is not None: sep = r.choice(seps)
        elif r.random() < 0.15: sep = r.choice(SEPS)
        lines.append(gen_line(r) + sep)
    s = ''.join(lines)
    if s and r.random() < 0.3:
        s = s[:-1] if not s.endswith('\r\n') else s[:-2]
    return s

def edit_text(r, s):
    """derive a similar text: edit/insert/delete lines, tweak characters"""
    lines = s.splitlines(True)
    n = r.choice([1, 1, 2, 3])
    for _ in range(n):
        c = r.random()
        if c < 0.3 and lines:
            i = r.randrange(len(lines)); l = lines[i]
            if l:
                j = r.randrange(len(l))
                l = l[:j] + r.choice(['X', '', 'yy', ' ']) + l[j + r.choice([0, 1]):]
            lines[i] = l
        elif c < 0.55:
            lines.insert(r.randint(0, len(lines)), gen_line(r) + r.choice(['\n', '\n', '\n', ''] + SEPS[:3]))
        elif c < 0.75 and lines:
            del lines[r.randrange(len(lines))]
        elif c < 0.85 and lines:
            i = r.randrange(len(lines)); lines.insert(r.randint(0, len(lines)), lines[i])
        elif c < 0.95 and len(lines) > 1:
            i = r.randrange(len(lines)); l = lines.pop(i); lines.insert(r.randint(0, len(lines)), l)
        else:
            lines.append(gen_line(r))
    return ''.join(lines)

def gen_atom(r):
    c = r.random()
    if c < 0.7: return copy.deepcopy(r.choice(ATOMS))
    if c < 0.8: return r.randint(-5, 5)
    if c < 0.9: return gen_text(r)
    return r.choice([0.1, 0.5, 3.0, -1.0, 1e-5, 123456789.125])

def gen_value(r, depth=3):
    c = r.random()
    if depth <= 0 or c < 0.35: return gen_atom(r)
    if c < 0.65: return [gen_value(r, depth - 1) for _ in range(r.choice([0, 1, 2, 3, 4, 5]))]
    if c < 0.93: return {r.choice(KEYS): gen_value(r, depth - 1) for _ in range(r.choice([0, 1, 2, 3, 4]))}
    return gen_text(r)

def gen_container(r, kind=None, depth=3):
    kind = kind or r.choice(['list', 'dict', 'str'])
    if kind == 'list': return [gen_value(r, depth - 1) for _ in range(r.choice([0, 1, 2, 3, 4, 6]))]
    if kind == 'dict': return {r.choice(KEYS): gen_value(r, depth - 1) for _ in range(r.choice([0, 1, 2, 3, 5]))}
    return gen_text(r)

def retype_atom(r, v):
    """same value under Python ==, different JSON type, when possible"""
    if v is True: return r.choice([1, 1.0])
    if v is False: return r.choice([0, 0.0, -0.0])
    if isinstance(v, int): return float(v) if abs(v) < 2**53 else v
    if isinstance(v, float):
        if v == int(v): return int(v)
        return v
    return v

def mutate(r, v, depth=3):
    """derive an edited copy of v (same container kind at top level)"""
    v = copy.deepcopy(v)
    if isinstance(v, str):
        return edit_text(r, v) if r.random() < 0.9 else gen_text(r)
    if isinstance(v, list):
        for _ in range(r.choice([1, 1, 2, 3])):
            c = r.random()
            if c < 0.25: v.insert(r.randint(0, len(v)), gen_value(r, depth - 1))
            elif c < 0.45 and v: del v[r.randrange(len(v))]
            elif c < 0.7 and v:
                i = r.randrange(len(v))
                if isinstance(v[i], (list, dict, str)) and depth > 0 and r.random() < 0.8: v[i] = mutate(r, v[i], depth - 1)
                elif r.random() < 0.3: v[i] = retype_atom(r, v[i])
                else: v[i] = gen_value(r, depth - 1)
            elif c < 0.8 and v: i = r.randrange(len(v)); v.insert(r.randint(0, len(v)), copy.deepcopy(v[i]))
            elif c < 0.9 and len(v) > 1: i = r.randrange(len(v)); x = v.pop(i); v.insert(r.randint(0, len(v)), x)
            else: v.append(gen_value(r, depth - 1))
        return v
    if isinstance(v, dict):
        for _ in range(r.choice([1, 1, 2, 3])):
            c = r.random()
            if c < 0.25: v[r.choice(KEYS)] = gen_value(r, depth - 1)
            elif c < 0.45 and v: del v[r.choice(sorted(v))]
            elif v:
                k = r.choice(sorted(v))
                if isinstance(v[k], (list, dict, str)) and depth > 0 and r.random() < 0.8: v[k] = mutate(r, v[k], depth - 1)
                elif r.random() < 0.3: v[k] = retype_atom(r, v[k])
                else: v[k] = gen_value(r, depth - 1)
        return v
    return gen_atom(r)

def gen_pair(r, depth=3):
    a = gen_container(r, depth=depth)
    c = r.random()
    if c < 0.08: b = copy.deepcopy(a)
    elif c < 0.8: b = mutate(r, a, depth)
    else: b = gen_container(r, kind={list: 'list', dict: 'dict', str: 'str'}[type(a)], depth=depth)
    return a, b

# ---- exhaustive small scope ----
SMALL_ATOMS = [None, True, 1, 1.0, 'a']
def small_values(depth):
    """all values of nesting depth <= depth over SMALL_ATOMS with containers of size <= 2"""
    vals = list(SMALL_ATOMS)
    if depth == 0: return vals
    sub = small_values(depth - 1)
    out = list(vals)
    for n in range(0, 3):
        for combo in itertools.product(sub, repeat=n):
            out.append(list(combo))
    for n in range(0, 3):
        for combo in itertools.product(sub, repeat=n):
            out.append({k: v for k, v in zip(['a', 'b'], combo)})
    return out

def small_strings(maxlen, alphabet=('a', 'b', '\n', '\r', '\u2028')):
    for n in range(maxlen + 1):
        for combo in itertools.product(alphabet, repeat=n):
            yield ''.join(combo)

def small_lists(maxlen, alphabet):
    for n in range(maxlen + 1):
        for combo in itertools.product(alphabet, repeat=n):
            yield list(combo)
