"""Case family of C09: concurrent inserts at ONE position of a sequence, optionally followed by a removal.

Both sides insert items at the same position of the same sequence; the inserted runs are related in a way that the
insert splitter can resolve without a conflict (identical runs, one run extending the other at the front / in the middle /
at the end, each side adding an item of its own around a shared run) or cannot (unrelated runs); and the item(s) right
after the insertion point are removed by nobody, by local only, by remote only or by both.  That is every chunk shape
A/A, AR/A, A/AR, AR/AR the list merger routes to its concurrent-insert code, for every sequence a notebook has: the cells
(with and without ids), the lines of a source, the outputs of a code cell, the lines of a stream text, a list in cell
metadata.  Each side's full change set (inserts AND the trailing removal) has to be recoverable from the decisions.

Content is built from pairwise dissimilar templates so that the differ reports the insert and the removal as such (an
inserted item that resembles the removed one would be reported as a modification and never reach the insert code)."""
import copy

LEVELS = ('cells4', 'cells5', 'lines', 'outputs', 'text', 'mdlist')
RELATIONS = ('same', 'local_more', 'remote_more', 'both_more', 'unrelated')
REMOVALS = ('none', 'local', 'remote', 'both')

# pairwise dissimilar cell sources (code / markdown alternate by index parity at use)
_CODE = [
    'import numpy as np\nimport pandas as pd\n',
    'data = np.loadtxt("measurements-%d.txt")\nprint(data.shape)\n',
    'def scale(values, by=%d):\n    return [v * by for v in values]\n',
    'frame = pd.read_csv("table-%d.csv")\nframe.describe()',
    'for i in range(%d):\n    total += i ** 2\nprint(total)\n',
    'class Reader%d(object):\n    def __init__(self, path):\n        self.path = path\n',
    'fig, ax = plt.subplots(figsize=(%d, 4))\nax.plot(xs, ys)\nfig.savefig("out.png")',
    'assert len(results) == %d, "unexpected number of results"\n',
    'with open("log-%d.txt", "w") as handle:\n    handle.write(report)\n',
    'model = fit(train, epochs=%d)\nscore = model.evaluate(test)\nscore',
    '%%%%time\nsolve(matrix, tolerance=1e-%d)\n',
    'try:\n    value = lookup[key%d]\nexcept KeyError:\n    value = None\n',
]
_MD = [
    '# Measurements of year %d\n\nLoaded from the archive.\n',
    'The *second* part (%d) explains how the scaling works.',
    '## Results\n\n- item one\n- item %d\n',
    '> quoted remark number %d about the plots\n',
    'See [the manual](https://example.org/doc/%d) for details.\n',
    '### Appendix %d\n\n| a | b |\n|---|---|\n| 1 | 2 |\n',
]
_LINE = ['x = %d\n', 'import os, sys  # %d\n', 'print("value", y%d)\n', 'result = compute(a, b, n=%d)\n', '# note %d: check units\n',
         'while queue%d:\n', '    queue.pop()\n', 'names = sorted(set(names))[:%d]\n', 'return total / max(count, %d)\n',
         'z%d = None\n', 'del cache["k%d"]\n', 'raise ValueError("bad input %d")\n', 'w = [1, 2, %d]\n', 'pass  # %d\n']
_TAG = ['alpha', 'beta', 'gamma', 'delta', 'epsilon', 'zeta', 'eta', 'theta', 'iota', 'kappa', 'lambda', 'mu', 'nu', 'xi']


def _take(r, pool):
    """next unused template; a synthetic, still unique one when the pool is exhausted"""
    if pool: return pool.pop()
    return 'unique_%04x = %%d\n' % r.randrange(16 ** 4)


def _fill(r, tpl):
    return tpl % r.randint(2, 97) if '%d' in tpl.replace('%%', '') else tpl.replace('%%', '%')


class _Items(object):
    """fresh, pairwise dissimilar items of one level"""
    def __init__(self, r, level):
        self.r = r; self.level = level; self.n = 0
        self.code = list(_CODE); self.md = list(_MD); self.line = list(_LINE); self.tag = list(_TAG)
        for p in (self.code, self.md, self.line, self.tag): r.shuffle(p)

    def cell(self, minor, kind=None):
        r = self.r; self.n += 1
        if kind is None: kind = 'code' if (not self.md or r.random() < 0.65) else 'markdown'
        if kind == 'code':
            c = {'cell_type': 'code', 'metadata': {}, 'source': _fill(r, _take(r, self.code)), 'execution_count': None, 'outputs': []}
        else:
            c = {'cell_type': 'markdown', 'metadata': {}, 'source': _fill(r, _take(r, self.md))}
        if minor >= 5: c['id'] = 'c%02d-%04x' % (self.n, r.randrange(16 ** 4))
        return c

    def output(self):
        r = self.r; self.n += 1
        k = self.n % 3
        if k == 0: return {'output_type': 'stream', 'name': r.choice(['stdout', 'stderr']), 'text': _fill(r, _take(r, self.code))}
        if k == 1: return {'output_type': 'display_data', 'data': {'text/plain': _fill(r, _take(r, self.md))}, 'metadata': {}}
        return {'output_type': 'error', 'ename': r.choice(['ValueError', 'KeyError', 'ZeroDivisionError']) + str(self.n),
                'evalue': _fill(r, 'problem %d'), 'traceback': [_fill(r, _take(r, self.line))]}

    def item(self):
        if self.level == 'cells4': return self.cell(self.minor)
        if self.level == 'cells5': return self.cell(5)
        if self.level in ('lines', 'text'): return _fill(self.r, _take(self.r, self.line))
        if self.level == 'outputs': return self.output()
        return self.tag.pop() if self.tag else 'tag%04x' % self.r.randrange(16 ** 4)


def _runs(r, fresh, relation, ncommon):
    """-> (local run, remote run) inserted at the same position"""
    common = [fresh() for _ in range(ncommon)]
    def around(run, extra):
        where = r.choice(['front', 'end'] + (['middle'] if len(run) >= 2 else []))
        i = {'front': 0, 'end': len(run)}.get(where, len(run) // 2)
        return run[:i] + [extra] + run[i:]
    if relation == 'same': return list(common), list(common)
    if relation == 'local_more': return around(common, fresh()), list(common)
    if relation == 'remote_more': return list(common), around(common, fresh())
    if relation == 'both_more': return [fresh()] + list(common), list(common) + [fresh()]
    return [fresh() for _ in range(ncommon)], [fresh() for _ in range(ncommon)]      # unrelated -> conflict


def _embed(r, level, minor, seqs, items):
    """three notebooks whose sequence of the given level is seqs[0..2]"""
    def nb(cells): return {'cells': cells, 'metadata': {}, 'nbformat': 4, 'nbformat_minor': minor}
    if level in ('cells4', 'cells5'):
        return [nb(copy.deepcopy(s)) for s in seqs]
    lead = items.cell(minor, 'markdown' if r.random() < 0.5 else 'code')
    trail = items.cell(minor, 'code') if r.random() < 0.5 else None
    host = items.cell(minor, 'code' if level in ('outputs', 'text') else None)
    out = []
    for s in seqs:
        c = copy.deepcopy(host)
        if level == 'lines':
            c['source'] = ''.join(s)
        elif level == 'outputs':
            c['outputs'] = copy.deepcopy(s); c['execution_count'] = 3
        elif level == 'text':
            c['outputs'] = [{'output_type': 'stream', 'name': 'stdout', 'text': ''.join(s)}]; c['execution_count'] = 1
        else:
            c['metadata'] = {'tags': list(s)}
        out.append(nb([copy.deepcopy(x) for x in (lead, c, trail) if x is not None]))
    return out


def make(r, level, relation, removal, before=None, after=None, ncommon=None, rmlen=None):
    """one triple (name, base, local, remote)"""
    minor = 5 if level == 'cells5' else r.choice([3, 4, 4]) if level == 'cells4' else r.choice([4, 4, 5])
    items = _Items(r, level); items.minor = minor
    before = r.choice([0, 1, 1, 2]) if before is None else before
    rmlen = (0 if removal == 'none' else r.choice([1, 1, 1, 2])) if rmlen is None else rmlen
    after = r.choice([0, 1, 1, 2]) if after is None else after           # items kept after the removed ones
    ncommon = r.choice([1, 1, 2]) if ncommon is None else ncommon
    if level in ('lines', 'text') and before + after < 5:
        # the text around the edit must keep the host cell / output recognisably the same item on all three sides, else the
        # whole item counts as replaced; untouched ends (insert at the very start, removal reaching the end) are kept
        pad = 5 - (before + after)
        if (before == 0) != (after == 0): grow_before = after == 0
        else: grow_before = r.random() < 0.5
        if grow_before: before += pad
        else: after += pad
    pre =[items.item() for _ in range(before)]
    victims = [items.item() for _ in range(rmlen)]
    post = [items.item() for _ in range(after)]
    L, R = _runs(r, items.item, relation, ncommon)
    base = pre + victims + post
    local = pre + L + ([] if removal in ('local', 'both') else victims) + post
    remote = pre + R + ([] if removal in ('remote', 'both') else victims) + post
    b, l, rm = _embed(r, level, minor, [base, local, remote], items)
    name = 'agreedins:%s:%s:rm-%s@4.%d' % (level, relation, removal, minor)
    return (name, b, l, rm)


def agreed_insert_triples(r, tier):
    """systematic part: every level x {identical, one run extends the other} x {removal by local, remote, both};
    sampled part: the remaining shapes (no removal, both sides extend, unrelated runs = conflict) and sizes"""
    out = []
    for level in LEVELS:
        for relation in ('same', 'local_more', 'remote_more'):
            for removal in ('local', 'remote', 'both'):
                out.append(make(r, level, relation, removal))
    for _ in range(12 if tier == 'quick' else 150):
        out.append(make(r, r.choice(LEVELS), r.choice(RELATIONS), r.choice(REMOVALS),
                        before=r.choice([0, 1, 2, 3]), after=r.choice([0, 0, 1, 2, 3]), ncommon=r.choice([1, 2, 3])))
    return out
